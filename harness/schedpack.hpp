// Projection of schedule objects through the library's own serialisation:
// every serialised member of a ScheduleState is packed separately and
// hashed, so that two snapshots can be compared member by member without
// relying on operator== (which, e.g., compares lazily filled unit tables).
#pragma once
#include "common.hpp"
#include "opm_all.hpp"

#include <opm/common/utility/MemPacker.hpp>
#include <opm/common/utility/Serializer.hpp>
#include <opm/input/eclipse/Schedule/Schedule.hpp>
#include <opm/input/eclipse/Schedule/ScheduleState.hpp>

#include <algorithm>
#include <bitset>
#include <cstring>
#include <sstream>
#include <tuple>
#include <map>

namespace vf {

struct BufSerializer : public Opm::Serializer<Opm::Serialization::MemPacker> {
    using Opm::Serializer<Opm::Serialization::MemPacker>::Serializer;
    const std::vector<char>& buffer() const { return this->m_buffer; }
};

inline std::string fnv64(const std::vector<char>& b) {
    std::uint64_t h = 1469598103934665603ull;
    for (unsigned char c : b) { h ^= c; h *= 1099511628211ull; }
    char s[20];
    std::snprintf(s, sizeof s, "%016llx", static_cast<unsigned long long>(h));
    return s;
}

// The library serialises a std::shared_ptr as the address of the pointee followed (the first time) by the
// pointee.  Addresses differ from object to object, so they are replaced by the ordinal of their first
// occurrence before hashing.  An address is recognised as an 8-byte little-endian value 0x0000_55xx.. /
// 0x0000_56xx.. (heap) or 0x0000_7exx.. / 0x0000_7fxx.. (mmap): no double, count or size in the data has
// such a bit pattern, and text that happens to match is mapped consistently because the mapping is by value.
inline void canonicalise_addresses(std::vector<char>& b) {
    std::map<std::uint64_t, std::uint64_t> ord;
    for (std::size_t i = 0; i + 8 <= b.size();) {
        const auto hi = static_cast<unsigned char>(b[i + 5]);
        if (b[i + 6] == 0 && b[i + 7] == 0 && (hi == 0x55 || hi == 0x56 || hi == 0x7e || hi == 0x7f)) {
            std::uint64_t v;
            std::memcpy(&v, &b[i], 8);
            auto it = ord.find(v);
            if (it == ord.end()) it = ord.emplace(v, 0xA000000000000000ull + ord.size()).first;
            std::memcpy(&b[i], &it->second, 8);
            i += 8;
        } else {
            ++i;
        }
    }
}

template <class T>
inline std::string pack_hash(const T& obj, std::size_t* len = nullptr) {
    Opm::Serialization::MemPacker packer;
    BufSerializer ser(packer);
    ser.pack(obj);
    if (len) *len = ser.buffer().size();
    auto bytes = ser.buffer();
    canonicalise_addresses(bytes);
    return fnv64(bytes);
}


// ---- a packer that logs every primitive field (kind, bytes, digest of the bytes) of each pass
using Field = std::pair<int, std::size_t>;       // kind, bytes

struct FieldLog { std::vector<Field> size, pack, unpack; std::vector<std::uint64_t> content; };

// digest of one packed field; an 8-byte value that looks like an address (shared_ptr identity) counts as "a pointer"
inline std::uint64_t field_digest(const std::vector<char>& buf, std::size_t p0, std::size_t p1) {
    if (p1 - p0 == 8) {
        const auto hi = static_cast<unsigned char>(buf[p0 + 5]);
        if (buf[p0 + 6] == 0 && buf[p0 + 7] == 0 && (hi == 0x55 || hi == 0x56 || hi == 0x7e || hi == 0x7f)) return 0x5054525054525054ull;
    }
    std::uint64_t h = 1469598103934665603ull;
    for (std::size_t i = p0; i < p1; ++i) { h ^= static_cast<unsigned char>(buf[i]); h *= 1099511628211ull; }
    return h;
}

template <class T> struct is_bitset : std::false_type {};
template <std::size_t N> struct is_bitset<std::bitset<N>> : std::true_type {};
template <class T> constexpr int kind_of() {
    if constexpr (std::is_same_v<T, std::string>) return 2;
    else if constexpr (is_bitset<T>::value) return 3;
    else if constexpr (std::is_same_v<T, Opm::time_point>) return 4;
    else return 1;
}

struct LogPacker {
    Opm::Serialization::MemPacker base;
    FieldLog* log;
    template <class T> std::size_t packSize(const T& d) const { const auto n = base.packSize(d); log->size.push_back({kind_of<T>(), n}); return n; }
    template <class T> std::size_t packSize(const T* d, std::size_t n) const { const auto b = base.packSize(d, n); log->size.push_back({5, b}); return b; }
    template <class T> void pack(const T& d, std::vector<char>& buf, std::size_t& pos) const {
        const auto p0 = pos; base.pack(d, buf, pos); log->pack.push_back({kind_of<T>(), pos - p0}); log->content.push_back(field_digest(buf, p0, pos));
    }
    template <class T> void pack(const T* d, std::size_t n, std::vector<char>& buf, std::size_t& pos) const {
        const auto p0 = pos; base.pack(d, n, buf, pos); log->pack.push_back({5, pos - p0}); log->content.push_back(field_digest(buf, p0, pos));
    }
    template <class T> void unpack(T& d, const std::vector<char>& buf, std::size_t& pos) const {
        const auto p0 = pos; base.unpack(d, buf, pos); log->unpack.push_back({kind_of<T>(), pos - p0});
    }
    template <class T> void unpack(T* d, std::size_t n, const std::vector<char>& buf, std::size_t& pos) const {
        const auto p0 = pos; base.unpack(d, n, buf, pos); log->unpack.push_back({5, pos - p0});
    }
};

struct LogSerializer : public Opm::Serializer<LogPacker> {
    using Opm::Serializer<LogPacker>::Serializer;
    const std::vector<char>& buffer() const { return this->m_buffer; }
    void set_buffer(const std::vector<char>& b) { this->m_buffer = b; }
};


// digest of the multiset of packed fields: insensitive to the iteration order of unordered containers
template <class T>
inline std::string pack_hash_unordered(const T& obj) {
    FieldLog l;
    const LogPacker p{{}, &l};
    LogSerializer ser(p);
    ser.pack(obj);
    std::vector<std::tuple<int, std::size_t, std::uint64_t>> f;
    for (std::size_t i = 0; i < l.pack.size(); ++i) f.emplace_back(l.pack[i].first, l.pack[i].second, l.content[i]);
    std::sort(f.begin(), f.end());
    std::uint64_t hh = 1469598103934665603ull;
    for (const auto& [k, n, d] : f) { for (std::uint64_t v : {std::uint64_t(k), std::uint64_t(n), d}) { hh ^= v; hh *= 1099511628211ull; } }
    char sbuf[20];
    std::snprintf(sbuf, sizeof sbuf, "%016llx", static_cast<unsigned long long>(hh));
    return sbuf;
}

// member-wise digest of one snapshot
inline json project_state(const Opm::ScheduleState& st, bool maskActionEvent = false, bool unordered = false, std::uint64_t extraEventMask = 0) {
    json o = json::object();
#define VF_MEMBER(m) o[#m] = unordered ? pack_hash_unordered(st.m.get()) : pack_hash(st.m.get());
    VF_MEMBER(gecon) VF_MEMBER(guide_rate) VF_MEMBER(wlist_manager)
    VF_MEMBER(udq_active)
    if (!maskActionEvent) o["udq"] = unordered ? pack_hash_unordered(st.udq.get()) : pack_hash(st.udq.get());
    {
        // UDQ configuration through its accessors (the serialised form carries the line numbers of the defining
        // keywords, which differ between an applied action and the same keywords written into the deck)
        const auto& udq = st.udq();
        json jd = json::array(), ja = json::array();
        for (const auto& d : udq.definitions()) {
            const auto stat = d.status();
            jd.push_back({d.keyword(), d.input_string(), static_cast<int>(stat.first), stat.second, static_cast<int>(d.var_type()),
                          udq.has_unit(d.keyword()) ? udq.unit(d.keyword()) : std::string("-")});
        }
        for (const auto& a : udq.assignments()) {
            json vals = json::array();
            const auto set = (a.var_type() == Opm::UDQVarType::WELL_VAR) ? a.eval(st.well_order().names())
                           : (a.var_type() == Opm::UDQVarType::GROUP_VAR) ? a.eval(st.group_order().names()) : a.eval();
            for (const auto& x : set) vals.push_back({x.wgname(), x.defined() ? json(hexd(x.get())) : json("undef")});
            ja.push_back({a.keyword(), a.report_step(), vals});
        }
        o["udq_defs"] = jd;
        o["udq_assigns"] = ja;
    }
    VF_MEMBER(pavg) VF_MEMBER(wtest_config) VF_MEMBER(glo) VF_MEMBER(network) VF_MEMBER(network_balance)
    VF_MEMBER(rst_config) VF_MEMBER(bhp_defaults) VF_MEMBER(source)
#undef VF_MEMBER
    {
        // GCONSALE / GCONSUMP entries embed a copy of the UnitSystem, whose serialised form includes a usage counter
        // (UnitSystem::m_use_count, not compared by operator==) - projected through the accessors instead
        auto udav = [](const Opm::UDAValue& u) { return u.is<std::string>() ? json(u.get<std::string>()) : u.is_numeric() ? json(hexd(u.getSI())) : json("unset"); };
        json js = json::object(), jc = json::object();
        for (const auto& g : st.group_order().names()) {
            if (st.gconsale().has(g)) {
                const auto& x = st.gconsale().get(g);
                js[g] = {udav(x.sales_target), udav(x.max_sales_rate), udav(x.min_sales_rate), static_cast<int>(x.max_proc), hexd(x.udq_undefined), x.unit_system.getName()};
            }
            if (st.gconsump().has(g)) {
                const auto& x = st.gconsump().get(g);
                jc[g] = {udav(x.consumption_rate), udav(x.import_rate), x.network_node, hexd(x.udq_undefined), x.unit_system.getName()};
            }
        }
        o["gconsale"] = js;
        o["gconsale_n"] = st.gconsale().size();
        o["gconsump"] = jc;
        o["gconsump_n"] = st.gconsump().size();
    }
    // members held in unordered containers: projected through their accessors, in a canonical order
    o["well_order"] = st.well_order().names();
    o["group_order"] = st.group_order().names();
    {
        std::map<std::string, unsigned> m(st.rpt_config().begin(), st.rpt_config().end());
        o["rpt_config"] = m;
    }
    {
        // ACTIONX definitions: the stored body keywords cache their SI conversion lazily (a keyword that has been
        // applied once serialises differently from one that has not), so actions are projected through accessors
        json acts = json::array();
        for (const auto& a : st.actions()) {
            json ja = {{"name", a.name()}, {"id", a.id()}, {"max_run", a.max_run()}, {"min_wait", hexd(a.min_wait())},
                       {"start", static_cast<long>(a.start_time())}, {"body", a.keyword_strings()}};
            json conds = json::array();
            for (const auto& c : a.conditions())
                conds.push_back({c.lhs.quantity, c.lhs.args, c.rhs.quantity, c.rhs.args, static_cast<int>(c.logic), static_cast<int>(c.cmp), c.cmp_string});
            ja["conds"] = conds;
            acts.push_back(ja);
        }
        o["actions"] = acts;
    }
    {
        // RFT configuration: kept in unordered maps (serialisation order depends on the insertion history), so it is
        // projected well by well through its queries
        const auto& rft = st.rft_config();
        json jr = {{"active", rft.active()}};
        for (const auto& wname : st.well_order().names())
            jr[wname] = {rft.rft(wname), rft.plt(wname), !rft.well_open(wname).has_value()};
        o["rft_config"] = jr;
    }
    // wells and groups one by one, in schedule order
    json wells = json::object();
    for (const auto& wname : st.well_order().names()) {
        const auto& w = st.wells.get(wname);
        json jw;
        jw["all"] = pack_hash(w);
        jw["conns"] = pack_hash(w.getConnections());
        {   // (readable: cell, state, connection factor, the WPIMULT factor accumulated so far)
            json jc = json::array();
            for (const auto& c : w.getConnections())
                jc.push_back({c.getI(), c.getJ(), c.getK(), Opm::Connection::State2String(c.state()), hexd(c.CF()), hexd(c.wpimult())});
            jw["conn_list"] = jc;
        }
        jw["prod"] = pack_hash(w.getProductionProperties());
        jw["inj"] = pack_hash(w.getInjectionProperties());
        jw["status"] = Opm::WellStatus2String(w.getStatus());
        jw["group"] = w.groupName();
        wells[wname] = jw;
    }
    o["wells"] = wells;
    json groups = json::object();
    // (a Group serialises its copy of the deck's UnitSystem, including the lazily filled dimension table and
    //  use counters, which depend on what else the deck contains: groups are therefore projected field by field)
    for (const auto& gname : st.group_order().names()) {
        const auto& g = st.groups.get(gname);
        json jg;
        jg["insert"] = g.insert_index();
        jg["parent"] = g.parent();
        jg["efac"] = hexd(g.getGroupEfficiencyFactor());
        jg["transfer_efac"] = g.getTransferGroupEfficiencyFactor();
        jg["wells"] = g.wells();
        jg["groups"] = g.groups();
        jg["prod"] = pack_hash(g.productionProperties());
        json inj = json::object();
        for (const auto& [phase, props] : g.injectionProperties()) inj[std::to_string(static_cast<int>(phase))] = pack_hash(props);
        jg["inj"] = inj;
        jg["type"] = static_cast<int>(g.getGroupType());
        jg["gpmaint"] = g.gpmaint().has_value() ? pack_hash(*g.gpmaint()) : std::string("none");
        jg["topup"] = g.topup_phase().has_value() ? static_cast<int>(*g.topup_phase()) : -1;
        groups[gname] = jg;
    }
    o["groups"] = groups;
    o["tuning"] = pack_hash(st.tuning());
    o["nupcol"] = st.nupcol();
    o["oilvap"] = pack_hash(st.oilvap());
    {
        // events; the marker an applied ACTIONX leaves can be masked (property C04)
        auto ev = st.events();
        auto wge = st.wellgroup_events();
        if (maskActionEvent) {
            ev.clearEvent(Opm::ScheduleEvents::ACTIONX_WELL_EVENT);
            for (const auto& wname : st.well_order().names())
                if (wge.has(wname)) wge.clearEvent(wname, Opm::ScheduleEvents::ACTIONX_WELL_EVENT);
        }
        if (extraEventMask != 0) {
            ev.clearEvent(extraEventMask);
            for (const auto& wname : st.well_order().names())
                if (wge.has(wname)) wge.clearEvent(wname, extraEventMask);
        }
        o["events"] = pack_hash(ev);
        json wg = json::object();
        auto names = st.well_order().names();
        for (const auto& g : st.group_order().names()) names.push_back(g);
        for (const auto& n : names)
            if (wge.has(n) && (extraEventMask == 0 || wge.at(n).hasEvent(~std::uint64_t{0}))) wg[n] = pack_hash(wge.at(n));
        o["wgevents"] = wg;
    }
    {
        // geometry-modifying keywords of the step: their text (the serialised form carries the line number of the
        // keyword in the input file, which is not schedule state)
        json jg = json::array();
        for (const auto& kw : st.geo_keywords()) { std::ostringstream os; os << kw; jg.push_back(os.str()); }
        o["geo"] = jg;
    }
    o["msglimits"] = pack_hash(st.message_limits());
    o["times"] = {Opm::TimeService::to_time_t(st.start_time()), st.sim_step(), st.month_num(), st.year_num(),
                  st.first_in_month(), st.first_in_year(), st.save(), st.rptonly()};
    o["next_tstep"] = st.next_tstep.has_value() ? pack_hash(*st.next_tstep) : std::string("none");
    {
        std::map<std::string, std::string> tw;                 // unordered in the library
        for (const auto& [w, v] : st.target_wellpi) tw[w] = hexd(v);
        o["target_wellpi"] = tw;
    }
    return o;
}

} // namespace vf
