// Shared helpers for the conformance harnesses: JSON (nlohmann), ndjson
// event log, deterministic PRNG, file helpers.  No property logic here.
#pragma once
#include <nlohmann/json.hpp>

#include <cstdint>
#include <cstdio>
#include <cstdlib>
#include <exception>
#include <filesystem>
#include <fstream>
#include <iostream>
#include <sstream>
#include <string>
#include <typeinfo>
#include <unistd.h>
#include <vector>

namespace vf {
using json = nlohmann::json;
namespace fs = std::filesystem;

struct Rng {                       // splitmix64
    std::uint64_t s;
    explicit Rng(std::uint64_t seed) : s(seed) {}
    std::uint64_t next() {
        std::uint64_t z = (s += 0x9e3779b97f4a7c15ull);
        z = (z ^ (z >> 30)) * 0xbf58476d1ce4e5b9ull;
        z = (z ^ (z >> 27)) * 0x94d049bb133111ebull;
        return z ^ (z >> 31);
    }
    std::uint64_t below(std::uint64_t n) { return n ? next() % n : 0; }
    double unit() { return (next() >> 11) * (1.0 / 9007199254740992.0); }
    double range(double a, double b) { return a + (b - a) * unit(); }
    bool coin() { return next() & 1; }
};

class Trace {                      // ndjson event log
    std::ofstream out_;
    std::size_t n_ = 0;
public:
    explicit Trace(const std::string& path) : out_(path) {}
    void emit(const json& j) { out_ << j.dump() << "\n"; out_.flush(); ++n_; }
    void flush() { out_.flush(); }
    std::size_t size() const { return n_; }
};

inline std::vector<json> read_ndjson(const std::string& path) {
    std::vector<json> v;
    std::ifstream in(path);
    std::string line;
    while (std::getline(in, line)) {
        if (line.empty()) continue;
        v.push_back(json::parse(line));
    }
    return v;
}

inline std::string slurp(const std::string& path) {
    std::ifstream in(path, std::ios::binary);
    std::ostringstream ss;
    ss << in.rdbuf();
    return ss.str();
}

inline void spit(const std::string& path, const std::string& data) {
    std::ofstream out(path, std::ios::binary | std::ios::trunc);
    out.write(data.data(), static_cast<std::streamsize>(data.size()));
}

inline std::string exc_name(const std::exception& e) {
    return typeid(e).name();
}

// A terminate handler that keeps the trace: uncaught exceptions / aborts in
// the library must not silently truncate the log.
inline void install_terminate() {
    std::set_terminate([] {
        std::fprintf(stderr, "harness: std::terminate called\n");
        std::_Exit(3);
    });
}

// hex image of a double, exact
inline std::string hexd(double x) {
    char b[40];
    std::snprintf(b, sizeof b, "%a", x);
    return b;
}
} // namespace vf
