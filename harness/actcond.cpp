// C18 harness, condition layer: evaluates ACTIONX conditions with the real
// Action::AST / ActionX (optionally built from deck text through the real
// Parser and parseActionX) on a real SummaryState / WListManager and logs
// the truth value and the matching wells.  The verdict is TLC's
// (Trace_ActionCond recomputes the reference meaning from the logged tokens
// and values).
//
//   actcond <cases.ndjson> <trace.ndjson>
// case: {"toks":[..], "sv":{"f":{q:v},"w":{q:{well:v}},"g":{q:v},"day":d,"mnth":m,"year":y},
//        "wlists":{"*LST":[wells]}, "deck":bool}
#include "common.hpp"

#include <opm/input/eclipse/Deck/Deck.hpp>
#include <opm/input/eclipse/Schedule/Action/Actdims.hpp>
#include <opm/input/eclipse/Parser/Parser.hpp>
#include <opm/input/eclipse/Schedule/Action/ActionAST.hpp>
#include <opm/input/eclipse/Schedule/Action/ActionContext.hpp>
#include <opm/input/eclipse/Schedule/Action/ActionResult.hpp>
#include <opm/input/eclipse/Schedule/Action/ActionX.hpp>
#include <opm/input/eclipse/Schedule/SummaryState.hpp>
#include <opm/input/eclipse/Schedule/Well/WListManager.hpp>

#include <algorithm>

using namespace vf;

// deck text of the condition: one record per comparison, logic word at the end of the line
static std::string deck_text(const std::vector<std::string>& toks) {
    std::string s = "ACTIONX\n  ACT1 10 /\n";
    std::string line;
    auto flush = [&] { if (!line.empty()) { s += "  " + line + " /\n"; line.clear(); } };
    for (std::size_t i = 0; i < toks.size(); ++i) {
        std::string t = toks[i];
        if (t.find('*') != std::string::npos) t = "'" + t + "'";
        line += (line.empty() ? "" : " ") + t;
        const bool last = i + 1 == toks.size();
        // a record ends after AND / OR, or at the end of the condition
        if (toks[i] == "AND" || toks[i] == "OR" || last) flush();
    }
    s += "/\nENDACTIO\n";
    return s;
}

int main(int argc, char** argv) {
    if (argc < 3) { std::fprintf(stderr, "usage: actcond cases trace\n"); return 2; }
    install_terminate();
    Trace tr(argv[2]);
    Opm::Parser parser;
    // ACTDIMS with room for 50 condition lines
    const auto adeck = parser.parseString("RUNSPEC\nACTDIMS\n 10 50 80 50 /\n");
    const Opm::Actdims actdims(adeck);
    tr.emit({{"e", "Reset"}, {"id", 0}});
    for (const auto& c : read_ndjson(argv[1])) {
        const auto toks = c["toks"].get<std::vector<std::string>>();
        const auto& sv = c["sv"];
        Opm::SummaryState st(Opm::TimeService::from_time_t(0), 0.0);
        if (sv["f"].is_object()) for (auto it = sv["f"].begin(); it != sv["f"].end(); ++it) st.update(it.key(), it.value().get<double>());
        if (sv["g"].is_object()) for (auto it = sv["g"].begin(); it != sv["g"].end(); ++it) st.update_group_var("G1", it.key(), it.value().get<double>());
        if (sv["w"].is_object())
            for (auto q = sv["w"].begin(); q != sv["w"].end(); ++q)
                for (auto w = q.value().begin(); w != q.value().end(); ++w)
                    st.update_well_var(w.key(), q.key(), w.value().get<double>());
        Opm::WListManager wlm;
        if (c.contains("wlists"))
            for (auto it = c["wlists"].begin(); it != c["wlists"].end(); ++it)
                wlm.newList(it.key(), it.value().get<std::vector<std::string>>());
        Opm::Action::Context ctx(st, wlm);
        ctx.add("DAY", sv["day"].get<double>());
        ctx.add("MNTH", sv["mnth"].get<double>());
        ctx.add("YEAR", sv["year"].get<double>());

        json ev = {{"e", "Eval"}, {"toks", toks}, {"sv", sv}, {"wlists", c.value("wlists", json::object())},
                   {"via", "ast"}};
        auto record = [&](json e, auto&& evaluate) {
            try {
                const Opm::Action::Result r = evaluate();
                e["ok"] = true;
                e["res"] = r.conditionSatisfied();
                std::vector<std::string> wells;
                for (const auto& w : r.matches().wells()) wells.push_back(w);
                std::sort(wells.begin(), wells.end());
                e["wells"] = wells;
                // hasWell must agree with the listing
                bool consistent = true;
                for (const auto& w : wells) consistent = consistent && r.matches().hasWell(w);
                e["hasWellOk"] = consistent;
            } catch (const std::exception& ex) {
                e["ok"] = false;
                e["res"] = false;
                e["what"] = ex.what();
                e["wells"] = json::array();
                e["hasWellOk"] = true;
            }
            tr.emit(e);
        };
        record(ev, [&] { return Opm::Action::AST(toks).eval(ctx); });
        if (c.value("deck", false)) {
            ev["via"] = "deck";
            record(ev, [&] {
                const auto deck = parser.parseString(deck_text(toks));
                auto [action, errors] = Opm::Action::parseActionX(deck["ACTIONX"].back(), actdims, 0);
                if (!errors.empty()) throw std::runtime_error("condition errors: " + errors.front().second);
                return action.eval(ctx);
            });
        }
    }
    tr.flush();
    return 0;
}
