// Beyond the listed properties: well and connection status.  Builds the
// Schedule of a generated deck (COMPDAT / WCONPROD / WCONINJE / WELOPEN per
// report step) and reports for every report step the status of every well,
// the state of its connections and the well-level events - validated against
// spec/WellStatus.tla.
//
//   wellstatus <scripts.ndjson> <trace.ndjson>
// script: {"id","deck","wells":[...],"steps":[[ops],[ops],...]}
#include "common.hpp"

#include <opm/common/OpmLog/OpmLog.hpp>
#include <opm/input/eclipse/Deck/Deck.hpp>
#include <opm/input/eclipse/EclipseState/EclipseState.hpp>
#include <opm/input/eclipse/Parser/Parser.hpp>
#include <opm/input/eclipse/Python/Python.hpp>
#include <opm/input/eclipse/Schedule/Events.hpp>
#include <opm/input/eclipse/Schedule/Schedule.hpp>
#include <opm/input/eclipse/Schedule/ScheduleState.hpp>
#include <opm/input/eclipse/Schedule/Well/Connection.hpp>
#include <opm/input/eclipse/Schedule/Well/Well.hpp>
#include <opm/input/eclipse/Schedule/Well/WellConnections.hpp>

using namespace vf;

int main(int argc, char** argv) {
    if (argc < 3) { std::fprintf(stderr, "usage: wellstatus scripts trace\n"); return 2; }
    install_terminate();
    Opm::OpmLog::removeAllBackends();
    Trace tr(argv[2]);
    for (const auto& sc : read_ndjson(argv[1])) {
        tr.emit({{"e", "Reset"}, {"id", sc["id"]}});
        try {
            Opm::Parser parser;
            const auto deck = parser.parseString(sc["deck"].get<std::string>());
            const Opm::EclipseState es(deck);
            const Opm::Schedule sched(deck, es, std::make_shared<Opm::Python>());
            const std::vector<std::string> wells = sc["wells"];
            const auto& steps = sc["steps"];
            for (std::size_t k = 0; k < steps.size() && k < sched.size(); ++k) {
                json ws = json::array();
                const auto& wge = sched[k].wellgroup_events();
                for (const auto& w : wells) {
                    const auto& well = sched.getWell(w, k);
                    json cs = json::array();
                    for (const auto& c : well.getConnections()) cs.push_back({c.getK() + 1, Opm::Connection::State2String(c.state())});
                    json evs = json::array();
                    if (wge.has(w)) {
                        if (wge.hasEvent(w, Opm::ScheduleEvents::WELL_STATUS_CHANGE)) evs.push_back("WELL_STATUS_CHANGE");
                        if (wge.hasEvent(w, Opm::ScheduleEvents::REQUEST_OPEN_WELL)) evs.push_back("REQUEST_OPEN_WELL");
                        if (wge.hasEvent(w, Opm::ScheduleEvents::COMPLETION_CHANGE)) evs.push_back("COMPLETION_CHANGE");
                    }
                    ws.push_back({{"well", w}, {"status", Opm::WellStatus2String(well.getStatus())}, {"conns", cs}, {"evs", evs}});
                }
                tr.emit({{"e", "Step"}, {"k", k}, {"ops", steps[k]}, {"wells", ws},
                         {"statusChange", sched[k].events().hasEvent(Opm::ScheduleEvents::WELL_STATUS_CHANGE)}});
            }
        } catch (const std::exception& e) {
            tr.emit({{"e", "Error"}, {"what", std::string(e.what()).substr(0, 300)}});
        }
    }
    return 0;
}
