// C10 harness: writes SMSPEC / UNSMRY (or separate) summary files with the
// writer's file-level components (OutputStream::SummarySpecification,
// createSummaryFile, SEQHDR / MINISTEP / PARAMS as out::Summary emits them)
// for synthetic vector sets of any size, then reads them with ESmry
// (selective and whole-file load), with make_esmry_file() + ExtESmry, with
// and without the base run, and reports the time axis, the report-step
// positions and whether every value sits at its vector and ministep
// (value identity  f(i, t) = i + 5000 t, exact in single precision).
//
//   smryio <scripts.ndjson> <trace.ndjson> <workdir>
// script: {"fmt":b,"unif":b,"n":N,"steps":[[rs,t],...],"base":{"n":N0,"steps":[[rs,t]...],"rstep":k} | null}
#include "common.hpp"

#include <opm/common/utility/TimeService.hpp>
#include <opm/io/eclipse/ESmry.hpp>
#include <opm/io/eclipse/EclOutput.hpp>
#include <opm/io/eclipse/ExtESmry.hpp>
#include <opm/io/eclipse/OutputStream.hpp>

#include <cmath>
#include <memory>

using namespace vf;
namespace OS = Opm::EclIO::OutputStream;

static std::string wname(int i) { char b[16]; std::snprintf(b, sizeof b, "W%05d", i); return b; }
static float fval(int i, int t) { return float(i + 5000 * t); }
static const auto START = Opm::TimeService::from_time_t(Opm::TimeService::mkdatetime(2020, 1, 1, 0, 0, 0));

static void write_run(const std::string& dir, const std::string& base, bool fmt, bool unif, int n,
                      const json& steps, const std::string& rstRoot, int rstStep) {
    OS::ResultSet rset{dir, base};
    {
        OS::SummarySpecification spec(rset, OS::Formatted{fmt}, OS::SummarySpecification::UnitConvention::Metric,
                                      {10, 10, 10}, OS::SummarySpecification::RestartSpecification{rstRoot, rstStep}, START);
        OS::SummarySpecification::Parameters prm;
        prm.add("TIME", ":+:+:+:+", 0, "DAYS");
        for (int i = 1; i < n; ++i) prm.add("WOPR", wname(i), 0, "SM3/DAY");
        spec.write(prm);
    }
    std::unique_ptr<Opm::EclIO::EclOutput> stream;
    int prevRs = -1, created = -1, mini = 0;
    for (const auto& s : steps) {
        const int rs = s["rs"], t = s["t"];
        // as Summary.cpp's createSmryStreamIfNecessary: one stream for unified output, one per report step otherwise
        if (!stream || (!unif && created != rs)) { stream = OS::createSummaryFile(rset, rs, OS::Formatted{fmt}, OS::Unified{unif}); created = rs; }
        if (prevRs < rs) { stream->write("SEQHDR", std::vector<int>{rs}); prevRs = rs; }
        stream->write("MINISTEP", std::vector<int>{mini++});
        std::vector<float> params(n);
        params[0] = float(t);                       // TIME in days
        for (int i = 1; i < n; ++i) params[i] = fval(i, t);
        stream->write("PARAMS", params);
    }
}

template <class Reader>
static json check_reader(Reader& r, int n, const std::string& reader, bool withBase, bool sampleOnly, int baseN = 1 << 30) {
    json ev = {{"e", "Read"}, {"reader", reader}, {"withBase", withBase}};
    try {
        const auto& time = r.get("TIME");
        std::vector<int> times;
        for (float t : time) times.push_back(int(std::lround(t)));
        ev["times"] = times;
        ev["nvect"] = int(r.numberOfVectors());
        // report-step positions: compare get_at_rstep(TIME) with the time axis
        const auto tr = r.get_at_rstep("TIME");
        json pos = json::array();
        std::size_t k = 0;
        for (float t : tr) {
            while (k < time.size() && time[k] != t) ++k;
            pos.push_back(k + 1);
            ++k;
        }
        ev["rstepPos"] = pos;
        bool valuesOk = true, unitsOk = true, keysOk = true;
        json firstBad = json::array();
        const auto step = sampleOnly ? std::max(1, n / 97) : 1;
        for (int i = 1; i < n && valuesOk; i += (i > n - 12 || i < 12 || (i % 1000) > 988 || (i % 1000) < 12) ? 1 : step) {
            const std::string key = "WOPR:" + wname(i);
            if (!r.hasKey(key)) { keysOk = false; break; }
            const auto& v = r.get(key);
            if (v.size() != times.size()) { valuesOk = false; firstBad = {i, -1, std::to_string(v.size()), std::to_string(times.size())}; break; }
            for (std::size_t s = 0; s < v.size(); ++s)
                // a vector the base run does not have is undefined (NaN in ESmry, 0 in ExtESmry) over the base run's part of the history
                if (v[s] != fval(i, times[s]) && !(withBase && i >= baseN && (std::isnan(v[s]) || v[s] == 0.0f))) { valuesOk = false; firstBad = {i, times[s], std::to_string(v[s]), std::to_string(fval(i, times[s]))}; break; }
            if (r.get_unit(key) != "SM3/DAY") unitsOk = false;
        }
        if (r.get_unit("TIME") != "DAYS") unitsOk = false;
        ev["valuesOk"] = valuesOk;
        if (!valuesOk) ev["firstBad"] = firstBad;
        ev["unitsOk"] = unitsOk;
        ev["keysOk"] = keysOk;
        ev["startOk"] = (r.startdate() == START);
        ev["res"] = "ok";
    } catch (const std::exception& e) { ev["res"] = "error"; ev["what"] = std::string(e.what()).substr(0, 300); }
    return ev;
}

int main(int argc, char** argv) {
    if (argc < 4) { std::fprintf(stderr, "usage: smryio scripts trace workdir\n"); return 2; }
    install_terminate();
    const std::string work = argv[3];
    Trace tr(argv[2]);
    long id = 0;
    for (const auto& sc : read_ndjson(argv[1])) {
        const std::string dir = work + "/case";
        fs::remove_all(dir);
        fs::create_directories(dir);
        tr.emit({{"e", "Reset"}, {"id", id++}});
        const bool fmt = sc["fmt"], unif = sc["unif"];
        const int n = sc["n"];
        const bool hasBase = sc.contains("base") && !sc["base"].is_null();
        std::string rstRoot;
        int rstStep = 0;
        try {
            if (hasBase) {
                // the base run may itself continue an earlier run (a chain of three)
                const bool hasBase0 = sc.contains("base0") && !sc["base0"].is_null();
                if (hasBase0) {
                    write_run(dir, "BASE0", fmt, unif, sc["base0"]["n"], sc["base0"]["steps"], "", 0);
                    tr.emit({{"e", "WriteBase0"}, {"res", "ok"}, {"n", sc["base0"]["n"]}, {"steps", sc["base0"]["steps"]}});
                }
                const int r0 = hasBase0 ? sc["base0"]["rstep"].get<int>() : 0;
                write_run(dir, "BASE", fmt, unif, sc["base"]["n"], sc["base"]["steps"], hasBase0 ? "BASE0" : "", r0);
                tr.emit({{"e", "WriteBase"}, {"res", "ok"}, {"n", sc["base"]["n"]}, {"steps", sc["base"]["steps"]}, {"rstep0", r0}});
                rstRoot = "BASE";
                rstStep = sc["base"]["rstep"];
            }
            write_run(dir, "RUN", fmt, unif, n, sc["steps"], rstRoot, rstStep);
            tr.emit({{"e", "WriteRun"}, {"res", "ok"}, {"n", n}, {"steps", sc["steps"]}, {"rstep", rstStep}});
        } catch (const std::exception& e) {
            tr.emit({{"e", "WriteRun"}, {"res", "error"}, {"what", e.what()}});
            continue;
        }
        const std::string smspec = dir + "/RUN." + (fmt ? "FSMSPEC" : "SMSPEC");
        const int baseN = hasBase ? sc["base"]["n"].get<int>() : (1 << 30);
        const bool sample = long(n) * long(sc["steps"].size()) > 40000;
        for (bool withBase : {false, true}) {
            if (withBase && !hasBase) continue;
            try {   // selective load: every vector requested on its own
                Opm::EclIO::ESmry r(smspec, withBase);
                tr.emit(check_reader(r, n, "esmry-selective", withBase, sample, baseN));
            } catch (const std::exception& e) { tr.emit({{"e", "Read"}, {"reader", "esmry-selective"}, {"withBase", withBase}, {"res", "error"}, {"what", e.what()}}); }
            try {   // whole-file load
                Opm::EclIO::ESmry r(smspec, withBase);
                r.loadData();
                tr.emit(check_reader(r, n, "esmry-all", withBase, sample, baseN));
            } catch (const std::exception& e) { tr.emit({{"e", "Read"}, {"reader", "esmry-all"}, {"withBase", withBase}, {"res", "error"}, {"what", e.what()}}); }
        }
        try {       // SMSPEC -> ESMRY conversion and the ESMRY reader
            if (hasBase && sc.contains("base0") && !sc["base0"].is_null()) { Opm::EclIO::ESmry b(dir + "/BASE0." + (fmt ? "FSMSPEC" : "SMSPEC"), false); b.make_esmry_file(); }
            if (hasBase) { Opm::EclIO::ESmry b(dir + "/BASE." + (fmt ? "FSMSPEC" : "SMSPEC"), false); b.make_esmry_file(); }
            { Opm::EclIO::ESmry r(smspec, false); r.make_esmry_file(); }
            for (bool withBase : {false, true}) {
                if (withBase && !hasBase) continue;
                Opm::EclIO::ExtESmry x(dir + "/RUN.ESMRY", withBase);
                tr.emit(check_reader(x, n, "ext", withBase, sample, baseN));
            }
        } catch (const std::exception& e) { tr.emit({{"e", "Read"}, {"reader", "ext"}, {"withBase", false}, {"res", "error"}, {"what", e.what()}}); }
    }
    tr.flush();
    return 0;
}
