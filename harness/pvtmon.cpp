// C14 harness: evaluates the black-oil PVT multiplexers of a generated deck at
// the table nodes, between nodes, on the saturated line and with automatic
// differentiation, and emits one event per relation of spec/PvtMonitor.tla
// with values scaled to integers (1e7 = reference magnitude of the check).
//
//   pvtmon <scripts.ndjson> <trace.ndjson>
// script: {"id","deck","unit","regions":[{"oil":{"kind","nodes":[{"rs","rows":[[p,B,mu],...]}]} | {"kind":"PVDO","rows":[[p,B,mu]]},
//                                          "gas":{"kind":"PVTG","nodes":[{"p","rows":[[rv,B,mu],...]}]} | {"kind":"PVDG","rows":...},
//                                          "water":[pref,Bw,Cw,mu,Cv]}]}   (deck units)
#include <config.h>
#include "common.hpp"
#include "co2stub.hpp"

#include <opm/common/OpmLog/OpmLog.hpp>
#include <opm/input/eclipse/Deck/Deck.hpp>
#include <opm/input/eclipse/EclipseState/EclipseState.hpp>
#include <opm/input/eclipse/Parser/Parser.hpp>
#include <opm/input/eclipse/Python/Python.hpp>
#include <opm/input/eclipse/Schedule/Schedule.hpp>
#include <opm/input/eclipse/Units/UnitSystem.hpp>
#include <opm/material/densead/Evaluation.hpp>
#include <opm/material/densead/Math.hpp>
#include <opm/material/fluidsystems/blackoilpvt/GasPvtMultiplexer.hpp>
#include <opm/material/fluidsystems/blackoilpvt/OilPvtMultiplexer.hpp>
#include <opm/material/fluidsystems/blackoilpvt/WaterPvtMultiplexer.hpp>

#include <cmath>

using namespace vf;
using M = Opm::UnitSystem::measure;
using Eval = Opm::DenseAd::Evaluation<double, 2>;

static Trace* TR;
static long scaled(double x, double ref) { return ref > 0 ? std::lround(x / ref * 1e7) : 0; }
static void node(const std::string& fn, int reg, double exp, double got) {
    const double ref = std::max(std::abs(exp), std::abs(got));
    TR->emit({{"e", "Node"}, {"fn", fn}, {"reg", reg}, {"exp", scaled(exp, ref)}, {"got", scaled(got, ref)}});
}
static void between(const std::string& fn, int reg, double a, double b, double got) {
    const double ref = std::max({std::abs(a), std::abs(b), std::abs(got)});
    TR->emit({{"e", "Between"}, {"fn", fn}, {"reg", reg}, {"a", scaled(a, ref)}, {"b", scaled(b, ref)}, {"got", scaled(got, ref)}});
}
static void meet(const std::string& fn, int reg, double sat, double und) {
    const double ref = std::max(std::abs(sat), std::abs(und));
    TR->emit({{"e", "Meet"}, {"fn", fn}, {"reg", reg}, {"sat", scaled(sat, ref)}, {"und", scaled(und, ref)}});
}
static void invert(const std::string& fn, int reg, double want, double got) {
    const double ref = std::max(std::abs(want), std::abs(got));
    TR->emit({{"e", "Invert"}, {"fn", fn}, {"reg", reg}, {"want", scaled(want, ref)}, {"got", scaled(got, ref)}});
}
// the slope's reference magnitude: the function's variation over the interval divided by the interval
static void slope(const std::string& fn, int reg, double ad, double fd, double ref) {
    ref = std::max({ref, std::abs(ad), std::abs(fd)});
    TR->emit({{"e", "Slope"}, {"fn", fn}, {"reg", reg}, {"ad", scaled(ad, ref)}, {"fd", scaled(fd, ref)}});
}

// The derivative delivered by automatic differentiation of a piecewise (bi)linear function is the slope of the piece
// in use, so it must agree with the left or with the right difference quotient of the function (the two differ where
// the step straddles a kink of the interpolant); the quotient closer to the AD value is reported.
template <class F>
static void slope1(const std::string& fn, int reg, double ad, F&& f, double x, double h, double ref) {
    const double f0 = f(x), fl = (f0 - f(x - h)) / h, fr = (f(x + h) - f0) / h;
    const double fd = std::abs(ad - fl) <= std::abs(ad - fr) ? fl : fr;
    slope(fn, reg, ad, fd, ref);
}

int main(int argc, char** argv) {
    if (argc < 3) { std::fprintf(stderr, "usage: pvtmon scripts trace\n"); return 2; }
    install_terminate();
    Opm::OpmLog::removeAllBackends();
    Trace tr(argv[2]);
    TR = &tr;
    const double T = 350.0;
    for (const auto& sc : read_ndjson(argv[1])) {
        tr.emit({{"e", "Reset"}, {"id", sc["id"]}});
        try {
            Opm::Parser parser;
            const auto deck = parser.parseString(sc["deck"].get<std::string>());
            const Opm::EclipseState es(deck);
            const Opm::Schedule sched(deck, es, std::make_shared<Opm::Python>());
            const auto& us = es.getUnits();
            Opm::OilPvtMultiplexer<double> oil;
            Opm::GasPvtMultiplexer<double> gas;
            Opm::WaterPvtMultiplexer<double> wat;
            oil.initFromState(es, sched);
            gas.initFromState(es, sched);
            wat.initFromState(es, sched);
            auto P = [&](double p) { return us.to_si(M::pressure, p); };
            auto MU = [&](double m) { return us.to_si(M::viscosity, m); };
            const std::vector<double> fracs = {0.25, 0.5, 0.8};
            int reg = 0;
            for (const auto& R : sc["regions"]) {
                // ---------------- oil
                const auto& o = R["oil"];
                if (o["kind"] == "PVCDO") {
                    // constant compressibility oil: the record is the only node
                    const auto& w = o["row"];
                    const double pref = P(w[0]), Bo = w[1], muo = MU(w[3]);
                    node("oil.invB", reg, 1.0 / Bo, oil.inverseFormationVolumeFactor(reg, T, pref, 0.0));
                    node("oil.mu", reg, muo, oil.viscosity(reg, T, pref, 0.0));
                    const double q = pref * 1.3, dp = 1e-5 * pref;
                    const Eval bE = oil.inverseFormationVolumeFactor(reg, Eval(T), Eval::createVariable(q, 0), Eval(0.0));
                    const double fd = (oil.inverseFormationVolumeFactor(reg, T, q + dp, 0.0) - oil.inverseFormationVolumeFactor(reg, T, q - dp, 0.0)) / (2 * dp);
                    slope("oil.dinvB/dp", reg, bE.derivative(0), fd, 0.0);
                } else if (o["kind"] == "PVDO") {
                    const auto& rows = o["rows"];
                    for (std::size_t i = 0; i < rows.size(); ++i) {
                        const double p = P(rows[i][0]), B = rows[i][1], mu = MU(rows[i][2]);
                        node("oil.invB", reg, 1.0 / B, oil.inverseFormationVolumeFactor(reg, T, p, 0.0));
                        node("oil.mu", reg, mu, oil.viscosity(reg, T, p, 0.0));
                        if (i + 1 < rows.size()) {
                            const double p1 = P(rows[i + 1][0]), B1 = rows[i + 1][1], mu1 = MU(rows[i + 1][2]);
                            for (double f : fracs) {
                                const double q = p + f * (p1 - p);
                                between("oil.B", reg, B, B1, 1.0 / oil.inverseFormationVolumeFactor(reg, T, q, 0.0));
                                between("oil.mu", reg, mu, mu1, oil.viscosity(reg, T, q, 0.0));
                                const double dp = 1e-5 * (p1 - p);
                                const Eval bE = oil.inverseFormationVolumeFactor(reg, Eval(T), Eval::createVariable(q, 0), Eval(0.0));
                                slope1("oil.dinvB/dp", reg, bE.derivative(0), [&](double x) { return oil.inverseFormationVolumeFactor(reg, T, x, 0.0); }, q, dp,
                                       std::abs(1.0 / B - 1.0 / B1) / (p1 - p));
                            }
                        }
                    }
                } else {
                    const auto& nodes = o["nodes"];
                    const auto GOR = [&](double r) { return us.to_si(M::gas_oil_ratio, r); };
                    for (std::size_t i = 0; i < nodes.size(); ++i) {
                        const double rs = GOR(nodes[i]["rs"]);
                        const auto& rows = nodes[i]["rows"];
                        const double ps = P(rows[0][0]), Bs = rows[0][1], mus = MU(rows[0][2]);
                        node("oil.RsSat", reg, rs, oil.saturatedGasDissolutionFactor(reg, T, ps));
                        node("oil.invBsat", reg, 1.0 / Bs, oil.saturatedInverseFormationVolumeFactor(reg, T, ps));
                        node("oil.muSat", reg, mus, oil.saturatedViscosity(reg, T, ps));
                        for (std::size_t j = 0; j < rows.size(); ++j) {
                            const double p = P(rows[j][0]), B = rows[j][1], mu = MU(rows[j][2]);
                            node("oil.invB", reg, 1.0 / B, oil.inverseFormationVolumeFactor(reg, T, p, rs));
                            node("oil.mu", reg, mu, oil.viscosity(reg, T, p, rs));
                            if (j + 1 < rows.size()) {
                                const double p1 = P(rows[j + 1][0]), B1 = rows[j + 1][1], mu1 = MU(rows[j + 1][2]);
                                for (double f : fracs) {
                                    const double q = p + f * (p1 - p);
                                    between("oil.B(branch)", reg, B, B1, 1.0 / oil.inverseFormationVolumeFactor(reg, T, q, rs));
                                    between("oil.mu(branch)", reg, mu, mu1, oil.viscosity(reg, T, q, rs));
                                }
                            }
                        }
                        if (i + 1 < nodes.size()) {
                            const double rs1 = GOR(nodes[i + 1]["rs"]);
                            const auto& r1 = nodes[i + 1]["rows"];
                            const double ps1 = P(r1[0][0]), Bs1 = r1[0][1], mus1 = MU(r1[0][2]);
                            for (double f : fracs) {
                                const double q = ps + f * (ps1 - ps);
                                const double rsq = oil.saturatedGasDissolutionFactor(reg, T, q);
                                between("oil.RsSat", reg, rs, rs1, rsq);
                                between("oil.Bsat", reg, Bs, Bs1, 1.0 / oil.saturatedInverseFormationVolumeFactor(reg, T, q));
                                between("oil.muSat", reg, mus, mus1, oil.saturatedViscosity(reg, T, q));
                                meet("oil.invB", reg, oil.saturatedInverseFormationVolumeFactor(reg, T, q), oil.inverseFormationVolumeFactor(reg, T, q, rsq));
                                meet("oil.mu", reg, oil.saturatedViscosity(reg, T, q), oil.viscosity(reg, T, q, rsq));
                                const double r = rs + f * (rs1 - rs);
                                try { invert("oil.Rs(psat(r))", reg, r, oil.saturatedGasDissolutionFactor(reg, T, oil.saturationPressure(reg, T, r))); }
                                catch (const std::exception&) { invert("oil.Rs(psat(r))", reg, r, 0.0); }      // the search gave up
                                // derivatives in the undersaturated region above this pressure
                                const double pu = q + 0.3 * (ps1 - ps), dp = 1e-5 * (ps1 - ps), dr = 1e-5 * (rs1 - rs);
                                const Eval bp = oil.inverseFormationVolumeFactor(reg, Eval(T), Eval::createVariable(pu, 0), Eval::createVariable(rsq, 1));
                                slope1("oil.dinvB/dp", reg, bp.derivative(0), [&](double x) { return oil.inverseFormationVolumeFactor(reg, T, x, rsq); }, pu, dp,
                                       std::abs(1.0 / Bs - 1.0 / Bs1) / (ps1 - ps));
                                slope1("oil.dinvB/dRs", reg, bp.derivative(1), [&](double x) { return oil.inverseFormationVolumeFactor(reg, T, pu, x); }, rsq, dr,
                                       std::abs(1.0 / Bs - 1.0 / Bs1) / (rs1 - rs));
                            }
                        }
                    }
                }
                // ---------------- gas
                const auto& g = R["gas"];
                if (g["kind"] == "PVDG") {
                    const auto& rows = g["rows"];
                    for (std::size_t i = 0; i < rows.size(); ++i) {
                        const double p = P(rows[i][0]), B = us.to_si(M::gas_formation_volume_factor, rows[i][1]), mu = MU(rows[i][2]);
                        node("gas.invB", reg, 1.0 / B, gas.inverseFormationVolumeFactor(reg, T, p, 0.0, 0.0));
                        node("gas.mu", reg, mu, gas.viscosity(reg, T, p, 0.0, 0.0));
                        if (i + 1 < rows.size()) {
                            const double p1 = P(rows[i + 1][0]), B1 = us.to_si(M::gas_formation_volume_factor, rows[i + 1][1]), mu1 = MU(rows[i + 1][2]);
                            for (double f : fracs) {
                                const double q = p + f * (p1 - p);
                                between("gas.B", reg, B, B1, 1.0 / gas.inverseFormationVolumeFactor(reg, T, q, 0.0, 0.0));
                                between("gas.mu", reg, mu, mu1, gas.viscosity(reg, T, q, 0.0, 0.0));
                                const double dp = 1e-5 * (p1 - p);
                                const Eval bE = gas.inverseFormationVolumeFactor(reg, Eval(T), Eval::createVariable(q, 0), Eval(0.0), Eval(0.0));
                                slope1("gas.dinvB/dp", reg, bE.derivative(0), [&](double x) { return gas.inverseFormationVolumeFactor(reg, T, x, 0.0, 0.0); }, q, dp,
                                       std::abs(1.0 / B - 1.0 / B1) / (p1 - p));
                            }
                        }
                    }
                } else {
                    const auto& nodes = g["nodes"];
                    const auto OGR = [&](double r) { return us.to_si(M::oil_gas_ratio, r); };
                    const auto BG = [&](double b) { return us.to_si(M::gas_formation_volume_factor, b); };
                    for (std::size_t i = 0; i < nodes.size(); ++i) {
                        const double p = P(nodes[i]["p"]);
                        const auto& rows = nodes[i]["rows"];
                        const double rvs = OGR(rows[0][0]), Bs = BG(rows[0][1]), mus = MU(rows[0][2]);
                        node("gas.RvSat", reg, rvs, gas.saturatedOilVaporizationFactor(reg, T, p));
                        node("gas.invBsat", reg, 1.0 / Bs, gas.saturatedInverseFormationVolumeFactor(reg, T, p));
                        node("gas.muSat", reg, mus, gas.saturatedViscosity(reg, T, p));
                        for (std::size_t j = 0; j < rows.size(); ++j) {
                            const double rv = OGR(rows[j][0]), B = BG(rows[j][1]), mu = MU(rows[j][2]);
                            node("gas.invB", reg, 1.0 / B, gas.inverseFormationVolumeFactor(reg, T, p, rv, 0.0));
                            node("gas.mu", reg, mu, gas.viscosity(reg, T, p, rv, 0.0));
                            if (j + 1 < rows.size()) {
                                const double rv1 = OGR(rows[j + 1][0]), B1 = BG(rows[j + 1][1]), mu1 = MU(rows[j + 1][2]);
                                for (double f : fracs) {
                                    const double r = rv + f * (rv1 - rv);
                                    between("gas.B(branch)", reg, B, B1, 1.0 / gas.inverseFormationVolumeFactor(reg, T, p, r, 0.0));
                                    between("gas.mu(branch)", reg, mu, mu1, gas.viscosity(reg, T, p, r, 0.0));
                                }
                            }
                        }
                        if (i + 1 < nodes.size()) {
                            const double p1 = P(nodes[i + 1]["p"]);
                            const auto& r1 = nodes[i + 1]["rows"];
                            const double rvs1 = OGR(r1[0][0]), Bs1 = BG(r1[0][1]), mus1 = MU(r1[0][2]);
                            for (double f : {0.2, 0.35, 0.5, 0.8}) {
                                const double q = p + f * (p1 - p);
                                const double rvq = gas.saturatedOilVaporizationFactor(reg, T, q);
                                between("gas.RvSat", reg, rvs, rvs1, rvq);
                                between("gas.Bsat", reg, Bs, Bs1, 1.0 / gas.saturatedInverseFormationVolumeFactor(reg, T, q));
                                between("gas.muSat", reg, mus, mus1, gas.saturatedViscosity(reg, T, q));
                                meet("gas.invB", reg, gas.saturatedInverseFormationVolumeFactor(reg, T, q), gas.inverseFormationVolumeFactor(reg, T, q, rvq, 0.0));
                                meet("gas.mu", reg, gas.saturatedViscosity(reg, T, q), gas.viscosity(reg, T, q, rvq, 0.0));
                                const double r = rvs + f * (rvs1 - rvs);
                                if (rvs1 > rvs) {
                                    try { invert("gas.Rv(psat(r))", reg, r, gas.saturatedOilVaporizationFactor(reg, T, gas.saturationPressure(reg, T, r))); }
                                    catch (const std::exception&) { invert("gas.Rv(psat(r))", reg, r, 0.0); }
                                }
                                const double rvu = 0.6 * rvq, dp = 1e-5 * (p1 - p), dr = 1e-5 * std::max(rvs1, rvs);
                                const Eval bp = gas.inverseFormationVolumeFactor(reg, Eval(T), Eval::createVariable(q, 0), Eval::createVariable(rvu, 1), Eval(0.0));
                                slope1("gas.dinvB/dp", reg, bp.derivative(0), [&](double x) { return gas.inverseFormationVolumeFactor(reg, T, x, rvu, 0.0); }, q, dp,
                                       std::abs(1.0 / Bs - 1.0 / Bs1) / (p1 - p));
                                slope1("gas.dinvB/dRv", reg, bp.derivative(1), [&](double x) { return gas.inverseFormationVolumeFactor(reg, T, q, x, 0.0); }, rvu, dr,
                                       std::abs(1.0 / Bs) / std::max(rvs1, rvs));
                            }
                        }
                    }
                }
                // ---------------- water: Bw(p) = Bref / (1 + X + X^2 / 2), X = Cw (p - pref)
                {
                    const auto& w = R["water"];
                    const double pref = P(w[0]), Bw = w[1], muw = MU(w[3]);
                    node("wat.invB", reg, 1.0 / Bw, wat.inverseFormationVolumeFactor(reg, T, pref, 0.0, 0.0));
                    node("wat.mu", reg, muw, wat.viscosity(reg, T, pref, 0.0, 0.0));
                    const double q = pref * 1.3, dp = 1e-5 * pref;
                    const Eval bE = wat.inverseFormationVolumeFactor(reg, Eval(T), Eval::createVariable(q, 0), Eval(0.0), Eval(0.0));
                    const double fd = (wat.inverseFormationVolumeFactor(reg, T, q + dp, 0.0, 0.0) - wat.inverseFormationVolumeFactor(reg, T, q - dp, 0.0, 0.0)) / (2 * dp);
                    slope("wat.dinvB/dp", reg, bE.derivative(0), fd, 0.0);      // smooth function: centred quotient
                }
                ++reg;
            }
        } catch (const std::exception& e) {
            tr.emit({{"e", "Skip"}, {"what", std::string(e.what()).substr(0, 300)}});
        }
    }
    return 0;
}
