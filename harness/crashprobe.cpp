// C20 harness (built against the ASan + UBSan library): feeds corrupted decks
// and result files to the library and records, per input and per stage,
// whether it answered with a result or with a std::exception.  A foreign
// exception is caught and recorded; a signal, sanitizer abort or hang ends
// the process - the driver sees a Begin without Outcome.
//
//   crashprobe <scripts.ndjson> <trace.ndjson> <workdir>
// script: {"id","kind":"deck","files":{"MAIN.DATA":...}} | {"id","kind":"file","name":"X.UNRST","hex":...}
#include "common.hpp"

#include <opm/common/OpmLog/OpmLog.hpp>
#include <opm/input/eclipse/Deck/Deck.hpp>
#include <opm/input/eclipse/EclipseState/EclipseState.hpp>
#include <opm/input/eclipse/EclipseState/SummaryConfig/SummaryConfig.hpp>
#include <opm/input/eclipse/Parser/ErrorGuard.hpp>
#include <opm/input/eclipse/Parser/InputErrorAction.hpp>
#include <opm/input/eclipse/Parser/ParseContext.hpp>
#include <opm/input/eclipse/Parser/Parser.hpp>
#include <opm/input/eclipse/Python/Python.hpp>
#include <opm/input/eclipse/Schedule/Schedule.hpp>
#include <opm/io/eclipse/EGrid.hpp>
#include <opm/io/eclipse/ERst.hpp>
#include <opm/io/eclipse/ESmry.hpp>
#include <opm/io/eclipse/EclFile.hpp>

#include <functional>

using namespace vf;

static json stage(const std::string& name, const std::function<void()>& f) {
    try { f(); return {{"stage", name}, {"outcome", "result"}}; }
    catch (const std::exception& e) { return {{"stage", name}, {"outcome", "exception"}, {"type", exc_name(e)}}; }
    catch (...) { return {{"stage", name}, {"outcome", "foreign-exception"}}; }
}

static std::string unhex(const std::string& h) {
    std::string out;
    out.reserve(h.size() / 2);
    auto v = [](char c) { return c <= '9' ? c - '0' : c - 'a' + 10; };
    for (std::size_t i = 0; i + 1 < h.size(); i += 2) out.push_back(char(v(h[i]) * 16 + v(h[i + 1])));
    return out;
}

int main(int argc, char** argv) {
    if (argc < 4) { std::fprintf(stderr, "usage: crashprobe scripts trace workdir\n"); return 2; }
    Opm::OpmLog::removeAllBackends();
    Trace tr(argv[2]);
    const std::string work = argv[3];
    for (const auto& sc : read_ndjson(argv[1])) {
        const std::string id = sc["id"].dump();
        std::fprintf(stderr, "##ID %s\n", id.c_str());
        std::fflush(stderr);
        tr.emit({{"e", "Begin"}, {"id", sc["id"]}});
        const std::string dir = work + "/p";
        fs::remove_all(dir);
        fs::create_directories(dir);
        json stages = json::array();
        Opm::ErrorGuard errors;
        if (sc["kind"] == "deck") {
            for (const auto& [name, text] : sc["files"].items()) spit(dir + "/" + name, text.get<std::string>());
            std::unique_ptr<Opm::Deck> deck;
            // every recoverable input error is turned into an exception (the default policy exits the process for some)
            const Opm::ParseContext pc(Opm::InputErrorAction::THROW_EXCEPTION);
            stages.push_back(stage("parse", [&] { Opm::Parser p; deck = std::make_unique<Opm::Deck>(p.parseFile(dir + "/MAIN.DATA", pc, errors)); }));
            if (deck) {
                std::unique_ptr<Opm::EclipseState> es;
                std::unique_ptr<Opm::Schedule> sched;
                stages.push_back(stage("EclipseState", [&] { es = std::make_unique<Opm::EclipseState>(*deck); }));
                if (es) stages.push_back(stage("Schedule", [&] { sched = std::make_unique<Opm::Schedule>(*deck, *es, pc, errors, std::make_shared<Opm::Python>()); }));
                if (es && sched) stages.push_back(stage("SummaryConfig", [&] { Opm::SummaryConfig c(*deck, *sched, es->fieldProps(), es->aquifer()); (void)c.size(); }));
            }
        } else {
            const std::string name = sc["name"];
            const std::string path = dir + "/" + name;
            spit(path, unhex(sc["hex"].get<std::string>()));
            const json extras = sc.value("extra", json::object());
            for (const auto& [extra, hex] : extras.items()) spit(dir + "/" + extra, unhex(hex.get<std::string>()));
            stages.push_back(stage("EclFile", [&] {
                Opm::EclIO::EclFile f(path);
                f.loadData();
                for (const auto& a : f.getList()) (void)std::get<0>(a).size();
            }));
            if (name.find("UNRST") != std::string::npos || name.find(".X0") != std::string::npos || name.find(".F0") != std::string::npos)
                stages.push_back(stage("ERst", [&] {
                    Opm::EclIO::ERst r(path);
                    for (int s : r.listOfReportStepNumbers()) { (void)r.listOfRstArrays(s).size(); r.loadReportStepNumber(s); }
                }));
            if (name.find("SMSPEC") != std::string::npos)
                stages.push_back(stage("ESmry", [&] { Opm::EclIO::ESmry s(path); s.loadData(); (void)s.numberOfVectors(); if (s.hasKey("TIME")) (void)s.get("TIME").size(); }));
            if (name.find("EGRID") != std::string::npos)
                stages.push_back(stage("EGrid", [&] { Opm::EclIO::EGrid g(path); g.load_grid_data(); (void)g.totalNumberOfCells(); }));
        }
        errors.clear();
        tr.emit({{"e", "Outcome"}, {"id", sc["id"]}, {"stages", stages}});
    }
    return 0;
}
