// C06 harness.
//
//   compdat peaceman <cases.ndjson> <out.ndjson>
//     case: {"id", "unit", "cell":{dx,dy,dz,permx,permy,permz,ntg} (deck units), "rec":{cf,kh,r0,diam,dir},
//            "vals":{cf,kh,r0,diam,skin} (deck units), "terms":{"conn":{cf,kh,r0,rw}, "rel":[lhs,rhs]}}
//     Builds a 3x3x3 deck whose cell (2,2,2) has the case's properties (every
//     other cell has different ones), completes a well there with the COMPDAT
//     record of the case, and reports the connection's stored values in SI next
//     to the values of the specification's terms under the SI inputs, and
//     the effect of entering each defaulted quantity explicitly.
//
//   compdat history <scripts.ndjson> <trace.ndjson>
//     script: {"steps":[[op,...],...]}, op as in spec/Connections.tla.
//     Emits Reset, then one Step event per report step with the operations of
//     that step and the projected connection lists of W1 (COMPORD INPUT) and
//     W2 (track order) at that step.
#include "common.hpp"
#include "termeval.hpp"

#include <opm/input/eclipse/Deck/Deck.hpp>
#include <opm/input/eclipse/EclipseState/EclipseState.hpp>
#include <opm/input/eclipse/EclipseState/Grid/EclipseGrid.hpp>
#include <opm/input/eclipse/Parser/Parser.hpp>
#include <opm/input/eclipse/Python/Python.hpp>
#include <opm/input/eclipse/Schedule/Schedule.hpp>
#include <opm/input/eclipse/Schedule/Well/Connection.hpp>
#include <opm/input/eclipse/Schedule/Well/Well.hpp>
#include <opm/input/eclipse/Schedule/Well/WellConnections.hpp>
#include <opm/input/eclipse/Units/UnitSystem.hpp>
#include <opm/common/OpmLog/OpmLog.hpp>

#include <cmath>

using namespace vf;
using Opm::UnitSystem;

static std::string g17(double x) { char b[64]; std::snprintf(b, sizeof b, "%.17g", x); return b; }

struct Obs { double cf, kh, r0, rw, skin; int complnum; std::string dir; };

static std::string peaceman_deck(const json& c, const std::string& cf, const std::string& kh,
                                 const std::string& r0, const std::string& diam) {
    const auto& cell = c["cell"];
    std::ostringstream d;
    d << "RUNSPEC\nDIMENS\n 3 3 3 /\nOIL\nWATER\n" << c["unit"].get<std::string>() << "\nTABDIMS\n/\nWELLDIMS\n 2 5 2 2 /\nSTART\n 1 JAN 2020 /\n"
      << "GRID\nDX\n 27*" << g17(cell["dx"]) << " /\nDY\n 27*" << g17(cell["dy"]) << " /\n"
      << "DZ\n 9*" << g17(cell["dz"].get<double>() * 1.37) << " 9*" << g17(cell["dz"]) << " 9*" << g17(cell["dz"].get<double>() * 0.61) << " /\n"
      << "TOPS\n 9*" << g17(c["unit"] == "LAB" ? 20000.0 : 2000.0) << " /\n";
    // every cell but (2,2,2) (global index 13) has other properties
    for (const char* kw : {"PERMX", "PERMY", "PERMZ", "NTG"}) {
        std::string key = kw; for (auto& ch : key) ch = char(std::tolower(ch));
        const double v = cell[key];
        d << kw << "\n";
        for (int g = 0; g < 27; ++g) {
            double x = (g == 13) ? v : v * (0.35 + 0.043 * g);
            if (key == "ntg") x = (g == 13) ? v : std::min(1.0, 0.05 + 0.9 * std::fmod(v * (g + 3) * 0.37, 1.0));
            d << " " << g17(x);
        }
        d << " /\n";
    }
    d << "PORO\n 27*0.25 /\nPROPS\nSOLUTION\nSCHEDULE\nWELSPECS\n 'W1' 'G' 2 2 1* OIL /\n/\nCOMPDAT\n 'W1' 2 2 2 2 OPEN 1* "
      << cf << " " << diam << " " << kh << " " << g17(c["vals"]["skin"]) << " 1* " << c["rec"]["dir"].get<std::string>() << " " << r0 << " /\n/\nTSTEP\n 1 /\nEND\n";
    return d.str();
}

static Obs observe(const std::string& deckstr, UnitSystem* us = nullptr, std::array<double, 3>* dims = nullptr) {
    Opm::Parser parser;
    const auto deck = parser.parseString(deckstr);
    const Opm::EclipseState es(deck);
    const Opm::Schedule sched(deck, es, std::make_shared<Opm::Python>());
    const auto& conns = sched.getWell("W1", 0).getConnections();
    if (conns.size() != 1) throw std::runtime_error("expected one connection, got " + std::to_string(conns.size()));
    const auto& c = conns[0];
    if (us) *us = es.getUnits();
    if (dims) *dims = es.getInputGrid().getCellDims(1, 1, 1);
    return {c.CF(), c.Kh(), c.r0(), c.rw(), c.skinFactor(), c.complnum(), Opm::Connection::Direction2String(c.dir())};
}

static double reldiff(double a, double b) {
    if (a == b) return 0.0;
    return std::abs(a - b) / std::max(std::abs(a), std::abs(b));
}

static int run_peaceman(const std::string& in, const std::string& out) {
    Trace tr(out);
    for (const auto& c : read_ndjson(in)) {
        json ev = {{"id", c["id"]}};
        try {
            const auto& rec = c["rec"];
            const auto& vals = c["vals"];
            auto item = [&](const char* q) -> std::string {
                const std::string cls = rec[q];
                if (cls == "default") return "1*";
                if (cls == "zero") return "0";
                return g17(vals[q]);
            };
            UnitSystem us;
            std::array<double, 3> dims{};
            const std::string cf = item("cf"), kh = item("kh"), r0 = item("r0"), diam = item("diam");
            const Obs o = observe(peaceman_deck(c, cf, kh, r0, diam), &us, &dims);
            using M = UnitSystem::measure;
            const auto& cell = c["cell"];
            TermEnv env = {
                {"dx", dims[0]}, {"dy", dims[1]}, {"dz", dims[2]},
                {"kx", us.to_si(M::permeability, cell["permx"].get<double>())},
                {"ky", us.to_si(M::permeability, cell["permy"].get<double>())},
                {"kz", us.to_si(M::permeability, cell["permz"].get<double>())},
                {"ntg", cell["ntg"].get<double>()},
                {"skin", vals["skin"].get<double>()},
                {"diam", us.to_si(M::length, vals["diam"].get<double>())},
                {"half_foot", 0.5L * 0.3048L},
                {"cf_in", us.to_si(M::transmissibility, vals["cf"].get<double>())},
                {"kh_in", us.to_si(M::effective_Kh, vals["kh"].get<double>())},
                {"r0_in", us.to_si(M::length, vals["r0"].get<double>())},
            };
            ev["dims_deck"] = {us.from_si(M::length, dims[0]), us.from_si(M::length, dims[1]), us.from_si(M::length, dims[2])};
            const auto& T = c["terms"]["conn"];
            json exp = json::object(), obs = json::object(), rd = json::object();
            const std::pair<const char*, double> qs[] = {{"cf", o.cf}, {"kh", o.kh}, {"r0", o.r0}, {"rw", o.rw}};
            for (const auto& [q, v] : qs) {
                const double e = double(evalTerm(T[q], env));
                if (!std::isfinite(e) || !std::isfinite(v)) ev["nonfinite"] = true;
                exp[q] = e; obs[q] = v; rd[q] = reldiff(e, v);
            }
            obs["skin"] = o.skin; exp["skin"] = vals["skin"]; rd["skin"] = reldiff(o.skin, vals["skin"].get<double>());
            ev["obs"] = obs; ev["exp"] = exp; ev["rd"] = rd;
            ev["dir"] = o.dir;
            // the relation on the stored values themselves
            const long double lhs = (long double)o.cf * (std::log((long double)o.r0 / (long double)o.rw) + (long double)o.skin);
            const long double rhs = 6.283185307179586476925286766559005768394L * (long double)o.kh;
            ev["relation"] = double(std::abs(lhs - rhs) / std::max(std::abs(lhs), std::abs(rhs)));
            // entering the computed value explicitly changes nothing
            json variants = json::array();
            struct V { const char* q; UnitSystem::measure m; double si; };
            const V vs[] = {{"cf", M::transmissibility, o.cf}, {"kh", M::effective_Kh, o.kh}, {"r0", M::length, o.r0}, {"diam", M::length, 2 * o.rw}};
            for (const auto& v : vs) {
                if (rec[v.q] == "explicit") continue;
                const std::string e = g17(us.from_si(v.m, v.si));
                const Obs o2 = observe(peaceman_deck(c, std::string(v.q) == "cf" ? e : cf, std::string(v.q) == "kh" ? e : kh,
                                                     std::string(v.q) == "r0" ? e : r0, std::string(v.q) == "diam" ? e : diam));
                const double m = std::max({reldiff(o.cf, o2.cf), reldiff(o.kh, o2.kh), reldiff(o.r0, o2.r0), reldiff(o.rw, o2.rw), reldiff(o.skin, o2.skin)});
                variants.push_back({{"entered", v.q}, {"maxrd", m}, {"obs", {{"cf", o2.cf}, {"kh", o2.kh}, {"r0", o2.r0}, {"rw", o2.rw}}}});
            }
            ev["variants"] = variants;
            ev["res"] = "ok";
        } catch (const std::exception& e) { ev["res"] = "error"; ev["what"] = std::string(e.what()).substr(0, 400); }
        tr.emit(ev);
    }
    return 0;
}

// ---- histories ----
// Peaceman denominator of a history-mode connection at skin 0: 2 pi * Kh / CF with Kh = 100 rec mD.m, CF = 10 rec cP.rm3/day/bar
static const double SkinOne = [] {
    const auto us = Opm::UnitSystem::newMETRIC();
    return 2.0 * 3.14159265358979323846 * us.to_si(Opm::UnitSystem::measure::effective_Kh, 100.0) / us.to_si(Opm::UnitSystem::measure::transmissibility, 10.0);
}();
static std::string sel_items(const json& s, int hi, int hj, bool wpimult) {
    auto n = [](int v) { return v == 0 ? std::string("1*") : std::to_string(v); };
    if (s["k"].get<int>() >= 100) {          // a cell of the well with laterals, given in full
        const int cid = s["k"];
        return std::to_string(cid / 100) + " " + std::to_string((cid / 10) % 10) + " " + std::to_string(cid % 10) + " " + n(s["c1"]) + " " + n(s["c2"]);
    }
    std::string ij = s["ij"] == "default" ? "1* 1*" : s["ij"] == "head" ? std::to_string(hi) + " " + std::to_string(hj) : "2 2";
    (void)wpimult;
    return ij + " " + n(s["k"]) + " " + n(s["c1"]) + " " + n(s["c2"]);
}

static int run_history(const std::string& in, const std::string& out) {
    Trace tr(out);
    long id = 0;
    for (const auto& sc : read_ndjson(in)) {
        tr.emit({{"e", "Reset"}, {"id", id++}});
        const int nk = sc["nk"];
        std::ostringstream d;
        d << "RUNSPEC\nDIMENS\n 3 3 " << nk << " /\nOIL\nWATER\nMETRIC\nTABDIMS\n/\nWELLDIMS\n 4 12 2 4 /\nSTART\n 1 JAN 2020 /\n"
          << "GRID\nDX\n " << 9 * nk << "*100 /\nDY\n " << 9 * nk << "*100 /\nDZ\n " << 9 * nk << "*10 /\nTOPS\n 9*2000 /\n"
          << "PERMX\n " << 9 * nk << "*100 /\nPERMY\n " << 9 * nk << "*100 /\nPERMZ\n " << 9 * nk << "*10 /\nPORO\n " << 9 * nk << "*0.25 /\n"
          << "PROPS\nSOLUTION\nSCHEDULE\nWELSPECS\n 'W1' 'G' 1 1 1* OIL /\n 'W2' 'G' 3 3 1* OIL /\n 'W3' 'G' 2 2 1* OIL /\n/\nCOMPORD\n 'W1' INPUT /\n/\n";
        auto head = [](const std::string& w) { return w == "W1" ? 1 : w == "W2" ? 3 : 2; };
        // W3 has laterals: its cells are ids 100 i + 10 j + k
        auto free = [](const std::string& w) { return w == "W3"; };
        for (const auto& step : sc["steps"]) {
            for (const auto& o : step) {
                const std::string w = o["well"];
                const int h = head(w);
                if (o["op"] == "COMPDAT") {
                    const int rec = o["rec"];
                    if (free(w)) {
                        const int cid = o["k1"];
                        d << "COMPDAT\n '" << w << "' " << cid / 100 << " " << (cid / 10) % 10 << " " << cid % 10 << " " << cid % 10 << " " << o["state"].get<std::string>()
                          << " 1* " << rec * 10 << " 0.2 " << rec * 100 << " 0 1* Z /\n/\n";
                        continue;
                    }
                    d << "COMPDAT\n '" << w << "' " << h << " " << h << " " << o["k1"] << " " << o["k2"] << " " << o["state"].get<std::string>()
                      << " 1* " << rec * 10 << " 0.2 " << rec * 100 << " 0 1* Z /\n/\n";
                } else if (o["op"] == "COMPLUMP") {
                    auto n = [](int v) { return v == 0 ? std::string("1*") : std::to_string(v); };
                    d << "COMPLUMP\n '" << w << "' 1* 1* " << n(o["k1"]) << " " << n(o["k2"]) << " " << o["n"] << " /\n/\n";
                } else if (o["op"] == "CSKIN") {
                    auto n = [](int v) { return v == 0 ? std::string("1*") : std::to_string(v); };
                    // skin 1 = a skin factor equal to the Peaceman denominator these connections have at skin 0
                    // (CF = 10 rec, Kh = 100 rec: the denominator is 2 pi Kh / CF in SI, the same for every record)
                    char sbuf[40];
                    std::snprintf(sbuf, sizeof sbuf, "%.17g", o["skin"].get<int>() == 1 ? SkinOne : 0.0);
                    d << "CSKIN\n '" << w << "' 1* 1* " << n(o["k1"]) << " " << n(o["k2"]) << " " << sbuf << " /\n/\n";
                } else if (o["op"] == "WPIMULT") {
                    d << "WPIMULT\n '" << w << "' " << o["f"] << " " << sel_items(o["sel"], h, h, true) << " /\n/\n";
                } else {
                    d << "WELOPEN\n '" << w << "' " << o["state"].get<std::string>() << " " << sel_items(o["sel"], h, h, false) << " /\n/\n";
                }
            }
            d << "TSTEP\n 1 /\n";
        }
        d << "END\n";
        try {
            Opm::Parser parser;
            const auto deck = parser.parseString(d.str());
            const Opm::EclipseState es(deck);
            const Opm::Schedule sched(deck, es, std::make_shared<Opm::Python>());
            const auto& us = es.getUnits();
            std::size_t s = 0;
            for (const auto& step : sc["steps"]) {
                json obs = json::object();
                for (const char* w : {"W1", "W2", "W3"}) {
                    json lst = json::array();
                    if (!sched.hasWell(w)) { obs[w] = lst; continue; }
                    for (const auto& c : sched.getWell(w, s).getConnections()) {
                        const double kh = us.from_si(UnitSystem::measure::effective_Kh, c.Kh()) / 100.0;
                        const double cf = us.from_si(UnitSystem::measure::transmissibility, c.CF()) / 10.0;
                        const long rec = std::lround(kh);
                        // a connection with the CSKIN skin has half the factor
                        const int skin = c.skinFactor() > 1e-12 ? 1 : 0;
                        const double cfu = cf * (skin ? 2.0 : 1.0);
                        const long mult = rec > 0 ? std::lround(cfu / rec) : -1;
                        const bool exact = std::abs(kh - rec) < 1e-9 * std::max(1.0, kh) && std::abs(cfu - double(rec * mult)) < 1e-7 * std::max(1.0, cfu)
                                           && (skin == 0 || std::abs(c.skinFactor() - SkinOne) < 1e-9);
                        lst.push_back({{"k", free(w) ? 100 * (c.getI() + 1) + 10 * (c.getJ() + 1) + c.getK() + 1 : c.getK() + 1},
                                       {"ijhead", free(w) || (c.getI() + 1 == head(w) && c.getJ() + 1 == head(w))}, {"complnum", c.complnum()},
                                       {"sort", int(c.sort_value())}, {"state", Opm::Connection::State2String(c.state())},
                                       {"rec", exact ? rec : -1}, {"mult", exact ? mult : -1}, {"skin", skin}});
                    }
                    obs[w] = lst;
                }
                tr.emit({{"e", "Step"}, {"step", s}, {"ops", step}, {"obs", obs}, {"res", "ok"}});
                ++s;
            }
        } catch (const std::exception& e) {
            tr.emit({{"e", "Step"}, {"step", 0}, {"ops", json::array()}, {"res", "error"}, {"what", std::string(e.what()).substr(0, 400)}});
        }
    }
    return 0;
}

int main(int argc, char** argv) {
    if (argc < 4) { std::fprintf(stderr, "usage: compdat peaceman|history in out\n"); return 2; }
    install_terminate();
    Opm::OpmLog::removeAllBackends();
    const std::string mode = argv[1];
    if (mode == "peaceman") return run_peaceman(argv[2], argv[3]);
    if (mode == "history") return run_history(argv[2], argv[3]);
    return 2;
}
