// C11 harness: serialisation round trips of the objects built from a deck
// (EclipseState, Schedule, SummaryConfig) and of dynamic state objects with
// random contents (SummaryState, UDQState, Action::State, WellTestState,
// RestartValue), through the library's Serializer with a packer that logs
// every primitive field of the size pass, the pack pass, the unpack pass and
// the pack pass of the unpacked object.
//
//   serial <scripts.ndjson> <trace.ndjson>
// script: {"id", "deck": text | "file": path, "seed": n}
// For every object: Reset, run-length compressed Field events
//   {"e":"Field","c":count,"size":[kind,bytes],"pack":[..],"unpack":[..],"repack":[..]}
// and an End event with the buffer lengths, the bytes consumed, operator==,
// equality of the two buffers (addresses canonicalised) and of the public
// query projection.
#include "schedpack.hpp"

#include <opm/common/OpmLog/OpmLog.hpp>
#include <opm/common/utility/TimeService.hpp>
#include <opm/input/eclipse/Deck/Deck.hpp>
#include <opm/input/eclipse/EclipseState/Aquifer/AquiferConfig.hpp>
#include <opm/input/eclipse/EclipseState/EclipseState.hpp>
#include <opm/input/eclipse/EclipseState/Grid/FaultCollection.hpp>
#include <opm/input/eclipse/EclipseState/Grid/NNC.hpp>
#include <opm/input/eclipse/EclipseState/SimulationConfig/SimulationConfig.hpp>
#include <opm/input/eclipse/EclipseState/SummaryConfig/SummaryConfig.hpp>
#include <opm/input/eclipse/EclipseState/Tables/TableManager.hpp>
#include <opm/input/eclipse/Parser/Parser.hpp>
#include <opm/input/eclipse/Python/Python.hpp>
#include <opm/input/eclipse/Schedule/Action/ActionResult.hpp>
#include <opm/input/eclipse/Schedule/Action/State.hpp>
#include <opm/input/eclipse/Schedule/SummaryState.hpp>
#include <opm/input/eclipse/Schedule/UDQ/UDQSet.hpp>
#include <opm/input/eclipse/Schedule/UDQ/UDQState.hpp>
#include <opm/input/eclipse/Schedule/Well/WellTestState.hpp>
#include <opm/output/data/Solution.hpp>
#include <opm/output/data/Wells.hpp>
#include <opm/output/eclipse/RestartValue.hpp>


using namespace vf;
template <class T> static bool equal_objs(const T& a, const T& b) { return a == b; }
// EclipseState has no operator==: compare the transferred components that have one
template <> bool equal_objs<Opm::EclipseState>(const Opm::EclipseState& a, const Opm::EclipseState& b) {
    return a.getTableManager() == b.getTableManager() && a.runspec() == b.runspec() && a.getSimulationConfig() == b.getSimulationConfig()
        && a.getFaults() == b.getFaults() && a.aquifer() == b.aquifer() && a.getInputNNC() == b.getInputNNC()
        && a.getInitConfig() == b.getInitConfig() && a.getIOConfig() == b.getIOConfig() && a.getUnits() == b.getUnits()
        && a.getTitle() == b.getTitle() && a.tracer() == b.tracer();
}

static json fj(const std::vector<Field>& v, std::size_t i) { return i < v.size() ? json{v[i].first, v[i].second} : json{0, 0}; }

template <class T, class Q>
static void round_trip(Trace& tr, long id, const std::string& type, const T& obj, T& fresh, Q&& queries) {
    tr.emit({{"e", "Reset"}, {"id", id}, {"type", type}});
    FieldLog l1, l2;
    std::vector<char> b1, b2;
    json end = {{"e", "End"}, {"type", type}};
    try {
        const LogPacker p1{{}, &l1};
        LogSerializer s1(p1);
        s1.pack(obj);
        b1 = s1.buffer();
        s1.unpack(fresh);
        end["consumed"] = s1.position();
        const LogPacker p2{{}, &l2};
        LogSerializer s2(p2);
        s2.pack(fresh);
        b2 = s2.buffer();
        const std::size_t n = std::max({l1.size.size(), l1.pack.size(), l1.unpack.size(), l2.pack.size()});
        json prev;
        long count = 0;
        auto flush = [&] { if (count > 0) { prev["c"] = count; tr.emit(prev); } count = 0; };
        for (std::size_t i = 0; i < n; ++i) {
            json ev = {{"e", "Field"}, {"size", fj(l1.size, i)}, {"pack", fj(l1.pack, i)}, {"unpack", fj(l1.unpack, i)}, {"repack", fj(l2.pack, i)}};
            if (count > 0 && ev["size"] == prev["size"] && ev["pack"] == prev["pack"] && ev["unpack"] == prev["unpack"] && ev["repack"] == prev["repack"]) { ++count; continue; }
            flush();
            prev = ev; count = 1;
        }
        flush();
        end["packLen"] = b1.size();
        end["repackLen"] = b2.size();
        end["fields"] = n;
        bool eq = false;
        try { eq = equal_objs(obj, fresh); } catch (const std::exception&) { eq = false; }
        end["equal"] = eq;
        auto c1 = b1, c2 = b2;
        canonicalise_addresses(c1);
        canonicalise_addresses(c2);
        end["sameBytes"] = (c1 == c2);
        if (c1 != c2 && c1.size() == c2.size()) {
            std::size_t k = 0; while (c1[k] == c2[k]) ++k;
            end["firstDiffAt"] = k;
        }
        {   // the same fields with the same contents, in any order (unordered containers are re-inserted on unpacking)
            std::vector<std::tuple<int, std::size_t, std::uint64_t>> f1, f2;
            for (std::size_t i = 0; i < l1.pack.size(); ++i) f1.emplace_back(l1.pack[i].first, l1.pack[i].second, l1.content[i]);
            for (std::size_t i = 0; i < l2.pack.size(); ++i) f2.emplace_back(l2.pack[i].first, l2.pack[i].second, l2.content[i]);
            std::sort(f1.begin(), f1.end());
            std::sort(f2.begin(), f2.end());
            end["sameFields"] = (f1 == f2);
        }
        json q1, q2;
        try { q1 = queries(obj); } catch (const std::exception& e) { q1 = std::string("throws: ") + e.what(); }
        try { q2 = queries(fresh); } catch (const std::exception& e) { q2 = std::string("throws: ") + e.what(); }
        end["queriesSame"] = (q1 == q2);
        if (q1 != q2) { end["qdiff"] = json::diff(q1, q2).dump().substr(0, 600); }
        end["res"] = "ok";
    } catch (const std::exception& e) { end["res"] = "error"; end["what"] = std::string(e.what()).substr(0, 300); }
    tr.emit(end);
}

static json sched_queries(const Opm::Schedule& s) {
    json a = json::array();
    for (std::size_t i = 0; i < s.size(); ++i) a.push_back(project_state(s[i], false, true));
    return a;
}

static json es_queries(const Opm::EclipseState& es) {
    json q = json::object();
    const auto& tm = es.getTableManager();
    q["plyshlog_max"] = tm.getPlyshlogTables().max();
    q["plyshlog_size"] = tm.getPlyshlogTables().size();
    json fallback = json::array();
    for (std::size_t r = 0; r < tm.getPlyshlogTables().max() && tm.getPlyshlogTables().size() > 0; ++r) {
        try { fallback.push_back(tm.getPlyshlogTables().getTable(r).numRows()); } catch (const std::exception&) { fallback.push_back("throws"); }
    }
    q["plyshlog_rows"] = fallback;
    for (const char* name : {"SWOF", "SGOF", "PVDG", "PVDO", "ROCKTAB", "PLYVISC", "PLYADS", "RSVD", "SWFN", "SOF3", "SGFN"}) {
        if (tm.hasTables(name)) { q[std::string(name) + "_max"] = tm.getTables(name).max(); q[std::string(name) + "_size"] = tm.getTables(name).size(); }
    }
    q["pvto"] = tm.getPvtoTables().size();
    q["pvtg"] = tm.getPvtgTables().size();
    q["pvtw"] = tm.getPvtwTable().size();
    q["density"] = tm.getDensityTable().size();
    q["rock"] = tm.getRockTable().size();
    q["eqldims"] = tm.getEqldims().getNumEquilRegions();
    q["numtab_sat"] = tm.getTabdims().getNumSatTables();
    q["numtab_pvt"] = tm.getTabdims().getNumPVTTables();
    q["title"] = es.getTitle();
    q["units"] = es.getUnits().getName();
    q["phases"] = es.runspec().phases().size();
    q["faults"] = es.getFaults().size();
    q["thpres"] = es.getSimulationConfig().useThresholdPressure();
    q["cpr"] = es.getSimulationConfig().useCPR();
    q["disgas"] = es.getSimulationConfig().hasDISGAS();
    q["vapoil"] = es.getSimulationConfig().hasVAPOIL();
    q["aquifer_active"] = es.aquifer().active();
    q["nnc"] = es.getInputNNC().input().size();
    return q;
}

int main(int argc, char** argv) {
    if (argc < 3) { std::fprintf(stderr, "usage: serial scripts trace\n"); return 2; }
    install_terminate();
    Opm::OpmLog::removeAllBackends();
    Trace tr(argv[2]);
    for (const auto& sc : read_ndjson(argv[1])) {
        const long id = sc["id"];
        Rng rng(sc.value("seed", 1));
        try {
            Opm::Parser parser;
            const auto deck = sc.contains("file") ? parser.parseFile(sc["file"].get<std::string>()) : parser.parseString(sc["deck"].get<std::string>());
            const Opm::EclipseState es(deck);
            const Opm::Schedule sched(deck, es, std::make_shared<Opm::Python>());
            const Opm::SummaryConfig smry(deck, sched, es.fieldProps(), es.aquifer());
            { Opm::EclipseState f; round_trip(tr, id, "EclipseState", es, f, es_queries); }
            { Opm::Schedule f(std::make_shared<Opm::Python>()); round_trip(tr, id, "Schedule", sched, f, sched_queries); }
            { Opm::SummaryConfig f; round_trip(tr, id, "SummaryConfig", smry, f, [](const Opm::SummaryConfig& c) {
                  json a = json::array(); for (const auto& n : c) a.push_back(n.uniqueNodeKey()); return a; }); }
            // ---- dynamic state with random contents, named after the wells and groups of the schedule
            const auto wells = sched.wellNames();
            const auto groups = sched.groupNames();
            const auto start = Opm::TimeService::from_time_t(sched.getStartTime());
            {
                Opm::SummaryState st(start, es.runspec().udqParams().undefinedValue());
                for (const auto& w : wells) for (const char* v : {"WOPR", "WOPT", "WWCT", "WBHP"}) if (rng.coin()) st.update_well_var(w, v, rng.range(-10, 1e6));
                for (const auto& g : groups) for (const char* v : {"GOPR", "GOPT", "GWIR"}) if (rng.coin()) st.update_group_var(g, v, rng.range(0, 1e7));
                for (const char* v : {"FOPR", "FOPT", "TIME", "FWCT"}) st.update(v, rng.range(0, 1e5));
                if (!wells.empty()) { st.update_conn_var(wells[0], "COPR", 1 + rng.below(50), rng.range(0, 10)); st.update_segment_var(wells[0], "SOFR", 1 + rng.below(5), rng.range(0, 10)); }
                st.update_elapsed(rng.range(0, 1e7));
                Opm::SummaryState f(start, 0.0);
                round_trip(tr, id, "SummaryState", st, f, [&](const Opm::SummaryState& s) {
                    json q = json::object();
                    for (const auto& w : s.wells()) for (const auto& v : s.wells(w.empty() ? "WOPR" : "WOPR")) (void)v;
                    for (const auto& w : wells) for (const char* v : {"WOPR", "WOPT", "WWCT", "WBHP"}) q[w + v] = s.has_well_var(w, v) ? json(hexd(s.get_well_var(w, v))) : json(nullptr);
                    for (const auto& g : groups) for (const char* v : {"GOPR", "GOPT", "GWIR"}) q[g + v] = s.has_group_var(g, v) ? json(hexd(s.get_group_var(g, v))) : json(nullptr);
                    q["elapsed"] = hexd(s.get_elapsed());
                    q["n"] = s.size();
                    q["nw"] = s.num_wells();
                    return q; });
            }
            {
                Opm::UDQState st(es.runspec().udqParams().undefinedValue());
                for (int k = 0; k < 3; ++k) {
                    if (rng.coin()) st.add_assign("FU" + std::to_string(k), Opm::UDQSet::scalar("FU" + std::to_string(k), rng.range(-5, 5)));
                    if (!wells.empty() && rng.coin()) {
                        auto set = Opm::UDQSet::wells("WU" + std::to_string(k), wells);
                        for (const auto& w : wells) if (rng.coin()) set.assign(w, rng.range(0, 100));
                        st.add_define(rng.below(5), "WU" + std::to_string(k), set);
                    }
                }
                Opm::UDQState f(0.0);
                round_trip(tr, id, "UDQState", st, f, [&](const Opm::UDQState& s) {
                    json q = json::object();
                    for (int k = 0; k < 3; ++k) {
                        const auto fk = "FU" + std::to_string(k), wk = "WU" + std::to_string(k);
                        q[fk] = s.has(fk) ? json(hexd(s.get(fk))) : json(nullptr);
                        for (const auto& w : wells) q[wk + w] = s.has_well_var(w, wk) ? json(hexd(s.get_well_var(w, wk))) : json(nullptr);
                    }
                    return q; });
            }
            {
                Opm::Action::State st;
                const auto& acts = sched[sched.size() - 1].actions();
                for (const auto& a : acts) {
                    const int runs = rng.below(3);
                    for (int r = 0; r < runs; ++r) {
                        Opm::Action::Result res(true);
                        if (!wells.empty() && rng.coin()) res.wells(std::vector<std::string>{wells[rng.below(wells.size())]});
                        st.add_run(a, sched.getStartTime() + 86400 * (r + 1), res);
                    }
                }
                Opm::Action::State f;
                round_trip(tr, id, "ActionState", st, f, [&](const Opm::Action::State& s) {
                    json q = json::object();
                    for (const auto& a : acts) { q[a.name() + "#"] = s.run_count(a); q[a.name() + "@"] = static_cast<long>(s.run_time(a)); }
                    return q; });
            }
            {
                Opm::WellTestState st;
                for (const auto& w : wells) {
                    if (rng.coin()) st.close_well(w, rng.coin() ? Opm::WellTestConfig::Reason::PHYSICAL : Opm::WellTestConfig::Reason::ECONOMIC, rng.range(0, 1e6));
                    if (rng.coin()) st.close_completion(w, 1 + rng.below(4), rng.range(0, 1e6));
                    // ... and some are opened again (the entry stays, marked as not closed), some completions too
                    if (st.well_is_closed(w) && rng.below(3) == 0) st.open_well(w);
                    if (rng.below(4) == 0) { const int c = 1 + rng.below(4); if (st.completion_is_closed(w, c)) st.open_completion(w, c); }
                }
                Opm::WellTestState f;
                round_trip(tr, id, "WellTestState", st, f, [&](const Opm::WellTestState& s) {
                    json q = json::object();
                    q["nw"] = s.num_closed_wells(); q["nc"] = s.num_closed_completions();
                    for (const auto& w : wells) { q[w] = s.well_is_closed(w); for (int c = 1; c <= 4; ++c) q[w + std::to_string(c)] = s.completion_is_closed(w, c); }
                    return q; });
            }
            {
                Opm::data::Solution sol;
                const std::size_t nc = 5 + rng.below(40);
                for (const char* name : {"PRESSURE", "SWAT", "SGAS", "RS"}) {
                    std::vector<double> v(nc); for (auto& x : v) x = rng.range(0, 3e7);
                    sol.insert(name, Opm::UnitSystem::measure::identity, v, Opm::data::TargetType::RESTART_SOLUTION);
                }
                Opm::data::Wells xw;
                for (const auto& w : wells) {
                    auto& x = xw[w];
                    x.rates.set(Opm::data::Rates::opt::oil, -rng.range(0, 1));
                    x.rates.set(Opm::data::Rates::opt::wat, -rng.range(0, 1));
                    x.bhp = rng.range(1e6, 3e7);
                    x.thp = rng.range(1e5, 1e7);
                    x.dynamicStatus = rng.coin() ? Opm::Well::Status::OPEN : Opm::Well::Status::SHUT;
                    const int ncn = rng.below(4);
                    for (int c = 0; c < ncn; ++c) { Opm::data::Connection cn; cn.index = rng.below(1000); cn.pressure = rng.range(1e6, 3e7); cn.rates.set(Opm::data::Rates::opt::oil, -rng.range(0, 1)); x.connections.push_back(cn); }
                }
                Opm::RestartValue rv(sol, xw, {}, {});
                rv.addExtra("EXTRA1", Opm::UnitSystem::measure::pressure, std::vector<double>{rng.range(0, 1), rng.range(0, 1)});
                Opm::RestartValue f;
                round_trip(tr, id, "RestartValue", rv, f, [&](const Opm::RestartValue& r) {
                    json q = json::object();
                    q["nsol"] = r.solution.size(); q["nw"] = r.wells.size(); q["nx"] = r.extra.size();
                    for (const auto& w : wells) if (r.wells.count(w)) { q[w] = hexd(r.wells.at(w).bhp); q[w + "c"] = r.wells.at(w).connections.size(); }
                    if (r.solution.has("PRESSURE")) q["p0"] = hexd(r.solution.data<double>("PRESSURE")[0]);
                    return q; });
            }
        } catch (const std::exception& e) {
            tr.emit({{"e", "Reset"}, {"id", id}, {"type", "build"}});
            tr.emit({{"e", "End"}, {"type", "build"}, {"res", "skipped"}, {"what", std::string(e.what()).substr(0, 300)}});
        }
    }
    return 0;
}
