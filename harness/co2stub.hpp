// The CO2 and H2 property tables (opm/material/components/{co2,h2}tables.inc) are not
// part of this source snapshot, so libopmcommon.a lacks their definitions and
// nothing that references the CO2-brine PVT classes links.  The black-oil
// harnesses never evaluate those classes; these placeholder definitions only
// satisfy the linker.
#pragma once
#include <opm/material/components/CO2Tables.hpp>
#include <opm/material/components/H2.hpp>
namespace Opm {
const char* co2TabulatedDensityTraits::name = "density (placeholder)";
const double co2TabulatedDensityTraits::xMin = 280.0;
const double co2TabulatedDensityTraits::xMax = 400.0;
const double co2TabulatedDensityTraits::yMin = 1.0e5;
const double co2TabulatedDensityTraits::yMax = 1.0e8;
const double co2TabulatedDensityTraits::vals[200][500] = {};
const char* co2TabulatedEnthalpyTraits::name = "enthalpy (placeholder)";
const double co2TabulatedEnthalpyTraits::xMin = 280.0;
const double co2TabulatedEnthalpyTraits::xMax = 400.0;
const double co2TabulatedEnthalpyTraits::yMin = 1.0e5;
const double co2TabulatedEnthalpyTraits::yMax = 1.0e8;
const double co2TabulatedEnthalpyTraits::vals[200][500] = {};
const char* H2TabulatedDensityTraits::name = "density (placeholder)";
const double H2TabulatedDensityTraits::xMin = 280.0;
const double H2TabulatedDensityTraits::xMax = 400.0;
const double H2TabulatedDensityTraits::yMin = 1.0e5;
const double H2TabulatedDensityTraits::yMax = 1.0e8;
const double H2TabulatedDensityTraits::vals[200][500] = {};
const char* H2TabulatedEnthalpyTraits::name = "enthalpy (placeholder)";
const double H2TabulatedEnthalpyTraits::xMin = 280.0;
const double H2TabulatedEnthalpyTraits::xMax = 400.0;
const double H2TabulatedEnthalpyTraits::yMin = 1.0e5;
const double H2TabulatedEnthalpyTraits::yMax = 1.0e8;
const double H2TabulatedEnthalpyTraits::vals[200][500] = {};
}
