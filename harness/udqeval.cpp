// C17 harness, expression layer: evaluates UDQ DEFINE token lists with the
// real UDQDefine / UDQContext on a real SummaryState and compares every
// element with the value computed by TLC from the reference meaning
// (spec/UDQEval.tla via Oracle_UDQ).  Values are exact rationals [n, d]
// (d = 0: undefined); the comparison is |obs * d - n| <= 1e-9 * scale.
//
//   udqeval <cases.ndjson> <expected.ndjson> <trace.ndjson>
#include "common.hpp"

#include <opm/common/OpmLog/KeywordLocation.hpp>
#include <opm/common/utility/TimeService.hpp>
#include <opm/input/eclipse/EclipseState/Grid/FIPRegionStatistics.hpp>
#include <opm/input/eclipse/EclipseState/Grid/RegionSetMatcher.hpp>
#include <opm/input/eclipse/Schedule/MSW/SegmentMatcher.hpp>
#include <opm/input/eclipse/Schedule/ScheduleState.hpp>
#include <opm/input/eclipse/Schedule/SummaryState.hpp>
#include <opm/input/eclipse/Schedule/UDQ/UDT.hpp>
#include <opm/input/eclipse/Schedule/UDQ/UDQConfig.hpp>
#include <opm/input/eclipse/Schedule/UDQ/UDQContext.hpp>
#include <opm/input/eclipse/Schedule/UDQ/UDQDefine.hpp>
#include <opm/input/eclipse/Schedule/UDQ/UDQFunctionTable.hpp>
#include <opm/input/eclipse/Schedule/UDQ/UDQParams.hpp>
#include <opm/input/eclipse/Schedule/UDQ/UDQSet.hpp>
#include <opm/input/eclipse/Schedule/UDQ/UDQState.hpp>
#include <opm/input/eclipse/Schedule/Well/WellMatcher.hpp>

#include <cmath>
#include <map>
#include <unordered_map>

using namespace vf;
using namespace Opm;

static bool match(const json& exp, bool defined, double obs) {
    const long n = exp[0], d = exp[1];
    if (d == 0) return !defined;
    if (!defined) return false;
    const double scale = std::max({1.0, std::fabs(double(n)), std::fabs(double(d))});
    return std::fabs(obs * double(d) - double(n)) <= 1e-9 * scale;
}

int main(int argc, char** argv) {
    if (argc < 4) { std::fprintf(stderr, "usage: udqeval cases expected trace\n"); return 2; }
    install_terminate();
    std::map<long, json> expected;
    for (const auto& e : read_ndjson(argv[2])) expected[e["id"].get<long>()] = e["exp"];
    Trace tr(argv[3]);
    const std::vector<std::string> wells = {"P1", "P2", "P3", "I1"};
    const std::vector<std::string> groups = {"G1", "G2"};
    const WellMatcher wm{wells};
    const UDQParams udqp;
    const KeywordLocation loc{"UDQ", "case.DATA", 1};
    auto segFactory = []() { return std::make_unique<SegmentMatcher>(ScheduleState{}); };
    auto regFactory = []() { return std::make_unique<RegionSetMatcher>(FIPRegionStatistics{}); };
    const UDQFunctionTable udqft(udqp);
    const std::unordered_map<std::string, UDT> tables;

    tr.emit({{"e", "Reset"}, {"id", 0}});
    for (const auto& c : read_ndjson(argv[1])) {
        const long id = c["id"];
        const std::string kind = c["kind"];
        const auto toks = c["toks"].get<std::vector<std::string>>();
        const std::string name = kind == "s" ? "FU9" : kind == "w" ? "WU9" : "GU9";
        SummaryState st(TimeService::from_time_t(0), udqp.undefinedValue());
        UDQState udq_state(udqp.undefinedValue());
        const auto& ctx = c["ctx"];
        for (auto it = ctx["f"].begin(); it != ctx["f"].end(); ++it)
            if (it.value()[1].get<long>() != 0) st.update(it.key(), it.value()[0].get<double>() / it.value()[1].get<double>());
        for (auto q = ctx["w"].begin(); q != ctx["w"].end(); ++q)
            for (auto w = q.value().begin(); w != q.value().end(); ++w)
                if (w.value()[1].get<long>() != 0) st.update_well_var(w.key(), q.key(), w.value()[0].get<double>() / w.value()[1].get<double>());
        for (auto q = ctx["g"].begin(); q != ctx["g"].end(); ++q)
            for (auto g = q.value().begin(); g != q.value().end(); ++g)
                if (g.value()[1].get<long>() != 0) st.update_group_var(g.key(), q.key(), g.value()[0].get<double>() / g.value()[1].get<double>());
        // groups are known to the context through the summary state's group list
        json ev = {{"e", "Eval"}, {"id", id}, {"kind", kind}, {"toks", toks}};
        const auto expIt = expected.find(id);
        if (expIt == expected.end()) { ev["ok"] = false; ev["why"] = "no expectation"; tr.emit(ev); continue; }
        const json& exp = expIt->second;
        try {
            UDQDefine def(udqp, name, 0, loc, toks);
            UDQContext::MatcherFactories factories{};
            factories.segments = segFactory;
            factories.regions = regFactory;
            UDQContext context(udqft, wm, tables, std::move(factories), st, udq_state);
            const UDQSet res = def.eval(context);
            json obs = json::object();
            bool ok = true;
            std::string why;
            if (kind == "s") {
                const auto& e0 = res[0];
                obs["s"] = e0.defined() ? json(e0.get()) : json(nullptr);
                if (res.size() != 1) { ok = false; why = "size"; }
                else if (!match(exp["v"]["s"], e0.defined(), e0.defined() ? e0.get() : 0.0)) { ok = false; why = "value s"; }
            } else {
                const auto& members = kind == "w" ? wells : groups;
                if (res.size() != members.size()) { ok = false; why = "size"; }
                for (const auto& m : members) {
                    if (!ok) break;
                    const auto& e = res[m];
                    obs[m] = e.defined() ? json(e.get()) : json(nullptr);
                    if (!match(exp["v"][m], e.defined(), e.defined() ? e.get() : 0.0)) { ok = false; why = "value " + m; }
                }
            }
            ev["ok"] = ok;
            ev["obs"] = obs;
            if (!ok) { ev["why"] = why; ev["exp"] = exp; }
        } catch (const std::exception& e) {
            ev["ok"] = false;
            std::string msg = e.what();
            try { std::rethrow_if_nested(e); } catch (const std::exception& in) { msg += std::string(" <- ") + in.what(); } catch (...) {}
            ev["why"] = std::string("exception: ") + msg;
            ev["exp"] = exp;
        }
        tr.emit(ev);
    }
    tr.flush();
    return 0;
}
