// C17 harness, expression layer: evaluates UDQ DEFINE token lists with the
// real UDQDefine / UDQContext on a real SummaryState and compares every
// element with the value computed by TLC from the reference meaning
// (spec/UDQEval.tla via Oracle_UDQ).  Values are exact rationals [n, d]
// (d = 0: undefined); the comparison is |obs * d - n| <= 1e-9 * scale.
//
//   udqeval <cases.ndjson> <expected.ndjson> <trace.ndjson>
#include "common.hpp"

#include <opm/common/OpmLog/KeywordLocation.hpp>
#include <opm/common/utility/TimeService.hpp>
#include <opm/input/eclipse/EclipseState/Grid/FIPRegionStatistics.hpp>
#include <opm/input/eclipse/EclipseState/Grid/RegionSetMatcher.hpp>
#include <opm/input/eclipse/Schedule/MSW/SegmentMatcher.hpp>
#include <opm/input/eclipse/Schedule/ScheduleState.hpp>
#include <opm/input/eclipse/Schedule/SummaryState.hpp>
#include <opm/input/eclipse/Schedule/UDQ/UDT.hpp>
#include <opm/input/eclipse/Schedule/UDQ/UDQConfig.hpp>
#include <opm/input/eclipse/Schedule/UDQ/UDQContext.hpp>
#include <opm/input/eclipse/Schedule/UDQ/UDQDefine.hpp>
#include <opm/input/eclipse/Schedule/UDQ/UDQFunctionTable.hpp>
#include <opm/input/eclipse/Schedule/UDQ/UDQParams.hpp>
#include <opm/input/eclipse/Schedule/UDQ/UDQSet.hpp>
#include <opm/input/eclipse/Schedule/UDQ/UDQState.hpp>
#include <opm/input/eclipse/Schedule/Well/WellMatcher.hpp>

#include <cmath>
#include <map>
#include <optional>
#include <unordered_map>

using namespace vf;
using namespace Opm;

static bool match(const json& exp, bool defined, double obs) {
    const long n = exp[0], d = exp[1];
    if (d == 0) return !defined;
    if (!defined) return false;
    const double scale = std::max({1.0, std::fabs(double(n)), std::fabs(double(d))});
    return std::fabs(obs * double(d) - double(n)) <= 1e-9 * scale;
}

int main(int argc, char** argv) {
    if (argc < 4) { std::fprintf(stderr, "usage: udqeval cases expected trace\n"); return 2; }
    install_terminate();
    std::map<long, json> expected;
    for (const auto& e : read_ndjson(argv[2])) expected[e["id"].get<long>()] = e["exp"];
    Trace tr(argv[3]);
    const std::vector<std::string> wells = {"P1", "P2", "P3", "I1"};
    const std::vector<std::string> groups = {"G1", "G2"};
    const WellMatcher wm{wells};
    const UDQParams udqp;
    const KeywordLocation loc{"UDQ", "case.DATA", 1};
    auto segFactory = []() { return std::make_unique<SegmentMatcher>(ScheduleState{}); };
    auto regFactory = []() { return std::make_unique<RegionSetMatcher>(FIPRegionStatistics{}); };
    const UDQFunctionTable udqft(udqp);
    const std::unordered_map<std::string, UDT> tables;

    tr.emit({{"e", "Reset"}, {"id", 0}});
    for (const auto& c : read_ndjson(argv[1])) {
        const long id = c["id"];
        const std::string kind = c["kind"];
        const auto toks = c["toks"].get<std::vector<std::string>>();
        const std::string name = kind == "s" ? "FU9" : kind == "w" ? "WU9" : "GU9";
        const auto& ctx = c["ctx"];
        const auto& members = kind == "w" ? wells : groups;
        // evaluate with every summary input scaled by `scale`; result: one optional value per member
        struct Out { bool threw = false; std::string what; std::vector<std::optional<double>> v; bool sized = true; };
        auto evaluate = [&](const double scale) {
            Out out;
            SummaryState st(TimeService::from_time_t(0), udqp.undefinedValue());
            UDQState udq_state(udqp.undefinedValue());
            for (auto it = ctx["f"].begin(); it != ctx["f"].end(); ++it)
                if (it.value()[1].get<long>() != 0) st.update(it.key(), scale * it.value()[0].get<double>() / it.value()[1].get<double>());
            for (auto q = ctx["w"].begin(); q != ctx["w"].end(); ++q)
                for (auto w = q.value().begin(); w != q.value().end(); ++w)
                    if (w.value()[1].get<long>() != 0) st.update_well_var(w.key(), q.key(), scale * w.value()[0].get<double>() / w.value()[1].get<double>());
            for (auto q = ctx["g"].begin(); q != ctx["g"].end(); ++q)
                for (auto g = q.value().begin(); g != q.value().end(); ++g)
                    if (g.value()[1].get<long>() != 0) st.update_group_var(g.key(), q.key(), scale * g.value()[0].get<double>() / g.value()[1].get<double>());
            try {
                UDQDefine def(udqp, name, 0, loc, toks);
                UDQContext::MatcherFactories factories{};
                factories.segments = segFactory;
                factories.regions = regFactory;
                UDQContext context(udqft, wm, tables, std::move(factories), st, udq_state);
                const UDQSet res = def.eval(context);
                if (kind == "s") {
                    out.sized = res.size() == 1;
                    out.v.push_back(res[0].defined() ? std::optional<double>(res[0].get()) : std::nullopt);
                } else {
                    out.sized = res.size() == members.size();
                    if (out.sized) for (const auto& m : members) out.v.push_back(res[m].defined() ? std::optional<double>(res[m].get()) : std::nullopt);
                }
            } catch (const std::exception& e) {
                out.threw = true;
                out.what = e.what();
                try { std::rethrow_if_nested(e); } catch (const std::exception& in) { out.what += std::string(" <- ") + in.what(); } catch (...) {}
            }
            return out;
        };
        auto same = [](const Out& a, const Out& b) {
            if (a.threw != b.threw || a.v.size() != b.v.size()) return false;
            for (std::size_t k = 0; k < a.v.size(); ++k) {
                if (a.v[k].has_value() != b.v[k].has_value()) return false;
                if (a.v[k] && std::fabs(*a.v[k] - *b.v[k]) > 1e-6 * std::max(1.0, std::fabs(*a.v[k]))) return false;
            }
            return true;
        };
        json ev = {{"e", "Eval"}, {"id", id}, {"kind", kind}, {"toks", toks}};
        const auto expIt = expected.find(id);
        if (expIt == expected.end()) { ev["ok"] = false; ev["why"] = "no expectation"; tr.emit(ev); continue; }
        const json& exp = expIt->second;
        const Out o = evaluate(1.0);
        bool ok = true;
        std::string why;
        json obs = json::object();
        if (o.threw) { ok = false; why = "exception: " + o.what; }
        else if (!o.sized) { ok = false; why = "size"; }
        else {
            for (std::size_t k = 0; k < o.v.size(); ++k) {
                const std::string m = kind == "s" ? "s" : members[k];
                obs[m] = o.v[k] ? json(*o.v[k]) : json(nullptr);
                if (ok && !match(exp["v"][m], o.v[k].has_value(), o.v[k].value_or(0.0))) { ok = false; why = "value " + m; }
            }
        }
        if (!ok) {
            // A mismatch at a point where the real evaluation is discontinuous in its inputs (results change under a
            // relative perturbation of 2^-30) is a rounding artefact of double arithmetic against exact rationals
            // (a tie or an exact cancellation), not a semantic difference: such cases are set aside as fragile.
            const double eps = std::ldexp(1.0, -30);
            const Out up = evaluate(1.0 + eps), dn = evaluate(1.0 - eps);
            if (!same(o, up) || !same(o, dn) || !same(up, dn)) { ev["fragile"] = true; ok = true; }
        }
        ev["ok"] = ok;
        ev["obs"] = obs;
        if (!ok) { ev["why"] = why; ev["exp"] = exp; }
        tr.emit(ev);
    }
    tr.flush();
    return 0;
}
