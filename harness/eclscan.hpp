// Independent scanner/decoder for Eclipse array files (formatted and
// unformatted).  Shares no code and no constant with opm-common: it only
// follows the bytes - Fortran record markers for unformatted files, lines
// for formatted ones - and reports what it finds (frames, offsets, values).
// Whether what it finds is the right layout is decided by the TLA+
// specification (EclFileFormat), not here.
#pragma once
#include "common.hpp"

#include <cmath>
#include <cstring>

namespace vf {

struct ScanArray {
    std::string name;              // 8 characters as on disk, right-trimmed
    std::string type;              // "INTE" ... "C0NN" / "MESS"
    int w = 0;                     // element width for CHAR / C0nn
    long n = 0;                    // number of elements
    long start = 0, data = 0, end = 0;
    std::vector<long> frames;      // unformatted: payload bytes per record; formatted: elements per line
    bool head_eq_tail = true;
    std::vector<long long> ivals;  // INTE, LOGI (raw 32-bit pattern for unformatted LOGI; 0/1 formatted)
    std::vector<double> dvals;     // REAL (as float value), DOUB
    std::vector<std::string> svals;
    std::vector<std::string> rawtok;   // formatted REAL/DOUB tokens verbatim
};

struct ScanResult {
    bool ok = true;
    std::string err;
    long err_at = -1;
    std::vector<ScanArray> arrays;
    long size = 0;
};

inline std::uint32_t be32(const unsigned char* p) {
    return (std::uint32_t(p[0]) << 24) | (std::uint32_t(p[1]) << 16) | (std::uint32_t(p[2]) << 8) | p[3];
}

inline std::string rtrim(std::string s) {
    while (!s.empty() && s.back() == ' ') s.pop_back();
    return s;
}

inline int elem_bytes(const std::string& t, int w) {
    if (t == "INTE" || t == "REAL" || t == "LOGI") return 4;
    if (t == "DOUB") return 8;
    if (t == "CHAR") return 8;
    if (t == "MESS") return 0;
    return w;
}

inline ScanResult scan_unformatted(const std::string& bytes) {
    ScanResult r;
    r.size = static_cast<long>(bytes.size());
    const auto* p = reinterpret_cast<const unsigned char*>(bytes.data());
    long pos = 0, N = r.size;
    auto fail = [&](const std::string& e, long at) { r.ok = false; r.err = e; r.err_at = at; return r; };
    while (pos < N) {
        ScanArray a;
        a.start = pos;
        if (N - pos < 24) return fail("short header", pos);
        if (be32(p + pos) != 16) return fail("header head != 16", pos);
        a.name = rtrim(std::string(bytes, pos + 4, 8));
        std::int32_t cnt = static_cast<std::int32_t>(be32(p + pos + 12));
        a.type = std::string(bytes, pos + 16, 4);
        if (be32(p + pos + 20) != 16) return fail("header tail != 16", pos + 20);
        if (a.type[0] == 'C' && a.type != "CHAR") {
            a.w = std::atoi(a.type.substr(1).c_str());
            a.type = "C0NN";
        } else if (a.type == "CHAR") {
            a.w = 8;
        }
        a.n = cnt;
        pos += 24;
        a.data = pos;
        if (cnt < 0) return fail("negative count", a.start);
        const int eb = elem_bytes(a.type, a.w);
        long remaining = static_cast<long>(cnt) * eb;
        while (remaining > 0) {
            if (N - pos < 4) return fail("short data head", pos);
            long h = be32(p + pos);
            if (h <= 0 || h > remaining) return fail("bad data head", pos);
            if (N - pos < 4 + h + 4) return fail("short data record", pos);
            long t = be32(p + pos + 4 + h);
            if (t != h) a.head_eq_tail = false;
            a.frames.push_back(h);
            const unsigned char* q = p + pos + 4;
            if (a.type == "INTE") {
                for (long i = 0; i < h / 4; ++i) a.ivals.push_back(static_cast<std::int32_t>(be32(q + 4 * i)));
            } else if (a.type == "LOGI") {
                for (long i = 0; i < h / 4; ++i) a.ivals.push_back(be32(q + 4 * i));
            } else if (a.type == "REAL") {
                for (long i = 0; i < h / 4; ++i) {
                    std::uint32_t u = be32(q + 4 * i);
                    float f;
                    std::memcpy(&f, &u, 4);
                    a.dvals.push_back(f);
                }
            } else if (a.type == "DOUB") {
                for (long i = 0; i < h / 8; ++i) {
                    std::uint64_t u = (std::uint64_t(be32(q + 8 * i)) << 32) | be32(q + 8 * i + 4);
                    double d;
                    std::memcpy(&d, &u, 8);
                    a.dvals.push_back(d);
                }
            } else {
                if (eb <= 0) return fail("zero element width", a.start);
                for (long i = 0; i < h / eb; ++i) a.svals.emplace_back(bytes, pos + 4 + i * eb, eb);
            }
            pos += 4 + h + 4;
            remaining -= h;
        }
        a.end = pos;
        r.arrays.push_back(std::move(a));
    }
    return r;
}

inline double parse_fortran_real(std::string t) {
    if (t == "NAN") return std::nan("");
    if (t == "INF") return INFINITY;
    if (t == "-INF") return -INFINITY;
    for (auto& c : t) if (c == 'D' || c == 'd') c = 'E';
    if (t.find('E') == std::string::npos) {
        // three-digit exponent without letter: 0.123+100
        auto k = t.find_last_of("+-");
        if (k != std::string::npos && k > 0) t.insert(k, "E");
    }
    return std::strtod(t.c_str(), nullptr);
}

inline ScanResult scan_formatted(const std::string& bytes) {
    ScanResult r;
    r.size = static_cast<long>(bytes.size());
    long pos = 0, N = r.size;
    auto fail = [&](const std::string& e, long at) { r.ok = false; r.err = e; r.err_at = at; return r; };
    auto getline = [&](std::string& line) -> bool {
        if (pos >= N) return false;
        auto e = bytes.find('\n', pos);
        if (e == std::string::npos) return false;           // unterminated last line
        line.assign(bytes, pos, e - pos);
        pos = static_cast<long>(e) + 1;
        return true;
    };
    while (pos < N) {
        ScanArray a;
        a.start = pos;
        std::string h;
        if (!getline(h)) return fail("unterminated header line", a.start);
        // exactly: space quote 8 quote space 11-wide-count space quote 4 quote
        if (h.size() != 30 || h[0] != ' ' || h[1] != '\'' || h[10] != '\'' || h[11] != ' ' ||
            h[23] != ' ' || h[24] != '\'' || h[29] != '\'')
            return fail("malformed header line", a.start);
        a.name = rtrim(h.substr(2, 8));
        a.n = std::atol(h.substr(12, 11).c_str());
        a.type = h.substr(25, 4);
        if (a.type[0] == 'C' && a.type != "CHAR") {
            a.w = std::atoi(a.type.substr(1).c_str());
            a.type = "C0NN";
        } else if (a.type == "CHAR") {
            a.w = 8;
        }
        a.data = pos;
        long got = 0;
        const bool str = (a.type == "CHAR" || a.type == "C0NN");
        while (got < a.n && a.type != "MESS") {
            std::string line;
            long lstart = pos;
            if (!getline(line)) return fail("unterminated data line", lstart);
            long on_line = 0;
            if (str) {
                // tokens:  space quote w-chars quote
                std::size_t i = 0;
                while (i < line.size()) {
                    if (line.size() - i < std::size_t(a.w + 3) || line[i] != ' ' || line[i + 1] != '\'' ||
                        line[i + 2 + a.w] != '\'')
                        return fail("malformed string column", lstart + long(i));
                    a.svals.push_back(line.substr(i + 2, a.w));
                    i += a.w + 3;
                    ++on_line;
                }
            } else {
                int cw = a.type == "INTE" ? 12 : a.type == "REAL" ? 17 : a.type == "DOUB" ? 23 : 3;
                if (line.size() % cw != 0) return fail("line length not a multiple of the column width", lstart);
                for (std::size_t i = 0; i < line.size(); i += cw) {
                    std::string tok = line.substr(i, cw);
                    auto b = tok.find_first_not_of(' ');
                    if (b == std::string::npos) return fail("blank column", lstart + long(i));
                    tok = tok.substr(b);
                    if (a.type == "INTE") a.ivals.push_back(std::atoll(tok.c_str()));
                    else if (a.type == "LOGI") {
                        if (tok != "T" && tok != "F") return fail("bad logical", lstart + long(i));
                        a.ivals.push_back(tok == "T");
                    } else {
                        a.rawtok.push_back(tok);
                        a.dvals.push_back(parse_fortran_real(tok));
                    }
                    ++on_line;
                }
            }
            if (on_line == 0) return fail("empty data line", lstart);
            a.frames.push_back(on_line);
            got += on_line;
        }
        if (got != a.n && a.type != "MESS") return fail("element count mismatch", a.start);
        a.end = pos;
        r.arrays.push_back(std::move(a));
    }
    return r;
}

inline ScanResult scan_file(const std::string& bytes, bool formatted) {
    return formatted ? scan_formatted(bytes) : scan_unformatted(bytes);
}

} // namespace vf
