// C04 harness: applies ACTIONX actions to the real Schedule with
// Schedule::applyAction() and, in a second Schedule, parses the deck in
// which the action's keywords - with the matched wells substituted for "?" -
// are written at the end of the report step of each application.  Every
// snapshot of the original, the applied and the inlined schedule is
// recorded (member-wise digest, the marker event of an applied action
// masked).  TLC validates the relation (Trace_ActionApply).
//
//   actapply <scripts.ndjson> <trace.ndjson>
// script: {"head":text, "blocks":[text...], "apps":[{"n":step,"action":name,"wells":[...],"inline":text}]}
#include "schedpack.hpp"

#include <opm/input/eclipse/Deck/Deck.hpp>
#include <opm/input/eclipse/EclipseState/EclipseState.hpp>
#include <opm/input/eclipse/Parser/Parser.hpp>
#include <opm/input/eclipse/Python/Python.hpp>
#include <opm/input/eclipse/Schedule/Action/ActionResult.hpp>
#include <opm/input/eclipse/Schedule/Action/SimulatorUpdate.hpp>

using namespace vf;
using namespace Opm;

static constexpr double CurrentPI = 2.5e-10;      // SI

static std::string make_deck(const std::string& head, const std::vector<std::string>& blocks) {
    std::string s = head;
    for (const auto& b : blocks) s += b + "TSTEP\n 1 /\n";
    return s;
}

int main(int argc, char** argv) {
    if (argc < 3) { std::fprintf(stderr, "usage: actapply scripts trace\n"); return 2; }
    install_terminate();
    Trace tr(argv[2]);
    Parser parser;
    auto python = std::make_shared<Python>();
    long id = 0;
    for (const auto& sc : read_ndjson(argv[1])) {
        tr.emit({{"e", "Reset"}, {"id", id++}});
        const std::string head = sc["head"];
        const auto blocks = sc["blocks"].get<std::vector<std::string>>();
        bool anyWelpi = false;
        for (const auto& app : sc["apps"]) anyWelpi = anyWelpi || (app.contains("welpi") && !app["welpi"].empty());
        const std::uint64_t mask = 0;
        auto snaps = [&](const std::string& run, const Schedule& sched) {
            for (std::size_t k = 0; k < sched.size(); ++k)
                tr.emit({{"e", "Snap"}, {"run", run}, {"step", k}, {"proj", project_state(sched[k], /*maskActionEvent=*/true, false, mask)}});
        };
        try {
            const auto deck = parser.parseString(make_deck(head, blocks));
            const EclipseState es(deck);
            Schedule sched(deck, es, python);
            tr.emit({{"e", "Build"}, {"run", "orig"}, {"res", "ok"}, {"nsteps", sched.size()}});
            snaps("orig", sched);
            // apply the actions one after another on the same object
            auto inlined = blocks;
            bool applied_ok = true, exempt = false;
            for (const auto& app : sc["apps"]) {
                const std::size_t n = app["n"];
                const std::string name = app["action"];
                json ev = {{"e", "Apply"}, {"n", n}, {"action", name}, {"wells", app["wells"]}};
                try {
                    if (!sched[n].actions().has(name)) throw std::runtime_error("no such action at this report step");
                    Action::Result result{true};
                    result.wells(app["wells"].get<std::vector<std::string>>());
                    const auto& action = sched[n].actions()[name];
                    // a COMPDAT in the body for a well whose connections are all shut meets the automatic shut-in of
                    // report step n, which the action sees as already done and the inlined keyword prevents (set aside
                    // by the property): the later states of such a history are not compared
                    if (app.contains("compdat"))
                        for (const auto& w : app["compdat"])
                            if (sched.hasWell(w.get<std::string>(), n) && sched.getWell(w.get<std::string>(), n).getConnections().allConnectionsShut()) exempt = true;
                    // the simulator's current productivity index of every well (WELPI in an action body scales against it)
                    std::unordered_map<std::string, double> wellpi;
                    for (const auto& w : sched.wellNames(n)) wellpi[w] = CurrentPI;
                    sched.applyAction(n, action, result.matches(), wellpi);
                    ev["res"] = "ok";
                    ev["nsteps"] = sched.size();
                } catch (const std::exception& e) { ev["res"] = "error"; ev["what"] = std::string(e.what()).substr(0, 200); applied_ok = false; }
                tr.emit(ev);
                inlined[n] += app["inline"].get<std::string>();
                if (!applied_ok) break;
            }
            if (applied_ok) snaps("applied", sched);
            try {
                const auto deck2 = parser.parseString(make_deck(head, inlined));
                const EclipseState es2(deck2);
                const Schedule sched2(deck2, es2, python);
                tr.emit({{"e", "Build"}, {"run", "inlined"}, {"res", "ok"}, {"nsteps", sched2.size()}, {"appliedOk", applied_ok}});
                // (a WELPI written in the deck is only completed later by the simulator, so with a WELPI application the
                //  inlined schedule is built - it must be accepted - but its states are not compared)
                if (applied_ok && !anyWelpi && !exempt) snaps("inlined", sched2);
            } catch (const std::exception& e) {
                tr.emit({{"e", "Build"}, {"run", "inlined"}, {"res", "error"}, {"appliedOk", applied_ok}, {"what", std::string(e.what()).substr(0, 200)}});
            }
        } catch (const std::exception& e) {
            tr.emit({{"e", "Build"}, {"run", "orig"}, {"res", "error"}, {"what", std::string(e.what()).substr(0, 200)}});
        }
    }
    tr.flush();
    return 0;
}
