// Beyond the listed properties: WellTestConfig + WellTestState driven with
// random operation sequences; every operation is an event with what the real
// objects report afterwards (wells proposed by test_wells, closed wells, last
// test times), validated against spec/WellTest.tla.
//
//   wtest <scripts.ndjson> <trace.ndjson>
// script: {"id","ops":[{"op":"config","well","reasons":"PE","interval","num","step"}|{"op":"drop","well"}|
//                      {"op":"close","well","reason":"P"}|{"op":"open","well"}|{"op":"test"}|{"op":"tick","d"}]}
#include "common.hpp"

#include <opm/input/eclipse/Schedule/Well/WellTestConfig.hpp>
#include <opm/input/eclipse/Schedule/Well/WellTestState.hpp>

#include <algorithm>

using namespace vf;
using Opm::WellTestConfig;

static WellTestConfig::Reason reason_of(const std::string& r) {
    return r == "P" ? WellTestConfig::Reason::PHYSICAL : r == "E" ? WellTestConfig::Reason::ECONOMIC : WellTestConfig::Reason::GROUP;
}

int main(int argc, char** argv) {
    if (argc < 3) { std::fprintf(stderr, "usage: wtest scripts trace\n"); return 2; }
    install_terminate();
    Trace tr(argv[2]);
    for (const auto& sc : read_ndjson(argv[1])) {
        tr.emit({{"e", "Reset"}, {"id", sc["id"]}});
        WellTestConfig cfg;
        Opm::WellTestState st;
        long now = 0;
        const std::vector<std::string> wells = sc["wells"];
        for (const auto& o : sc["ops"]) {
            json ev = o;
            ev["e"] = "Op";
            try {
                const std::string op = o["op"];
                if (op == "config") cfg.add_well(o["well"], o["reasons"].get<std::string>(), double(o["interval"].get<long>()), o["num"], 0.0, o["step"]);
                else if (op == "drop") cfg.drop_well(o["well"]);
                else if (op == "close") st.close_well(o["well"], reason_of(o["reason"]), double(now));
                else if (op == "open") st.open_well(o["well"]);
                else if (op == "tick") now += o["d"].get<long>();
                else if (op == "test") {
                    auto out = st.test_wells(cfg, double(now));
                    std::sort(out.begin(), out.end());
                    ev["out"] = out;
                }
                ev["res"] = "ok";
            } catch (const std::exception& e) { ev["res"] = "error"; }
            json closed = json::array();
            for (const auto& w : wells) if (st.well_is_closed(w)) closed.push_back(w);
            ev["closed"] = closed;
            ev["now"] = now;
            tr.emit(ev);
        }
    }
    return 0;
}
