// Beyond the listed properties: WLIST operations through the real keyword
// handler.  For every prefix of the operation sequence a deck is built (one
// WLIST record per report step); an operation whose deck is refused is
// reported as an error and left out of the later decks.  After an accepted
// operation the lists and the per-well index of the last report step are
// reported.
//
//   wlistops <scripts.ndjson> <trace.ndjson>
// script: {"id","ops":[{"op":"NEW|ADD|DEL|MOV","name":"*L1","wells":["P1",...]}]}
#include "common.hpp"

#include <opm/common/OpmLog/OpmLog.hpp>
#include <opm/input/eclipse/Deck/Deck.hpp>
#include <opm/input/eclipse/EclipseState/EclipseState.hpp>
#include <opm/input/eclipse/Parser/Parser.hpp>
#include <opm/input/eclipse/Python/Python.hpp>
#include <opm/input/eclipse/Schedule/Schedule.hpp>
#include <opm/input/eclipse/Schedule/ScheduleState.hpp>
#include <opm/input/eclipse/Schedule/Well/WList.hpp>
#include <opm/input/eclipse/Schedule/Well/WListManager.hpp>

using namespace vf;

static const char* HEAD = "RUNSPEC\nDIMENS\n 3 3 1 /\nOIL\nWATER\nMETRIC\nWELLDIMS\n 5 5 3 5 /\nSTART\n 1 'JAN' 2020 /\nGRID\nDX\n 9*100 /\nDY\n 9*100 /\nDZ\n 9*10 /\nTOPS\n 9*2000 /\n"
                          "PORO\n 9*0.2 /\nPERMX\n 9*100 /\nPERMY\n 9*100 /\nPERMZ\n 9*10 /\nSCHEDULE\nWELSPECS\n 'P1' 'G' 1 1 1* OIL /\n 'P2' 'G' 2 2 1* OIL /\n 'P3' 'G' 3 3 1* OIL /\n/\n";

int main(int argc, char** argv) {
    if (argc < 3) { std::fprintf(stderr, "usage: wlistops scripts trace\n"); return 2; }
    install_terminate();
    Opm::OpmLog::removeAllBackends();
    Trace tr(argv[2]);
    const std::vector<std::string> wells = {"P1", "P2", "P3"}, names = {"*L1", "*L2", "*L3"};
    for (const auto& sc : read_ndjson(argv[1])) {
        tr.emit({{"e", "Reset"}, {"id", sc["id"]}});
        std::vector<json> accepted;
        for (const auto& o : sc["ops"]) {
            std::ostringstream d;
            d << HEAD;
            auto rec = [&](const json& x) {
                d << "WLIST\n '" << x["name"].get<std::string>() << "' " << x["op"].get<std::string>();
                for (const auto& w : x["wells"]) d << " '" << w.get<std::string>() << "'";
                d << " /\n/\nTSTEP\n 1 /\n";
            };
            for (const auto& a : accepted) rec(a);
            rec(o);
            json ev = o;
            ev["e"] = "Op";
            try {
                const auto deck = Opm::Parser{}.parseString(d.str());
                const Opm::EclipseState es(deck);
                const Opm::Schedule sched(deck, es, std::make_shared<Opm::Python>());
                const auto& wlm = sched[sched.size() - 1].wlist_manager();
                json lists = json::object(), index = json::object(), count = json::object();
                for (const auto& n : names) lists[n] = wlm.hasList(n) ? json(wlm.getList(n).wells()) : json(std::vector<std::string>{"<none>"});
                for (const auto& w : wells) {
                    index[w] = wlm.hasWList(w) ? json(wlm.getWListNames(w)) : json::array();
                    count[w] = wlm.hasWList(w) ? long(wlm.getNoWListsWell(w)) : 0L;
                }
                ev["lists"] = lists; ev["index"] = index; ev["count"] = count;
                ev["res"] = "ok";
                accepted.push_back(o);
            } catch (const std::exception& e) { ev["res"] = "error"; }
            tr.emit(ev);
        }
    }
    return 0;
}
