// Beyond the listed properties: multi-segment wells.  For a generated well
// (WELSEGS in incremental or absolute form, COMPSEGS) the Schedule is built
// and the segment set (storage order, branch, outlet, inlets, length, depth,
// volume) and the connection attachment (segment, centre depth) are reported
// - validated against spec/Segments.tla.
//
//   msw <scripts.ndjson> <trace.ndjson>
// script: {"id","deckA","deckB"|null,"top","recs","comps"}   (deckA: the WELSEGS with one connection tied to segment 1)
#include "common.hpp"

#include <opm/common/OpmLog/OpmLog.hpp>
#include <opm/input/eclipse/Deck/Deck.hpp>
#include <opm/input/eclipse/EclipseState/EclipseState.hpp>
#include <opm/input/eclipse/Parser/Parser.hpp>
#include <opm/input/eclipse/Python/Python.hpp>
#include <opm/input/eclipse/Schedule/MSW/Segment.hpp>
#include <opm/input/eclipse/Schedule/MSW/WellSegments.hpp>
#include <opm/input/eclipse/Schedule/Schedule.hpp>
#include <opm/input/eclipse/Schedule/Well/Connection.hpp>
#include <opm/input/eclipse/Schedule/Well/Well.hpp>
#include <opm/input/eclipse/Schedule/Well/WellConnections.hpp>

#include <algorithm>
#include <cmath>

using namespace vf;

static long asint(double x) {
    const double r = std::round(x);
    return std::abs(x - r) <= 1e-9 * std::max(1.0, std::abs(r)) ? long(r) : -999999;
}

template <class F>
static void with_well(const std::string& text, json& ev, F&& f) {
    try {
        Opm::Parser parser;
        const auto deck = parser.parseString(text);
        const Opm::EclipseState es(deck);
        const Opm::Schedule sched(deck, es, std::make_shared<Opm::Python>());
        f(sched.getWell("P1", 0));
        ev["res"] = "ok";
    } catch (const std::exception& e) {
        ev["res"] = "error";
        ev["what"] = std::string(e.what()).substr(0, 200);
    }
}

int main(int argc, char** argv) {
    if (argc < 3) { std::fprintf(stderr, "usage: msw scripts trace\n"); return 2; }
    install_terminate();
    Opm::OpmLog::removeAllBackends();
    Trace tr(argv[2]);
    for (const auto& sc : read_ndjson(argv[1])) {
        tr.emit({{"e", "Reset"}, {"id", sc["id"]}});
        {
            json ev = {{"e", "Welsegs"}, {"top", sc["top"]}, {"recs", sc["recs"]}, {"segs", json::array()}};
            with_well(sc["deckA"], ev, [&](const Opm::Well& w) {
                const auto& segs = w.getSegments();
                json a = json::array();
                for (int i = 0; i < segs.size(); ++i) {
                    const auto& s = segs[i];
                    auto in = s.inletSegments();
                    std::sort(in.begin(), in.end());
                    a.push_back({s.segmentNumber(), s.branchNumber(), s.outletSegment(), asint(s.totalLength()), asint(s.depth()), asint(s.volume()), in});
                }
                ev["segs"] = a;
            });
            tr.emit(ev);
        }
        if (!sc["deckB"].is_null()) {
            json ev = {{"e", "Compsegs"}, {"comps", sc["comps"]}, {"conns", json::array()}};
            with_well(sc["deckB"], ev, [&](const Opm::Well& w) {
                json a = json::array();
                for (const auto& c : w.getConnections())
                    a.push_back({c.getK() + 1, c.segment(), long(std::llround(c.depth() * 1000.0))});
                ev["conns"] = a;
            });
            tr.emit(ev);
        }
    }
    return 0;
}
