// C08 harness: executes write/rewind/crash scripts against the real
// OutputStream::Restart / ERst classes and records one ndjson event per
// public call.  The events are validated by TLC against Trace_UnifiedRestart.
//
//   urst <scripts.ndjson> <trace.ndjson> <workdir>
//
// script line: {"fmt":bool, "ops":[["open",step], ["write",name,type,w,n], ["close"], ["crash",stride]]}
#include "common.hpp"
#include "eclscan.hpp"

#include <opm/io/eclipse/ERst.hpp>
#include <opm/io/eclipse/OutputStream.hpp>

#include <memory>

using namespace vf;
namespace OS = Opm::EclIO::OutputStream;

static unsigned hname(const std::string& s) {
    unsigned h = 2166136261u;
    for (unsigned char c : s) { h ^= c; h *= 16777619u; }
    return h % 2000u;
}
static int ival(const std::string& nm, long j) { return int(hname(nm)) * 1000 + int(j % 1000); }
static float rval(const std::string& nm, long j) { return float(ival(nm, j)) + 0.5f; }
static double dval(const std::string& nm, long j) { return double(ival(nm, j)) + 0.25; }
static bool lval(const std::string& nm, long j) { return ((hname(nm) + j) % 3) == 0; }
static std::string sval(const std::string& nm, long j, int w) {
    char b[32];
    std::snprintf(b, sizeof b, "%04u%04ld", hname(nm), j % 10000);
    std::string s(b);
    while (int(s.size()) < w) s += s;
    return s.substr(0, w);
}

struct ArrSpec { std::string name, t; int w; long n; };

static void write_array(OS::Restart& rst, const ArrSpec& a) {
    if (a.t == "INTE") { std::vector<int> v(a.n); for (long j = 0; j < a.n; ++j) v[j] = ival(a.name, j); rst.write(a.name, v); }
    else if (a.t == "REAL") { std::vector<float> v(a.n); for (long j = 0; j < a.n; ++j) v[j] = rval(a.name, j); rst.write(a.name, v); }
    else if (a.t == "DOUB") { std::vector<double> v(a.n); for (long j = 0; j < a.n; ++j) v[j] = dval(a.name, j); rst.write(a.name, v); }
    else if (a.t == "LOGI") { std::vector<bool> v(a.n); for (long j = 0; j < a.n; ++j) v[j] = lval(a.name, j); rst.write(a.name, v); }
    else if (a.t == "CHAR" || a.t == "C0NN") { std::vector<std::string> v(a.n); for (long j = 0; j < a.n; ++j) v[j] = sval(a.name, j, a.w); rst.write(a.name, v); }
    else if (a.t == "MESS") rst.message(a.name);
    else throw std::runtime_error("bad type " + a.t);
}

// projection of the file: what an independent scan finds
static json observe(const std::string& bytes, bool fmt) {
    json o;
    auto sc = scan_file(bytes, fmt);
    o["len"] = sc.size;
    if (!sc.ok) { o["scan"] = sc.err; o["scanAt"] = sc.err_at; }
    else o["scan"] = "ok";
    json arr = json::array();
    for (const auto& a : sc.arrays) {
        long step = -1;
        if (a.name == "SEQNUM" && a.type == "INTE" && a.ivals.size() == 1) step = long(a.ivals[0]);
        arr.push_back({{"name", a.name}, {"t", a.type}, {"w", (a.type == "CHAR" || a.type == "C0NN") ? a.w : 0},
                       {"n", a.n}, {"step", step}});
    }
    o["obs"] = arr;
    return o;
}

// bytes of a fresh file holding the observed arrays (sessions re-created in order)
static std::string fresh_bytes(const json& obs, bool fmt, const std::string& dir) {
    fs::remove_all(dir);
    fs::create_directories(dir);
    OS::ResultSet rset{dir, "FRESH"};
    std::unique_ptr<OS::Restart> rst;
    for (const auto& a : obs) {
        if (a["name"] == "SEQNUM" && a["t"] == "INTE") {
            rst.reset();
            rst = std::make_unique<OS::Restart>(rset, a["step"].get<int>(), OS::Formatted{fmt}, OS::Unified{true});
        } else {
            if (!rst) return "<array before first SEQNUM>";
            write_array(*rst, ArrSpec{a["name"], a["t"], a["w"].get<int>(), a["n"].get<long>()});
        }
    }
    rst.reset();
    return slurp(dir + "/FRESH." + (fmt ? "FUNRST" : "UNRST"));
}

template <class T, class F>
static std::string cmp_read(Opm::EclIO::ERst& r, const std::string& nm, int step, long n, F expect) {
    const auto& v = r.getRestartData<T>(nm, step, 0);
    if (long(v.size()) != n) return "wrong";
    for (long j = 0; j < n; ++j) if (!(v[j] == expect(j))) return "wrong";
    return "exact";
}

// read array `a` of report step `step` from the (truncated) file at path
static std::string read_outcome(Opm::EclIO::ERst& r, const json& a, int step) {
    const std::string nm = a["name"], t = a["t"];
    const long n = a["n"];
    const int w = a["w"];
    try {
        if (!r.hasReportStepNumber(step)) return "error";
        if (nm == "SEQNUM") {
            const auto& v = r.getRestartData<int>("SEQNUM", step, 0);
            return (v.size() == 1 && v[0] == step) ? "exact" : "wrong";
        }
        if (t == "MESS") {
            // no data: present in the listing or not
            for (const auto& e : r.listOfRstArrays(step)) if (std::get<0>(e) == nm) return "exact";
            return "error";
        }
        if (!r.hasArray(nm, step)) return "error";
        if (t == "INTE") return cmp_read<int>(r, nm, step, n, [&](long j) { return ival(nm, j); });
        if (t == "REAL") return cmp_read<float>(r, nm, step, n, [&](long j) { return rval(nm, j); });
        if (t == "DOUB") return cmp_read<double>(r, nm, step, n, [&](long j) { return dval(nm, j); });
        if (t == "LOGI") return cmp_read<bool>(r, nm, step, n, [&](long j) { return lval(nm, j); });
        if (t == "CHAR") return cmp_read<std::string>(r, nm, step, n, [&](long j) { return rtrim(sval(nm, j, w)); });
        // C0nn: ERst::getRestartData<std::string> only accepts CHAR arrays; use the
        // EclFile interface of the same object (array names are unique in the scripts)
        const auto& names = r.arrayNames();
        for (std::size_t i = 0; i < names.size(); ++i) {
            if (names[i] != nm) continue;
            const auto& v = r.get<std::string>(int(i));
            if (long(v.size()) != n) return "wrong";
            for (long j = 0; j < n; ++j) if (v[j] != rtrim(sval(nm, j, w))) return "wrong";
            return "exact";
        }
        return "error";
    } catch (const std::exception&) {
        return "error";
    }
}

int main(int argc, char** argv) {
    if (argc < 4) { std::fprintf(stderr, "usage: urst scripts trace workdir\n"); return 2; }
    install_terminate();
    const std::string work = argv[3];
    Trace tr(argv[2]);
    auto scripts = read_ndjson(argv[1]);
    long id = 0;
    for (const auto& sc : scripts) {
        const bool fmt = sc["fmt"];
        const std::string dir = work + "/case";
        fs::remove_all(dir);
        fs::create_directories(dir);
        const std::string path = dir + "/CASE." + (fmt ? "FUNRST" : "UNRST");
        OS::ResultSet rset{dir, "CASE"};
        tr.emit({{"e", "Reset"}, {"fmt", fmt}, {"id", id++}});
        std::unique_ptr<OS::Restart> rst;
        for (const auto& op : sc["ops"]) {
            const std::string k = op[0];
            if (k == "open") {
                json ev = {{"e", "Open"}, {"step", op[1]}};
                try {
                    rst = std::make_unique<OS::Restart>(rset, op[1].get<int>(), OS::Formatted{fmt}, OS::Unified{true});
                    ev["res"] = "ok";
                } catch (const std::exception& e) { ev["res"] = "error"; ev["what"] = e.what(); }
                tr.emit(ev);
            } else if (k == "write") {
                ArrSpec a{op[1], op[2], op[3].get<int>(), op[4].get<long>()};
                json ev = {{"e", "Write"}, {"name", a.name}, {"t", a.t}, {"w", a.w}, {"n", a.n}};
                try { write_array(*rst, a); ev["res"] = "ok"; }
                catch (const std::exception& e) { ev["res"] = "error"; ev["what"] = e.what(); }
                tr.emit(ev);
            } else if (k == "close") {
                rst.reset();
                const std::string bytes = slurp(path);
                json ev = observe(bytes, fmt);
                ev["e"] = "Close";
                if (ev["scan"] == "ok") {
                    try { ev["eqFresh"] = (fresh_bytes(ev["obs"], fmt, work + "/fresh") == bytes); }
                    catch (const std::exception& e) { ev["eqFresh"] = false; ev["what"] = e.what(); }
                } else ev["eqFresh"] = false;
                // what the library's own reader lists
                try {
                    Opm::EclIO::ERst r(path);
                    ev["steps"] = r.listOfReportStepNumbers();
                } catch (const std::exception& e) { ev["steps"] = "error"; }
                tr.emit(ev);
            } else if (k == "crash") {
                // every stride-th byte offset of the current file is a crash point
                const long stride = op[1];
                const std::string bytes = slurp(path);
                const json full = observe(bytes, fmt);
                const std::string cpath = work + "/crash/CASE." + (fmt ? "FUNRST" : "UNRST");
                fs::create_directories(work + "/crash");
                for (long b = 0; b <= long(bytes.size()); b += (b + stride > long(bytes.size()) && b < long(bytes.size())) ? long(bytes.size()) - b : stride) {
                    spit(cpath, bytes.substr(0, b));
                    json ev = {{"e", "CrashRead"}, {"at", b}};
                    json reads = json::array();
                    std::unique_ptr<Opm::EclIO::ERst> r;
                    try { r = std::make_unique<Opm::EclIO::ERst>(cpath); ev["ctor"] = "ok"; }
                    catch (const std::exception& e) { ev["ctor"] = "error"; }
                    int step = -1;
                    for (const auto& a : full["obs"]) {
                        if (a["step"].get<long>() >= 0) step = a["step"].get<int>();
                        reads.push_back(r ? read_outcome(*r, a, step) : std::string("error"));
                    }
                    ev["reads"] = reads;
                    tr.emit(ev);
                    if (b == long(bytes.size())) break;
                }
            }
        }
        rst.reset();
    }
    tr.flush();
    return 0;
}
