// Beyond the listed properties: the group tree of the real Schedule at every
// report step, next to the abstract keywords of the step (spec/GroupTree.tla).
//
//   grouptree <scripts.ndjson> <trace.ndjson>
// script: {"id","deck","blocks":[[abstract keyword,...],...]}
#include "common.hpp"

#include <opm/common/OpmLog/OpmLog.hpp>
#include <opm/input/eclipse/Deck/Deck.hpp>
#include <opm/input/eclipse/EclipseState/EclipseState.hpp>
#include <opm/input/eclipse/Parser/Parser.hpp>
#include <opm/input/eclipse/Python/Python.hpp>
#include <opm/input/eclipse/Schedule/Group/Group.hpp>
#include <opm/input/eclipse/Schedule/Schedule.hpp>

#include <algorithm>

using namespace vf;

int main(int argc, char** argv) {
    if (argc < 3) { std::fprintf(stderr, "usage: grouptree scripts trace\n"); return 2; }
    install_terminate();
    Opm::OpmLog::removeAllBackends();
    Trace tr(argv[2]);
    for (const auto& sc : read_ndjson(argv[1])) {
        tr.emit({{"e", "Reset"}, {"id", sc["id"]}});
        try {
            const auto deck = Opm::Parser{}.parseString(sc["deck"].get<std::string>());
            const Opm::EclipseState es(deck);
            const Opm::Schedule sched(deck, es, std::make_shared<Opm::Python>());
            std::size_t s = 0;
            for (const auto& block : sc["blocks"]) {
                json tree = json::object();
                for (const auto& gname : sched.groupNames(s)) {
                    const auto& g = sched.getGroup(gname, s);
                    auto gs = g.groups(); auto ws = g.wells();
                    std::sort(gs.begin(), gs.end()); std::sort(ws.begin(), ws.end());
                    tree[gname] = {{"parent", g.parent()}, {"groups", gs}, {"wells", ws}};
                }
                tr.emit({{"e", "Step"}, {"step", s}, {"block", block}, {"tree", tree}, {"res", "ok"}});
                ++s;
            }
        } catch (const std::exception& e) {
            tr.emit({{"e", "Skip"}, {"what", std::string(e.what()).substr(0, 200)}});      // a schedule the library refuses
        }
    }
    return 0;
}
