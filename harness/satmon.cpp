// C15 harness: evaluates EclMaterialLawManager of generated decks and emits
// one event per relation of spec/SatMonitor.tla (values scaled to integers,
// 1e7 = the curve's maximum).
//
//   satmon <scripts.ndjson> <trace.ndjson>
// script: {"id","model":{family,nodes,regions,scaling,arrays,hyst},"regs":[...tables...],"satnum":[..],"arrays":{..}|null,
//          "decks":{"primary","other","unscaled"?, "nohyst"?}}
#include <config.h>
#include "common.hpp"
#include "co2stub.hpp"

#include <opm/common/OpmLog/OpmLog.hpp>
#include <opm/input/eclipse/Deck/Deck.hpp>
#include <opm/input/eclipse/EclipseState/EclipseState.hpp>
#include <opm/input/eclipse/EclipseState/Grid/EclipseGrid.hpp>
#include <opm/input/eclipse/EclipseState/Grid/FieldPropsManager.hpp>
#include <opm/input/eclipse/Parser/Parser.hpp>
#include <opm/material/fluidmatrixinteractions/EclMaterialLawManager.hpp>
#include <opm/material/fluidmatrixinteractions/MaterialTraits.hpp>
#include <opm/material/fluidstates/SimpleModularFluidState.hpp>

#include <array>
#include <cmath>
#include <functional>

using namespace vf;
using Scalar = double;
enum { waterPhaseIdx = 0, oilPhaseIdx = 1, gasPhaseIdx = 2 };
using Traits = Opm::ThreePhaseMaterialTraits<Scalar, waterPhaseIdx, oilPhaseIdx, gasPhaseIdx>;
using FluidState = Opm::SimpleModularFluidState<Scalar, 3, 3, void, false, false, false, false, true, false, false, false>;
using Manager = Opm::EclMaterialLawManager<Traits>;
using MaterialLaw = Manager::MaterialLaw;
using OWLaw = MaterialLaw::OilWaterMaterialLaw;
using GOLaw = MaterialLaw::GasOilMaterialLaw;

static std::function<std::vector<int>(const Opm::FieldPropsManager&, const std::string&, bool)> lookup =
    [](const Opm::FieldPropsManager& fp, const std::string& kw, bool needsTranslation) {
        auto v = fp.get_int(kw);
        for (auto& x : v) x -= needsTranslation;
        return v;
    };
static std::function<unsigned(unsigned)> ident = [](unsigned i) { return i; };

struct Model {
    Opm::EclipseState es;
    Manager mgr;
    explicit Model(const std::string& deck) : es(Opm::Parser{}.parseString(deck)) {
        const auto n = es.getInputGrid().getCartesianSize();
        mgr.initFromState(es);
        mgr.initParamsForElements(es, n, lookup, ident);
    }
    const auto& real(unsigned c) { return mgr.materialLawParams(c).template getRealParams<Opm::EclMultiplexerApproach::Default>(); }
    std::array<double, 5> eval(unsigned c, double Sw, double Sg) {
        FluidState fs;
        fs.setSaturation(waterPhaseIdx, Sw);
        fs.setSaturation(gasPhaseIdx, Sg);
        fs.setSaturation(oilPhaseIdx, 1.0 - Sw - Sg);
        std::array<double, 3> kr{}, pc{};
        MaterialLaw::relativePermeabilities(kr, mgr.materialLawParams(c), fs);
        MaterialLaw::capillaryPressures(pc, mgr.materialLawParams(c), fs);
        return {kr[0], kr[1], kr[2], pc[0], pc[2]};
    }
    void update(unsigned c, double Sw, double Sg) {
        FluidState fs;
        fs.setSaturation(waterPhaseIdx, Sw);
        fs.setSaturation(gasPhaseIdx, Sg);
        fs.setSaturation(oilPhaseIdx, 1.0 - Sw - Sg);
        mgr.updateHysteresis(fs, c);
    }
};

static Trace* TR;
static long sc(double x, double ref) { return ref > 0 ? std::lround(x / ref * 1e7) : std::lround(x * 1e7); }
static void node(const std::string& fn, int c, double exp, double got, double ref) { TR->emit({{"e", "Node"}, {"fn", fn}, {"cell", c}, {"exp", sc(exp, ref)}, {"got", sc(got, ref)}}); }
static void between(const std::string& fn, int c, double a, double b, double got, double ref) { TR->emit({{"e", "Between"}, {"fn", fn}, {"cell", c}, {"a", sc(a, ref)}, {"b", sc(b, ref)}, {"got", sc(got, ref)}}); }
static void range(const std::string& fn, int c, double got, double mx) { TR->emit({{"e", "Range"}, {"fn", fn}, {"cell", c}, {"got", sc(got, mx)}, {"max", sc(mx, mx)}}); }
static void same(const std::string& fn, int c, double a, double b, double ref) { TR->emit({{"e", "Same"}, {"fn", fn}, {"cell", c}, {"a", sc(a, ref)}, {"b", sc(b, ref)}}); }
static void endpoint(const std::string& fn, int c, double exp, double got, double ref) { TR->emit({{"e", "EndPoint"}, {"fn", fn}, {"cell", c}, {"exp", sc(exp, ref)}, {"got", sc(got, ref)}}); }

static double vmax(const json& a) { double m = 0; for (double x : a) m = std::max(m, std::abs(x)); return m; }

static void compare_models(const std::string& tag, Model& A, Model& B, unsigned ncell, Rng& rng, const json& regs, const json& satnum, const json& arrays) {
    for (unsigned c = 0; c < ncell; ++c) {
        const auto& r = regs[satnum[c].get<int>() - 1];
        const double swl = arrays.is_null() ? r["swco"].get<double>() : arrays["SWL"][c].get<double>();
        const double pcw = std::max(vmax(r["pcow"]), 1e-3), pcg = std::max(vmax(r["pcog"]), 1e-3);
        for (int k = 0; k < 14; ++k) {
            const double Sw = swl + (1.0 - swl) * rng.unit();
            const double Sg = (1.0 - Sw) * (k % 3 == 0 ? 0.0 : rng.unit());
            const auto a = A.eval(c, Sw, Sg), b = B.eval(c, Sw, Sg);
            same(tag + ".krw", c, a[0], b[0], 1.0);
            {   // (with the two-phase values the three-phase value is built from, for diagnosis)
                const auto& pa = A.real(c); const auto& pb = B.real(c);
                const double So = 1.0 - Sw - Sg, swl = arrays.is_null() ? r["swco"].get<double>() : arrays["SWL"][c].get<double>();
                // vertical three-point scaling on a table whose oil relative permeability at the critical water saturation equals
                // its maximum (Swcr = Swl in the table): inside [SWL, SWCR) the two input families take different branches of
                // unscaledToScaledKrn_ (see the known finding) - tagged
                const bool degenerate = !arrays.is_null() && arrays.contains("KRORW") && r["krw"][1].get<double>() > 0.0
                                        && Sw < arrays["SWCR"][c].get<double>() && Sw >= arrays["SWL"][c].get<double>();
                TR->emit({{"e", "Same"}, {"fn", tag + (degenerate ? ".kro@krorw-at-maximum" : ".kro")}, {"cell", c}, {"a", sc(a[1], 1.0)}, {"b", sc(b[1], 1.0)}, {"sw", sc(Sw, 1.0)}, {"sg", sc(Sg, 1.0)},
                          {"krow", {sc(OWLaw::twoPhaseSatKrn(pa.oilWaterParams(), Sw), 1.0), sc(OWLaw::twoPhaseSatKrn(pb.oilWaterParams(), Sw), 1.0)}},
                          {"krog", {sc(GOLaw::twoPhaseSatKrw(pa.gasOilParams(), So + Sw - swl), 1.0), sc(GOLaw::twoPhaseSatKrw(pb.gasOilParams(), So + Sw - swl), 1.0)}}});
            }
            same(tag + ".krg", c, a[2], b[2], 1.0);
            same(tag + ".pcw", c, a[3], b[3], pcw * 1e5);
            same(tag + ".pcg", c, a[4], b[4], pcg * 1e5);
        }
    }
}

int main(int argc, char** argv) {
    if (argc < 3) { std::fprintf(stderr, "usage: satmon scripts trace\n"); return 2; }
    install_terminate();
    Opm::OpmLog::removeAllBackends();
    Trace tr(argv[2]);
    TR = &tr;
    for (const auto& s : read_ndjson(argv[1])) {
        tr.emit({{"e", "Reset"}, {"id", s["id"]}});
        Rng rng(s.value("seed", 7));
        try {
            const auto& m = s["model"];
            const auto& regs = s["regs"];
            const auto& satnum = s["satnum"];
            const json arrays = s.contains("arrays") ? s["arrays"] : json();
            const unsigned ncell = satnum.size();
            Model P(s["decks"]["primary"].get<std::string>());
            const std::string scaling = m["scaling"], hyst = m["hyst"];
            // ---- 1. the curves against their tables (no scaling, or scaling without arrays which must be the identity)
            if (arrays.is_null()) {
                for (unsigned c = 0; c < ncell; ++c) {
                    const auto& r = regs[satnum[c].get<int>() - 1];
                    const auto& p = P.real(c);
                    const double swco = r["swco"];
                    const auto& sw = r["sw"];
                    const double mw = vmax(r["krw"]), mo = 1.0, mpc = std::max(vmax(r["pcow"]), 1e-3);
                    for (std::size_t i = 0; i < sw.size(); ++i) {
                        const double S = sw[i];
                        node("krw", c, r["krw"][i], OWLaw::twoPhaseSatKrw(p.oilWaterParams(), S), mw);
                        node("krow", c, r["krow"][i], OWLaw::twoPhaseSatKrn(p.oilWaterParams(), S), mo);
                        node("pcow", c, r["pcow"][i].get<double>() * 1e5, OWLaw::twoPhaseSatPcnw(p.oilWaterParams(), S), mpc * 1e5);
                        if (i + 1 < sw.size()) {
                            for (double f : {0.3, 0.7}) {
                                const double q = S + f * (sw[i + 1].get<double>() - S);
                                const double kw = OWLaw::twoPhaseSatKrw(p.oilWaterParams(), q), ko = OWLaw::twoPhaseSatKrn(p.oilWaterParams(), q);
                                between("krw", c, r["krw"][i], r["krw"][i + 1], kw, mw);
                                between("krow", c, r["krow"][i], r["krow"][i + 1], ko, mo);
                                between("pcow", c, r["pcow"][i].get<double>() * 1e5, r["pcow"][i + 1].get<double>() * 1e5, OWLaw::twoPhaseSatPcnw(p.oilWaterParams(), q), mpc * 1e5);
                                range("krw", c, kw, mw);
                                range("krow", c, ko, mo);
                            }
                        }
                    }
                    const auto& sg = r["sg"];
                    const double mg = vmax(r["krg"]), mpg = std::max(vmax(r["pcog"]), 1e-3);
                    for (std::size_t i = 0; i < sg.size(); ++i) {
                        const double So = 1.0 - swco - sg[i].get<double>();
                        node("krg", c, r["krg"][i], GOLaw::twoPhaseSatKrn(p.gasOilParams(), So), mg);
                        node("krog", c, r["krog"][i], GOLaw::twoPhaseSatKrw(p.gasOilParams(), So), 1.0);
                        node("pcog", c, r["pcog"][i].get<double>() * 1e5, GOLaw::twoPhaseSatPcnw(p.gasOilParams(), So), mpg * 1e5);
                        if (i + 1 < sg.size()) {
                            for (double f : {0.3, 0.7}) {
                                const double q = So - f * (sg[i + 1].get<double>() - sg[i].get<double>());
                                const double kg = GOLaw::twoPhaseSatKrn(p.gasOilParams(), q), ko = GOLaw::twoPhaseSatKrw(p.gasOilParams(), q);
                                between("krg", c, r["krg"][i], r["krg"][i + 1], kg, mg);
                                between("krog", c, r["krog"][i], r["krog"][i + 1], ko, 1.0);
                                range("krg", c, kg, mg);
                                range("krog", c, ko, 1.0);
                            }
                        }
                    }
                }
            }
            // ---- 2. the other input family describes the same curves
            if (s["decks"].contains("other")) {
                Model O(s["decks"]["other"].get<std::string>());
                compare_models("family", P, O, ncell, rng, regs, satnum, arrays);
            }
            // ---- 3. scaling with the table's own end-points is the identity
            if (s["decks"].contains("unscaled")) {
                Model U(s["decks"]["unscaled"].get<std::string>());
                compare_models("identity", P, U, ncell, rng, regs, satnum, arrays);
            }
            // ---- 4. scaled end-points carry the table's end-point values
            if (!arrays.is_null()) {
                for (unsigned c = 0; c < ncell; ++c) {
                    const auto& r = regs[satnum[c].get<int>() - 1];
                    const auto& p = P.real(c);
                    auto A = [&](const char* k) { return arrays[k][c].get<double>(); };
                    const bool vert = arrays.contains("KRW");
                    // the maxima: the table's, or with vertical scaling the cell's KRW / KRO / KRG
                    const double mw = vert ? A("KRW") : vmax(r["krw"]), mg = vert ? A("KRG") : vmax(r["krg"]), mo = vert ? A("KRO") : 1.0;
                    endpoint("krw(SWCR)", c, 0.0, OWLaw::twoPhaseSatKrw(p.oilWaterParams(), A("SWCR")), mw);
                    endpoint("krw(SWU)", c, mw, OWLaw::twoPhaseSatKrw(p.oilWaterParams(), A("SWU")), mw);
                    endpoint("krow(1-SOWCR-SGL)", c, 0.0, OWLaw::twoPhaseSatKrn(p.oilWaterParams(), 1.0 - A("SOWCR") - A("SGL")), 1.0);
                    endpoint("krow(SWL)", c, mo, OWLaw::twoPhaseSatKrn(p.oilWaterParams(), A("SWL")), 1.0);
                    endpoint("krg(SGCR)", c, 0.0, GOLaw::twoPhaseSatKrn(p.gasOilParams(), 1.0 - A("SWL") - A("SGCR")), mg);
                    endpoint("krg(SGU)", c, mg, GOLaw::twoPhaseSatKrn(p.gasOilParams(), 1.0 - A("SWL") - A("SGU")), mg);
                    endpoint("krog(SOGCR)", c, 0.0, GOLaw::twoPhaseSatKrw(p.gasOilParams(), A("SOGCR")), 1.0);
                    endpoint("krog(1-SWL-SGL)", c, mo, GOLaw::twoPhaseSatKrw(p.gasOilParams(), 1.0 - A("SWL") - A("SGL")), 1.0);
                    if (vert) {
                        // the value at the critical saturation of the displacing phase (three-point scaling)
                        endpoint("krw(1-SOWCR-SGL)=KRWR", c, A("KRWR"), OWLaw::twoPhaseSatKrw(p.oilWaterParams(), 1.0 - A("SOWCR") - A("SGL")), mw);
                        endpoint("krow(SWCR)=KRORW", c, A("KRORW"), OWLaw::twoPhaseSatKrn(p.oilWaterParams(), A("SWCR")), 1.0);
                        endpoint("krg(1-SOGCR-SWL)=KRGR", c, A("KRGR"), GOLaw::twoPhaseSatKrn(p.gasOilParams(), A("SOGCR")), mg);
                        // the scaled curves stay monotone
                        double worstW = 0, worstO = 0, worstG = 0, pw = -1, po = 2, pg = 2;
                        for (int k = 0; k <= 200; ++k) {
                            const double S = A("SWL") + (1.0 - A("SWL")) * k / 200.0;
                            const double kw = OWLaw::twoPhaseSatKrw(p.oilWaterParams(), S), ko = OWLaw::twoPhaseSatKrn(p.oilWaterParams(), S);
                            worstW = std::max(worstW, pw - kw); worstO = std::max(worstO, ko - po);
                            pw = kw; po = ko;
                            const double So = (1.0 - A("SWL")) * k / 200.0;                 // krg falls as the oil saturation rises
                            const double kg = GOLaw::twoPhaseSatKrn(p.gasOilParams(), So);
                            worstG = std::max(worstG, kg - pg); pg = kg;
                        }
                        TR->emit({{"e", "Mono"}, {"fn", "krw"}, {"cell", c}, {"worst", sc(worstW, 1.0)}});
                        TR->emit({{"e", "Mono"}, {"fn", "krow"}, {"cell", c}, {"worst", sc(worstO, 1.0)}});
                        TR->emit({{"e", "Mono"}, {"fn", "krg"}, {"cell", c}, {"worst", sc(worstG, 1.0)}});
                    }
                }
            }
            // ---- 5. hysteresis
            if (s["decks"].contains("nohyst")) {
                Model N(s["decks"]["nohyst"].get<std::string>());
                for (unsigned c = 0; c < ncell; ++c) {
                    const auto& r = regs[satnum[c].get<int>() - 1];
                    const double swl = arrays.is_null() ? r["swco"].get<double>() : arrays["SWL"][c].get<double>();
                    // water-oil: drainage (Sw decreasing), then imbibition
                    std::vector<double> path;
                    double Sw = 0.98;
                    const double swmin = swl + 0.05 + 0.2 * rng.unit();
                    while (Sw > swmin) { path.push_back(Sw); Sw -= 0.04 + 0.06 * rng.unit(); }
                    path.push_back(swmin);
                    const std::size_t nd = path.size();
                    for (int k = 1; k <= 5; ++k) path.push_back(swmin + k * (0.9 - swmin) / 6.0);
                    // a reversal on the flat top of the drainage curve (kr at its maximum) is tagged: Carlson's shift is then not unique
                    const double krTop = OWLaw::twoPhaseSatKrn(N.real(c).oilWaterParams(), swl);
                    const bool plateau = OWLaw::twoPhaseSatKrn(N.real(c).oilWaterParams(), swmin) >= krTop - 1e-12;
                    const std::string tagO = plateau ? "hyst.kro@plateau" : "hyst.kro";
                    double atrev = 0.0, prev = 0.0, startNow = 0.0;
                    bool mono = true;
                    for (std::size_t i = 0; i < path.size(); ++i) {
                        P.update(c, path[i], 0.0);
                        const auto h = P.eval(c, path[i], 0.0), n = N.eval(c, path[i], 0.0);
                        if (hyst == "same" || i < nd) {
                            // identical curves change nothing; before the first reversal the drainage curve is followed
                            TR->emit({{"e", "Same"}, {"fn", (i < nd ? std::string("hyst.kro") : tagO)}, {"cell", c}, {"a", sc(h[1], 1.0)}, {"b", sc(n[1], 1.0)}, {"sw", sc(path[i], 1.0)},
                                      {"krow2p", sc(OWLaw::twoPhaseSatKrn(N.real(c).oilWaterParams(), path[i]), 1.0)}});
                            same("hyst.krw", c, h[0], n[0], 1.0);
                        }
                        if (i == nd - 1) { atrev = h[1]; prev = h[1]; startNow = P.eval(c, path[i] + 1e-7, 0.0)[1]; }
                        if (i >= nd) { if (h[1] > prev + 1e-9) mono = false; prev = h[1]; }
                    }
                    if (hyst == "other") {
                        const double start = P.eval(c, swmin + 1e-9, 0.0)[1];
                        // (the state at this point has seen the whole imbibition path; the scanning curve through the
                        // reversal point is kept, so its value there is still the value at the reversal)
                        // (three-point scaling with explicit end-points: see the known finding on the Carlson shift)
                        TR->emit({{"e", "Scan"}, {"fn", (scaling == "three" && !arrays.is_null()) ? "kro@3pt-arrays" : "kro"}, {"cell", c}, {"start", sc(start, 1.0)}, {"startNow", sc(startNow, 1.0)}, {"atrev", sc(atrev, 1.0)}, {"monotone", mono}});
                    }
                }
            }
        } catch (const std::exception& e) {
            tr.emit({{"e", "Skip"}, {"what", std::string(e.what()).substr(0, 300)}});
        }
    }
    return 0;
}
