// C17 harness, history layer: a deck with UDQ ASSIGN / DEFINE / UPDATE records
// spread over report steps is parsed into a real Schedule; the harness then
// plays the simulator: at every report step it sets the step's summary values
// and calls schedule[step].udq().eval(...) with one SummaryState / UDQState,
// and compares every UDQ value (read back from the UDQState and from the
// SummaryState) with the values TLC computed from the reference meaning
// (spec/Oracle_UDQHist.tla).
//
//   udqhist <cases.ndjson> <expected.ndjson> <trace.ndjson>
// case: {"id":n, "deck":text, "steps":[{"ctx":{...}}, ...]}
#include "common.hpp"

#include <opm/common/utility/TimeService.hpp>
#include <opm/input/eclipse/Deck/Deck.hpp>
#include <opm/input/eclipse/EclipseState/EclipseState.hpp>
#include <opm/input/eclipse/EclipseState/Grid/FIPRegionStatistics.hpp>
#include <opm/input/eclipse/EclipseState/Grid/RegionSetMatcher.hpp>
#include <opm/input/eclipse/Parser/Parser.hpp>
#include <opm/input/eclipse/Python/Python.hpp>
#include <opm/input/eclipse/Schedule/MSW/SegmentMatcher.hpp>
#include <opm/input/eclipse/Schedule/Schedule.hpp>
#include <opm/input/eclipse/Schedule/SummaryState.hpp>
#include <opm/input/eclipse/Schedule/UDQ/UDQConfig.hpp>
#include <opm/input/eclipse/Schedule/UDQ/UDQState.hpp>
#include <opm/input/eclipse/Schedule/Well/WellMatcher.hpp>

#include <cmath>
#include <map>
#include <optional>

using namespace vf;
using namespace Opm;

static bool match(const json& exp, bool defined, double obs) {
    const long n = exp[0], d = exp[1];
    if (d == 0) return !defined;
    if (!defined) return false;
    const double scale = std::max({1.0, std::fabs(double(n)), std::fabs(double(d))});
    return std::fabs(obs * double(d) - double(n)) <= 1e-9 * scale;
}

int main(int argc, char** argv) {
    if (argc < 4) { std::fprintf(stderr, "usage: udqhist cases expected trace\n"); return 2; }
    install_terminate();
    std::map<long, json> expected;
    for (const auto& e : read_ndjson(argv[2])) expected[e["id"].get<long>()] = e["exp"];
    Trace tr(argv[3]);
    const std::vector<std::string> wells = {"P1", "P2", "P3", "I1"};
    const std::vector<std::string> groups = {"G1", "G2"};
    Parser parser;
    auto python = std::make_shared<Python>();
    tr.emit({{"e", "Reset"}, {"id", 0}});
    for (const auto& c : read_ndjson(argv[1])) {
        const long id = c["id"];
        json ev = {{"e", "History"}, {"id", id}};
        const auto expIt = expected.find(id);
        if (expIt == expected.end()) { ev["ok"] = false; ev["why"] = "no expectation"; tr.emit(ev); continue; }
        const json& exp = expIt->second;
        struct Out { bool ok = true; std::string why; std::vector<std::optional<double>> seen; };
        auto runHistory = [&](const double scale) {
            Out out;
            bool& ok = out.ok;
            std::string& why = out.why;
            auto& seen = out.seen;
        try {
            const auto deck = parser.parseString(c["deck"].get<std::string>());
            const EclipseState es(deck);
            const Schedule sched(deck, es, python);
            const double undef = sched.getUDQConfig(0).params().undefinedValue();
            SummaryState st(TimeService::from_time_t(sched.getStartTime()), undef);
            UDQState udq_state(undef);
            const std::size_t nstep = c["steps"].size();
            for (std::size_t k = 0; k < nstep && ok; ++k) {
                const auto& ctx = c["steps"][k]["ctx"];
                for (auto it = ctx["f"].begin(); it != ctx["f"].end(); ++it)
                    st.update(it.key(), scale * it.value()[0].get<double>() / it.value()[1].get<double>());
                for (auto q = ctx["w"].begin(); q != ctx["w"].end(); ++q)
                    for (auto w = q.value().begin(); w != q.value().end(); ++w)
                        if (w.value()[1].get<long>() != 0)
                            st.update_well_var(w.key(), q.key(), scale * w.value()[0].get<double>() / w.value()[1].get<double>());
                for (auto q = ctx["g"].begin(); q != ctx["g"].end(); ++q)
                    for (auto g = q.value().begin(); g != q.value().end(); ++g)
                        st.update_group_var(g.key(), q.key(), scale * g.value()[0].get<double>() / g.value()[1].get<double>());
                auto segFactory = [&sched, k]() { return std::make_unique<SegmentMatcher>(sched[k]); };
                auto regFactory = []() { return std::make_unique<RegionSetMatcher>(FIPRegionStatistics{}); };
                sched[k].udq().eval(k, sched.wellMatcher(k), segFactory, regFactory, st, udq_state);
                // compare every quantity the reference knows at this step
                const json& ek = exp[k];
                for (auto q = ek.begin(); q != ek.end() && ok; ++q) {
                    const std::string name = q.key();
                    const std::string kind = q.value()["k"];
                    auto cmp = [&](const json& e, bool def_state, double v_state, double v_summary, const std::string& what) {
                        seen.push_back(def_state ? std::optional<double>(v_state) : std::nullopt);
                        if (!match(e, def_state, v_state)) { ok = false; why = "step " + std::to_string(k) + " " + what + " (UDQState): got " + (def_state ? std::to_string(v_state) : "undefined") + " expected " + e.dump(); }
                        else {
                            // the summary state stores the UDQ "undefined value" for undefined elements
                            const bool sum_ok = (e[1].get<long>() == 0) ? (v_summary == undef) : match(e, true, v_summary);
                            if (!sum_ok) { ok = false; why = "step " + std::to_string(k) + " " + what + " (SummaryState): got " + std::to_string(v_summary) + " expected " + e.dump(); }
                        }
                    };
                    if (kind == "s") {
                        const bool d = udq_state.has(name);
                        cmp(q.value()["v"]["s"], d, d ? udq_state.get(name) : 0.0, st.has(name) ? st.get(name) : undef, name);
                    } else if (kind == "w") {
                        for (const auto& w : wells) {
                            const bool d = udq_state.has_well_var(w, name);
                            cmp(q.value()["v"][w], d, d ? udq_state.get_well_var(w, name) : 0.0,
                                st.has_well_var(w, name) ? st.get_well_var(w, name) : undef, name + ":" + w);
                            if (!ok) break;
                        }
                    } else {
                        for (const auto& g : groups) {
                            const bool d = udq_state.has_group_var(g, name);
                            cmp(q.value()["v"][g], d, d ? udq_state.get_group_var(g, name) : 0.0,
                                st.has_group_var(g, name) ? st.get_group_var(g, name) : undef, name + ":" + g);
                            if (!ok) break;
                        }
                    }
                }
            }
        } catch (const std::exception& e) {
            ok = false;
            std::string msg = e.what();
            try { std::rethrow_if_nested(e); } catch (const std::exception& in) { msg += std::string(" <- ") + in.what(); } catch (...) {}
            why = "exception: " + msg;
        }
            return out;
        };
        auto same = [](const Out& x, const Out& y) {
            if (x.seen.size() != y.seen.size()) return false;
            for (std::size_t k = 0; k < x.seen.size(); ++k) {
                if (x.seen[k].has_value() != y.seen[k].has_value()) return false;
                if (x.seen[k] && std::fabs(*x.seen[k] - *y.seen[k]) > 1e-6 * std::max(1.0, std::fabs(*x.seen[k]))) return false;
            }
            return true;
        };
        const Out o = runHistory(1.0);
        bool ok = o.ok;
        std::string why = o.why;
        if (!ok && why.rfind("exception", 0) != 0) {
            // rounding artefact at a discontinuity (see udqeval.cpp): results change under a 2^-30 relative perturbation
            const double eps = std::ldexp(1.0, -30);
            const Out up = runHistory(1.0 + eps), dn = runHistory(1.0 - eps);
            if (!same(o, up) || !same(o, dn) || !same(up, dn)) { ev["fragile"] = true; ok = true; }
        }
        ev["ok"] = ok;
        if (!ok) ev["why"] = why;
        tr.emit(ev);
    }
    tr.flush();
    return 0;
}
