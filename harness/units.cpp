// C02 harness: reports what UnitSystem does for every measure and for
// composite dimension strings, next to the value of the specification's
// factor / offset terms under the physical constants.
//
//   units <cases.ndjson> <out.ndjson>
// case: {"id","sys","kind":"measure","m":name,"factor":term,"offset":term} | {"id","sys","kind":"dim","str":..., "factor":term}
#include "common.hpp"
#include "termeval.hpp"

#include <opm/input/eclipse/Units/Dimension.hpp>
#include <opm/input/eclipse/Units/UnitSystem.hpp>

using namespace vf;
using Opm::UnitSystem;
using M = UnitSystem::measure;

static const std::map<std::string, M> MEASURES = {
#define X(n) {#n, M::n}
    X(identity), X(length), X(time), X(runtime), X(density), X(pressure), X(temperature_absolute), X(temperature), X(viscosity),
    X(permeability), X(area), X(liquid_surface_volume), X(gas_surface_volume), X(volume), X(geometric_volume), X(liquid_surface_rate),
    X(gas_surface_rate), X(rate), X(geometric_volume_rate), X(pipeflow_velocity), X(transmissibility), X(effective_Kh), X(mass),
    X(mass_rate), X(gas_oil_ratio), X(oil_gas_ratio), X(water_cut), X(gas_formation_volume_factor), X(oil_formation_volume_factor),
    X(water_formation_volume_factor), X(gas_inverse_formation_volume_factor), X(oil_inverse_formation_volume_factor),
    X(water_inverse_formation_volume_factor), X(liquid_productivity_index), X(gas_productivity_index), X(energy), X(energy_rate),
    X(icd_strength), X(aicd_strength), X(polymer_density), X(salinity), X(gas_oil_ratio_rate), X(moles), X(ppm), X(ymodule), X(dfactor)
#undef X
};

// physical definitions (exact by international agreement, except the conventional darcy; the Btu is the thermochemical one)
static const TermEnv CONSTANTS = {
    {"foot", 0.3048L}, {"centi", 0.01L}, {"inch", 0.0254L}, {"day", 86400.0L}, {"hour", 3600.0L}, {"pound", 0.45359237L}, {"gravity", 9.80665L},
    {"bar", 1.0e5L}, {"atm", 101325.0L}, {"millidarcy", 9.869233e-16L}, {"btu", 1054.3503L},
};

int main(int argc, char** argv) {
    if (argc < 3) { std::fprintf(stderr, "usage: units cases out\n"); return 2; }
    install_terminate();
    static_assert(static_cast<int>(M::_count) == 46, "UnitSystem::measure changed: update MEASURES and spec/Units.tla");
    Trace tr(argv[2]);
    const std::vector<double> samples = {0.0, 1.0, -3.5, 60.0, 288.7056, 1.0e-7, 12345.678, 4.0e9};
    for (const auto& c : read_ndjson(argv[1])) {
        json ev = {{"id", c["id"]}};
        try {
            const UnitSystem us(c["sys"].get<std::string>());
            ev["factor"] = double(evalTerm(c["factor"], CONSTANTS));
            ev["offset"] = double(evalTerm(c["offset"], CONSTANTS));
            if (c["kind"] == "measure") {
                const M m = MEASURES.at(c["m"].get<std::string>());
                ev["to_si_1"] = us.to_si(m, 1.0);
                ev["to_si_0"] = us.to_si(m, 0.0);
                ev["from_si_of_to_si_1"] = us.from_si(m, us.to_si(m, 1.0));
                const auto dim = us.getDimension(m);
                ev["dim_scaling"] = dim.getSIScaling();
                ev["dim_offset"] = dim.getSIOffset();
                ev["name"] = us.name(m);
                json rt = json::array(), arr = json::array();
                std::vector<double> v = samples, w;
                us.to_si(m, v);
                w = v;
                us.from_si(m, w);
                for (std::size_t i = 0; i < samples.size(); ++i) {
                    const double x = samples[i], s = us.to_si(m, x), b = us.from_si(m, s);
                    rt.push_back({x, s, b});
                    arr.push_back({v[i], w[i]});
                }
                ev["scalar"] = rt;      // [deck value, to_si, from_si(to_si)]
                ev["array"] = arr;      // [to_si (array overload), from_si(to_si) (array overloads)]
            } else {
                const auto d = us.parse(c["str"].get<std::string>());
                ev["dim_scaling"] = d.getSIScaling();
                ev["dim_offset"] = d.getSIOffset();
            }
            ev["res"] = "ok";
        } catch (const std::exception& e) { ev["res"] = "error"; ev["what"] = std::string(e.what()).substr(0, 300); }
        tr.emit(ev);
    }
    return 0;
}
