// C18 harness, trigger layer: drives the real Action::Actions / ActionX /
// Action::State through define / tick / step / restart scripts the way a
// simulator's action loop does (run every pending action whose condition
// holds) and logs what was pending and what ran.  TLC validates against
// ActionTrigger.
//
//   acttrig <scripts.ndjson> <trace.ndjson> <restart-file-for-header>
// script: {"ops":[["define",name,max_run,min_wait],["tick",dt],["step",[names with true condition]],["restart"]]}
#include "common.hpp"

#include <opm/input/eclipse/EclipseState/Runspec.hpp>
#include <opm/input/eclipse/Schedule/Action/ActionResult.hpp>
#include <opm/input/eclipse/Schedule/Action/ActionX.hpp>
#include <opm/input/eclipse/Schedule/Action/Actions.hpp>
#include <opm/input/eclipse/Schedule/Action/State.hpp>
#include <opm/io/eclipse/ERst.hpp>
#include <opm/io/eclipse/RestartFileView.hpp>
#include <opm/io/eclipse/rst/action.hpp>
#include <opm/io/eclipse/rst/state.hpp>

#include <algorithm>
#include <memory>

using namespace vf;

int main(int argc, char** argv) {
    if (argc < 4) { std::fprintf(stderr, "usage: acttrig scripts trace rstfile\n"); return 2; }
    install_terminate();
    Trace tr(argv[2]);
    // an RstState shell (headers of a shipped restart file); only its `actions` member is used
    auto rst_file = std::make_shared<Opm::EclIO::ERst>(argv[3]);
    const int rstep = rst_file->listOfReportStepNumbers().back();
    auto rst_view = std::make_shared<Opm::EclIO::RestartFileView>(std::move(rst_file), rstep);
    Opm::Runspec runspec;
    Opm::RestartIO::RstState rst_shell(rst_view, runspec, nullptr);

    long id = 0;
    for (const auto& sc : read_ndjson(argv[1])) {
        tr.emit({{"e", "Reset"}, {"id", id++}});
        Opm::Action::Actions actions;
        Opm::Action::State state;
        std::time_t now = 0;
        auto counts = [&] {
            json o = json::array();
            for (const auto& a : actions) {
                const auto c = state.run_count(a);
                o.push_back({{"name", a.name()}, {"id", a.id()}, {"count", c},
                             {"last", c > 0 ? static_cast<long>(state.run_time(a)) : -1}});
            }
            return o;
        };
        for (const auto& op : sc["ops"]) {
            const std::string k = op[0];
            if (k == "define") {
                actions.add(Opm::Action::ActionX(op[1].get<std::string>(), op[2].get<std::size_t>(),
                                                 op[3].get<double>(), now));
                tr.emit({{"e", "Define"}, {"name", op[1]}, {"max_run", op[2]}, {"min_wait", op[3]}, {"now", now},
                         {"state", counts()}});
            } else if (k == "tick") {
                now += op[1].get<long>();
                tr.emit({{"e", "Tick"}, {"dt", op[1]}, {"now", now}});
            } else if (k == "step") {
                const auto truth = op[1].get<std::vector<std::string>>();
                json pend = json::array(), ran = json::array();
                for (const auto* a : actions.pending(state, now)) {
                    pend.push_back(a->name());
                    if (std::find(truth.begin(), truth.end(), a->name()) != truth.end()) {
                        state.add_run(*a, now, Opm::Action::Result{true});
                        ran.push_back(a->name());
                    }
                }
                tr.emit({{"e", "Step"}, {"truth", truth}, {"now", now}, {"pending", pend}, {"ran", ran},
                         {"state", counts()}});
            } else if (k == "restart") {
                // what a restart file carries for every action: name, max_run, run count, min_wait, last run
                rst_shell.actions.clear();
                for (const auto& a : actions) {
                    const auto c = state.run_count(a);
                    rst_shell.actions.emplace_back(a.name(), int(a.max_run()), int(c), a.min_wait(), a.start_time(),
                                                   c > 0 ? state.run_time(a) : std::time_t{0},
                                                   std::vector<Opm::RestartIO::RstAction::Condition>{});
                }
                Opm::Action::State fresh;
                json ev = {{"e", "Restart"}};
                try { fresh.load_rst(actions, rst_shell); ev["res"] = "ok"; }
                catch (const std::exception& e) { ev["res"] = "error"; ev["what"] = e.what(); }
                state = fresh;
                ev["state"] = counts();
                tr.emit(ev);
            }
        }
    }
    tr.flush();
    return 0;
}
