// C07 harness: writes sequences of named arrays with EclOutput, scans the
// bytes with the independent scanner, reads them back with EclFile and
// records what it saw.  Layout, offsets and seek arithmetic are judged by
// TLC against EclFileFormat; value fidelity is judged here by comparing
// the written values with (a) the scanner's own decoding of the bytes and
// (b) what EclFile returns, and enters the trace as booleans.
//
//   eclarr <scripts.ndjson> <trace.ndjson> <workdir>
// script: {"fmt":bool,"ix":bool,"arrays":[[name,type,w,n,valueclass],...]}
#include "common.hpp"
#include "eclscan.hpp"

#include <opm/io/eclipse/EclFile.hpp>
#include <opm/io/eclipse/EclOutput.hpp>

#include <cfloat>
#include <climits>
#include <cmath>
#include <cstring>

using namespace vf;
using Opm::EclIO::EclFile;
using Opm::EclIO::EclOutput;

struct Probe : public EclFile {           // exposes the reader's index
    using EclFile::EclFile;
    std::uint64_t dataPos(std::size_t i) const { return this->ifStreamPos[i]; }
    long seekPos(std::size_t i) const { return static_cast<long>(std::streamoff(this->seekPosition(i))); }
};

struct Arr {
    std::string name, t, vc;
    int w;
    long n;
    std::vector<int> iv;
    std::vector<float> rv;
    std::vector<double> dv;
    std::vector<bool> lv;
    std::vector<std::string> sv;
};

static const int I_EXT[] = {INT_MIN, INT_MAX, 0, -1, 1, 99999999, -99999999, 1000000000};
static float f_ext(long j) {
    static const float v[] = {0.0f, -0.0f, FLT_MIN, -FLT_MIN, FLT_MAX, -FLT_MAX, 1.401298464e-45f, 1.0f, -1.0f,
                              9.9999999e9f, 1.0e-10f, 0.1f, 123456.789f, 3.4e38f, 1.17549421e-38f};
    return v[j % (sizeof v / sizeof v[0])];
}
static double d_ext(long j) {
    static const double v[] = {0.0, -0.0, DBL_MIN, -DBL_MIN, DBL_MAX, -DBL_MAX, 4.9406564584124654e-324, 1.0, -1.0,
                               1e-200, -1e200, 1e100, 1e-100, 9.99999999999999e99, 1e-99, 0.1, 1.0 / 3.0, 1e99, 1e-101};
    return v[j % (sizeof v / sizeof v[0])];
}

static void fill(Arr& a, Rng& rng) {
    const bool ext = a.vc == "extreme", nonfin = a.vc == "nonfinite";
    for (long j = 0; j < a.n; ++j) {
        if (a.t == "INTE") a.iv.push_back(ext ? I_EXT[j % 8] : a.vc == "random" ? int(rng.next()) : int(j * 7 - 3));
        else if (a.t == "REAL") {
            float f;
            if (nonfin) f = (j % 3 == 0) ? INFINITY : (j % 3 == 1) ? -INFINITY : std::nanf("");
            else if (ext) f = f_ext(j);
            else if (a.vc == "random") {
                std::uint32_t u = std::uint32_t(rng.next());
                std::memcpy(&f, &u, 4);
                if (!std::isfinite(f)) f = 1.5f;
            } else f = float(j) * 0.25f - 1.0f;
            a.rv.push_back(f);
        } else if (a.t == "DOUB") {
            double d;
            if (nonfin) d = (j % 3 == 0) ? INFINITY : (j % 3 == 1) ? -INFINITY : std::nan("");
            else if (ext) d = d_ext(j);
            else if (a.vc == "random") {
                std::uint64_t u = rng.next();
                std::memcpy(&d, &u, 8);
                if (!std::isfinite(d)) d = 2.5;
            } else d = double(j) / 3.0 - 7.0;
            a.dv.push_back(d);
        } else if (a.t == "LOGI") a.lv.push_back(a.vc == "random" ? rng.coin() : (j % 3 != 1));
        else if (a.t == "CHAR" || a.t == "C0NN") {
            std::string s;
            if (ext) {
                static const char* v[] = {"", "A", "ABCDEFGH", " LEAD", "A B", "x_y-z+1", "12345678", "*", "W*", "a/b"};
                s = v[j % 10];
                if (a.t == "C0NN" && j % 4 == 0) s = std::string(a.w, char('A' + j % 26));
            } else {
                int len = (a.vc == "random") ? int(rng.below(a.w + 1)) : a.w;
                for (int k = 0; k < len; ++k) s += char('A' + (j + k) % 26);
            }
            if (int(s.size()) > a.w) s.resize(a.w);
            a.sv.push_back(s);
        }
    }
    // a C0nn array is typed by its longest element: make sure one has full width
    if (a.t == "C0NN" && a.n > 0) a.sv[0] = std::string(a.w, 'Z');
}

static bool same_bits(double a, double b) { return std::memcmp(&a, &b, 8) == 0; }
static bool same_bitsf(float a, float b) { return std::memcmp(&a, &b, 4) == 0; }
static bool close_rel(double got, double want, double rel, double abs_floor) {
    if (std::isnan(want)) return std::isnan(got);
    if (std::isinf(want)) return got == want;
    return std::fabs(got - want) <= rel * std::fabs(want) + abs_floor;
}
static std::string pad(std::string s, int w) { s.resize(std::max<int>(w, s.size()), ' '); return s; }

// bytes as decoded by the independent scanner versus what was written
static bool scanner_values_ok(const Arr& a, const ScanArray& s, bool fmt, bool ix) {
    if (a.t == "INTE") { if (s.ivals.size() != a.iv.size()) return false; for (long j = 0; j < a.n; ++j) if (s.ivals[j] != a.iv[j]) return false; return true; }
    if (a.t == "LOGI") {
        if (s.ivals.size() != a.lv.size()) return false;
        for (long j = 0; j < a.n; ++j) {
            long long want = fmt ? (a.lv[j] ? 1 : 0) : (a.lv[j] ? (ix ? 0x1ll : 0xffffffffll) : 0ll);
            if (s.ivals[j] != want) return false;
        }
        return true;
    }
    if (a.t == "REAL") {
        if (s.dvals.size() != a.rv.size()) return false;
        for (long j = 0; j < a.n; ++j)
            if (fmt ? !close_rel(s.dvals[j], a.rv[j], 6e-8, 0.0) : !same_bitsf(float(s.dvals[j]), a.rv[j])) return false;
        return true;
    }
    if (a.t == "DOUB") {
        if (s.dvals.size() != a.dv.size()) return false;
        for (long j = 0; j < a.n; ++j)
            if (fmt ? !close_rel(s.dvals[j], a.dv[j], 6e-14, 0.0) : !same_bits(s.dvals[j], a.dv[j])) return false;
        return true;
    }
    if (a.t == "CHAR" || a.t == "C0NN") {
        if (s.svals.size() != a.sv.size()) return false;
        for (long j = 0; j < a.n; ++j) if (s.svals[j] != pad(a.sv[j], s.w)) return false;
        return true;
    }
    return true;   // MESS
}

static std::string read_back(Probe& f, int i, const Arr& a, bool fmt) {
    try {
        f.loadData(i);
        if (a.t == "INTE") { const auto& v = f.get<int>(i); if (v != a.iv) return "wrong"; }
        else if (a.t == "LOGI") { const auto& v = f.get<bool>(i); if (v != a.lv) return "wrong"; }
        else if (a.t == "REAL") {
            const auto& v = f.get<float>(i);
            if (v.size() != a.rv.size()) return "wrong";
            for (long j = 0; j < a.n; ++j)
                if (fmt ? !close_rel(v[j], a.rv[j], 1.2e-7, 1.5e-45) : !same_bitsf(v[j], a.rv[j])) {
                    if (std::getenv("VERIF_DEBUG")) std::fprintf(stderr, "REAL %s[%ld]: wrote %.9g read %.9g\n", a.name.c_str(), j, a.rv[j], v[j]);
                    return "wrong";
                }
        } else if (a.t == "DOUB") {
            const auto& v = f.get<double>(i);
            if (v.size() != a.dv.size()) return "wrong";
            for (long j = 0; j < a.n; ++j)
                if (fmt ? !close_rel(v[j], a.dv[j], 6e-14, 5e-324) : !same_bits(v[j], a.dv[j])) {
                    if (std::getenv("VERIF_DEBUG")) std::fprintf(stderr, "DOUB %s[%ld]: wrote %.17g read %.17g\n", a.name.c_str(), j, a.dv[j], v[j]);
                    return "wrong";
                }
        } else if (a.t == "CHAR" || a.t == "C0NN") {
            const auto& v = f.get<std::string>(i);
            if (v.size() != a.sv.size()) return "wrong";
            for (long j = 0; j < a.n; ++j) if (rtrim(v[j]) != rtrim(a.sv[j])) return "wrong";
        }
        return "exact";
    } catch (const std::exception& e) {
        return std::string("error");
    }
}

static const char* tname(Opm::EclIO::eclArrType t) {
    using namespace Opm::EclIO;
    switch (t) { case INTE: return "INTE"; case REAL: return "REAL"; case DOUB: return "DOUB"; case CHAR: return "CHAR";
                 case LOGI: return "LOGI"; case MESS: return "MESS"; case C0NN: return "C0NN"; }
    return "?";
}

int main(int argc, char** argv) {
    if (argc < 4) { std::fprintf(stderr, "usage: eclarr scripts trace workdir\n"); return 2; }
    install_terminate();
    const std::string work = argv[3];
    fs::create_directories(work);
    Trace tr(argv[2]);
    long id = 0;
    for (const auto& sc : read_ndjson(argv[1])) {
        const bool fmt = sc["fmt"], ix = sc["ix"];
        Rng rng(sc.value("seed", 1u) + 977 * id);
        const std::string path = work + (fmt ? "/ARR.FDATA" : "/ARR.DATA_U");
        tr.emit({{"e", "Reset"}, {"fmt", fmt}, {"ix", ix}, {"id", id++}});
        std::vector<Arr> arrs;
        {
            EclOutput out(path, fmt, std::ios::out);
            if (ix) out.set_ix();
            for (const auto& s : sc["arrays"]) {
                Arr a;
                a.name = s[0]; a.t = s[1]; a.w = s[2]; a.n = s[3]; a.vc = s[4];
                fill(a, rng);
                json ev = {{"e", "Wrote"}, {"name", a.name}, {"t", a.t}, {"w", a.w}, {"n", a.n}, {"vc", a.vc}};
                try {
                    if (a.t == "INTE") out.write(a.name, a.iv);
                    else if (a.t == "REAL") out.write(a.name, a.rv);
                    else if (a.t == "DOUB") out.write(a.name, a.dv);
                    else if (a.t == "LOGI") out.write(a.name, a.lv);
                    else if (a.t == "CHAR") out.write(a.name, a.sv);
                    else if (a.t == "C0NN") out.write(a.name, a.sv, a.w);
                    else out.message(a.name);
                    ev["res"] = "ok";
                } catch (const std::exception& e) { ev["res"] = "error"; ev["what"] = e.what(); }
                tr.emit(ev);
                arrs.push_back(std::move(a));
            }
        }
        const std::string bytes = slurp(path);
        auto scn = scan_file(bytes, fmt);
        json ev = {{"e", "Closed"}, {"len", scn.size}, {"scan", scn.ok ? "ok" : scn.err}};
        json ja = json::array();
        for (std::size_t i = 0; i < scn.arrays.size(); ++i) {
            const auto& s = scn.arrays[i];
            json o = {{"name", s.name}, {"t", s.type}, {"w", (s.type == "CHAR" || s.type == "C0NN") ? s.w : 0}, {"n", s.n},
                      {"start", s.start}, {"data", s.data}, {"end", s.end}, {"frames", s.frames},
                      {"headEqTail", s.head_eq_tail}};
            o["valuesOk"] = i < arrs.size() && scanner_values_ok(arrs[i], s, fmt, ix);
            ja.push_back(o);
        }
        ev["arrays"] = ja;
        // the library's reader: index and values
        json idx = json::array(), rb = json::array();
        try {
            Probe f(path);
            ev["open"] = "ok";
            ev["fmtDetected"] = f.formattedInput();
            const auto list = f.getList();
            const auto& es = f.getElementSizeList();
            for (std::size_t i = 0; i < list.size(); ++i) {
                const auto t = std::get<1>(list[i]);
                idx.push_back({{"name", std::get<0>(list[i])}, {"t", tname(t)},
                               {"w", (t == Opm::EclIO::CHAR || t == Opm::EclIO::C0NN) ? es[i] : 0},
                               {"n", std::get<2>(list[i])}, {"dataPos", f.dataPos(i)}, {"seekPos", f.seekPos(i)}});
                rb.push_back(i < arrs.size() ? read_back(f, int(i), arrs[i], fmt) : std::string("extra"));
            }
        } catch (const std::exception& e) { ev["open"] = "error"; ev["what"] = e.what(); }
        ev["index"] = idx;
        ev["readBack"] = rb;
        tr.emit(ev);
    }
    tr.flush();
    return 0;
}
