// C03 harness: builds the real Schedule from a full SCHEDULE input, from
// every prefix cut at a report-step boundary and from prefixes continued
// with a different tail, and records a member-wise digest of every
// snapshot.  TLC validates the causality relation over the events
// (Trace_Schedule): the observation of step k is the same in every run
// whose input agrees up to the end of step k.
//
//   schedobs <scripts.ndjson> <trace.ndjson>
// script: {"head":text, "blocks":[text...], "alts":[{"k":k,"blocks":[text...]}...]}
#include "schedpack.hpp"

#include <opm/input/eclipse/Deck/Deck.hpp>
#include <opm/input/eclipse/EclipseState/EclipseState.hpp>
#include <opm/input/eclipse/Parser/Parser.hpp>
#include <opm/input/eclipse/Python/Python.hpp>

using namespace vf;
using namespace Opm;

static std::string make_deck(const std::string& head, const std::vector<std::string>& blocks) {
    std::string s = head;
    for (const auto& b : blocks) s += b + "TSTEP\n 1 /\n";
    return s;
}

int main(int argc, char** argv) {
    if (argc < 3) { std::fprintf(stderr, "usage: schedobs scripts trace\n"); return 2; }
    install_terminate();
    Trace tr(argv[2]);
    Parser parser;
    auto python = std::make_shared<Python>();
    long id = 0;
    for (const auto& sc : read_ndjson(argv[1])) {
        tr.emit({{"e", "Reset"}, {"id", id++}});
        const std::string head = sc["head"];
        const auto blocks = sc["blocks"].get<std::vector<std::string>>();
        const int n = int(blocks.size());
        auto run = [&](const std::string& name, int prefix, const std::vector<std::string>& bl) {
            json ev = {{"e", "Build"}, {"run", name}, {"prefix", prefix}, {"nblocks", bl.size()}};
            try {
                const auto deck = parser.parseString(make_deck(head, bl));
                const EclipseState es(deck);
                const Schedule sched(deck, es, python);
                ev["res"] = "ok";
                ev["nsteps"] = sched.size();
                tr.emit(ev);
                for (std::size_t k = 0; k < sched.size(); ++k)
                    tr.emit({{"e", "Snap"}, {"run", name}, {"step", k}, {"proj", project_state(sched[k])}});
            } catch (const std::exception& e) {
                ev["res"] = "error";
                ev["what"] = std::string(e.what()).substr(0, 300);
                tr.emit(ev);
            }
        };
        run("full", n, blocks);
        for (int k = 1; k < n; ++k)
            run("prefix" + std::to_string(k), k, std::vector<std::string>(blocks.begin(), blocks.begin() + k));
        if (sc.contains("alts"))
            for (const auto& a : sc["alts"]) {
                const int k = a["k"];
                std::vector<std::string> bl(blocks.begin(), blocks.begin() + k);
                for (const auto& t : a["blocks"]) bl.push_back(t.get<std::string>());
                run("alt" + std::to_string(k), k, bl);
            }
    }
    tr.flush();
    return 0;
}
