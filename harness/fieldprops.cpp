// C12 harness: parses generated decks, builds the real EclipseState and
// compares every property array the program touched - active cells in
// natural order, values and defaulted flags - with the content TLC computed
// from the reference interpreter (spec/Oracle_FieldProps.tla).
//
//   fieldprops <cases.ndjson> <expected.ndjson> <trace.ndjson>
#include "common.hpp"

#include <opm/input/eclipse/Deck/Deck.hpp>
#include <opm/input/eclipse/EclipseState/EclipseState.hpp>
#include <opm/input/eclipse/EclipseState/Grid/FieldPropsManager.hpp>
#include <opm/input/eclipse/Parser/Parser.hpp>

#include <cmath>
#include <map>
#include <set>

using namespace vf;
using namespace Opm;

int main(int argc, char** argv) {
    if (argc < 4) { std::fprintf(stderr, "usage: fieldprops cases expected trace\n"); return 2; }
    install_terminate();
    std::map<long, json> expected;
    for (const auto& e : read_ndjson(argv[2])) expected[e["id"].get<long>()] = e;
    Trace tr(argv[3]);
    Parser parser;
    const std::set<std::string> dbl = {"PRATIO", "BIOTCOEF", "NTG", "MULTX", "SWATINIT"};
    tr.emit({{"e", "Reset"}, {"id", 0}});
    for (const auto& c : read_ndjson(argv[1])) {
        const long id = c["id"];
        json ev = {{"e", "Build"}, {"id", id}};
        const auto it = expected.find(id);
        if (it == expected.end()) { ev["ok"] = false; ev["why"] = "no expectation"; tr.emit(ev); continue; }
        const json& exp = it->second;
        const std::string want = exp["res"];
        if (want == "unspecified") { ev["ok"] = true; ev["skipped"] = true; tr.emit(ev); continue; }
        bool ok = true;
        std::string why;
        try {
            const auto deck = parser.parseString(c["deck"].get<std::string>());
            const EclipseState es(deck);
            const auto& fp = es.fieldProps();
            if (want == "error") { ok = false; why = "expected an input error, but the state was built"; }
            for (auto a = exp["arrays"].begin(); ok && a != exp["arrays"].end(); ++a) {
                const std::string kw = a.key();
                const bool complete = a.value()["complete"];
                const bool is_dbl = dbl.count(kw) > 0;
                std::vector<double> got;
                std::vector<bool> dflt;
                bool got_complete = true;
                try {
                    if (is_dbl) { const auto& v = fp.get_double(kw); got.assign(v.begin(), v.end()); dflt = fp.defaulted<double>(kw); }
                    else { const auto& v = fp.get_int(kw); got.assign(v.begin(), v.end()); dflt = fp.defaulted<int>(kw); }
                } catch (const std::exception& e) { got_complete = false; }
                if (complete != got_complete) {
                    ok = false;
                    why = kw + ": expected " + (complete ? "a complete array" : "an incomplete array") + " but got the opposite";
                    break;
                }
                if (!complete) continue;
                const auto& vals = a.value()["vals"];
                const auto& dd = a.value()["defaulted"];
                if (vals.size() != got.size()) { ok = false; why = kw + ": size " + std::to_string(got.size()) + " expected " + std::to_string(vals.size()); break; }
                for (std::size_t k = 0; k < got.size(); ++k) {
                    if (std::fabs(got[k] - vals[k].get<double>()) > 1e-9 * std::max(1.0, std::fabs(got[k]))) {
                        ok = false; why = kw + "[active " + std::to_string(k) + "]: got " + std::to_string(got[k]) + " expected " + vals[k].dump(); break;
                    }
                    if (dflt.size() == got.size() && dflt[k] != dd[k].get<bool>()) {
                        ok = false; why = kw + "[active " + std::to_string(k) + "]: defaulted flag " + (dflt[k] ? "true" : "false") + " expected " + dd[k].dump(); break;
                    }
                }
            }
        } catch (const std::exception& e) {
            if (want != "error") { ok = false; why = std::string("exception: ") + e.what(); }
        }
        ev["ok"] = ok;
        if (!ok) ev["why"] = why.substr(0, 400);
        tr.emit(ev);
    }
    tr.flush();
    return 0;
}
