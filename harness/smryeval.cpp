// C09 harness: evaluates the summary vectors of a generated model with the
// real out::Summary / SummaryState for a given history of simulator results
// and reports the values of the requested vectors after every evaluation.
//
//   smryeval <scripts.ndjson> <out.ndjson> <workdir>
// script: {"id", "deck", "keys":[...], "evals":[{"rs", "dt", "wells":{name:{"shut","absent","o","w","g","ro","rw","rg"}}}]}
// Rates are integers in deck units (negative = produced); they are converted
// to SI with the deck's UnitSystem.  dt is in the deck's time unit.
#include "common.hpp"

#include <opm/output/data/Groups.hpp>
#include <opm/output/data/Wells.hpp>
#include <opm/output/eclipse/Inplace.hpp>
#include <opm/output/eclipse/Summary.hpp>

#include <opm/common/OpmLog/OpmLog.hpp>
#include <opm/common/utility/TimeService.hpp>
#include <opm/input/eclipse/Deck/Deck.hpp>
#include <opm/input/eclipse/EclipseState/EclipseState.hpp>
#include <opm/input/eclipse/EclipseState/Grid/EclipseGrid.hpp>
#include <opm/input/eclipse/EclipseState/SummaryConfig/SummaryConfig.hpp>
#include <opm/input/eclipse/Parser/Parser.hpp>
#include <opm/input/eclipse/Python/Python.hpp>
#include <opm/input/eclipse/Schedule/Schedule.hpp>
#include <opm/input/eclipse/Schedule/SummaryState.hpp>
#include <opm/input/eclipse/Schedule/Well/Well.hpp>
#include <opm/input/eclipse/Units/UnitSystem.hpp>

using namespace vf;
using namespace Opm;
using rt = data::Rates::opt;

int main(int argc, char** argv) {
    if (argc < 4) { std::fprintf(stderr, "usage: smryeval scripts out workdir\n"); return 2; }
    install_terminate();
    OpmLog::removeAllBackends();
    Trace tr(argv[2]);
    const std::string work = argv[3];
    fs::create_directories(work);
    for (const auto& sc : read_ndjson(argv[1])) {
        const long id = sc["id"];
        try {
            const auto deck = Parser{}.parseString(sc["deck"].get<std::string>());
            const EclipseState es{deck};
            const Schedule sched{deck, es, std::make_shared<Python>()};
            SummaryConfig cfg{deck, sched, es.fieldProps(), es.aquifer()};
            out::Summary smry{cfg, es, es.getInputGrid(), sched, work + "/CASE"};
            SummaryState st{TimeService::from_time_t(sched.getStartTime()), es.runspec().udqParams().undefinedValue()};
            const auto& us = es.getUnits();
            using M = UnitSystem::measure;
            double elapsed = 0.0;
            int j = 0;
            for (const auto& e : sc["evals"]) {
                ++j;
                elapsed += us.to_si(M::time, e["dt"].get<double>());
                data::Wells xw;
                for (const auto& [name, w] : e["wells"].items()) {
                    if (w["absent"].get<bool>()) continue;
                    auto& x = xw[name];
                    x.rates.set(rt::oil, us.to_si(M::liquid_surface_rate, w["o"].get<double>()));
                    x.rates.set(rt::wat, us.to_si(M::liquid_surface_rate, w["w"].get<double>()));
                    x.rates.set(rt::gas, us.to_si(M::gas_surface_rate, w["g"].get<double>()));
                    x.rates.set(rt::reservoir_oil, us.to_si(M::rate, w["ro"].get<double>()));
                    x.rates.set(rt::reservoir_water, us.to_si(M::rate, w["rw"].get<double>()));
                    x.rates.set(rt::reservoir_gas, us.to_si(M::rate, w["rg"].get<double>()));
                    x.bhp = 1.0e7;
                    x.dynamicStatus = w["shut"].get<bool>() ? Well::Status::SHUT : Well::Status::OPEN;
                    x.current_control.isProducer = sched.getWell(name, e["rs"].get<int>() - 1).isProducer();
                }
                smry.eval(st, e["rs"].get<int>(), elapsed, xw, {}, {}, {}, {}, {});
                json vec = json::object();
                for (const auto& k : sc["keys"]) {
                    const std::string key = k;
                    if (st.has(key)) vec[key] = st.get(key); else vec[key] = "missing";
                }
                tr.emit({{"e", "Eval"}, {"case", id}, {"eval", j}, {"res", "ok"}, {"vec", vec}});
            }
        } catch (const std::exception& e) {
            tr.emit({{"e", "Eval"}, {"case", id}, {"eval", 0}, {"res", "error"}, {"what", std::string(e.what()).substr(0, 500)}});
        }
    }
    return 0;
}
