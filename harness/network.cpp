// Beyond the listed properties: the production network.  Applies BRANPROP /
// NODEPROP / GRUPNET records, one per report step, through the real keyword
// handlers and reports the ExtNetwork of every step (branches in order,
// nodes, order of first appearance, roots, active / standard flags) -
// validated against spec/Network.tla.
//
//   network <scripts.ndjson> <trace.ndjson>
// script: {"id","names":[...],"ops":[...],"decks":[deck with the first 1, 2, .. n operations]}
#include "common.hpp"

#include <opm/common/OpmLog/OpmLog.hpp>
#include <opm/input/eclipse/Deck/Deck.hpp>
#include <opm/input/eclipse/EclipseState/EclipseState.hpp>
#include <opm/input/eclipse/Parser/Parser.hpp>
#include <opm/input/eclipse/Python/Python.hpp>
#include <opm/input/eclipse/Schedule/Network/Branch.hpp>
#include <opm/input/eclipse/Schedule/Network/ExtNetwork.hpp>
#include <opm/input/eclipse/Schedule/Network/Node.hpp>
#include <opm/input/eclipse/Schedule/Schedule.hpp>
#include <opm/input/eclipse/Schedule/ScheduleState.hpp>
#include <opm/input/eclipse/Units/UnitSystem.hpp>

#include <cmath>
#include <memory>
#include <optional>

using namespace vf;

static std::unique_ptr<Opm::Schedule> build(const std::string& text) {
    Opm::Parser parser;
    const auto deck = parser.parseString(text);
    const Opm::EclipseState es(deck);
    return std::make_unique<Opm::Schedule>(deck, es, std::make_shared<Opm::Python>());
}

static json observe(const Opm::Schedule& sched, std::size_t step, const std::vector<std::string>& names) {
    const auto& net = sched[step].network();
    const auto& us = sched.getUnits();
    json o = json::object();
    json bs = json::array();
    for (const auto* b : net.branches()) bs.push_back({b->downtree_node(), b->uptree_node(), b->vfp_table().value_or(9999)});
    o["branches"] = bs;
    json ns = json::array();
    for (const auto& n : names) {
        if (!net.has_node(n)) continue;
        const auto& node = net.node(n);
        const auto p = node.terminal_pressure();
        ns.push_back({n, p.has_value() ? long(std::llround(us.from_si(Opm::UnitSystem::measure::pressure, *p))) : -1L, node.add_gas_lift_gas()});
    }
    o["nodes"] = ns;
    o["order"] = net.node_names();
    json rs = json::array();
    if (net.NoOfNodes() > 0)
        for (const auto& r : net.roots()) rs.push_back(r.get().name());
    o["roots"] = rs;
    o["active"] = net.active();
    o["standard"] = net.is_standard_network();
    return o;
}

int main(int argc, char** argv) {
    if (argc < 3) { std::fprintf(stderr, "usage: network scripts trace\n"); return 2; }
    install_terminate();
    Opm::OpmLog::removeAllBackends();
    Trace tr(argv[2]);
    for (const auto& sc : read_ndjson(argv[1])) {
        tr.emit({{"e", "Reset"}, {"id", sc["id"]}, {"netkw", sc["netkw"]}});
        const std::vector<std::string> names = sc["names"];
        const auto& ops = sc["ops"];
        const auto& decks = sc["decks"];
        // the longest prefix of the operations the library accepts
        std::unique_ptr<Opm::Schedule> sched;
        std::size_t good = 0;
        try { sched = build(decks[ops.size() - 1]); good = ops.size(); }
        catch (const std::exception&) {
            for (std::size_t n = 1; n <= ops.size(); ++n) {
                try { auto s = build(decks[n - 1]); sched = std::move(s); good = n; }
                catch (const std::exception&) { break; }
            }
        }
        for (std::size_t i = 0; i < ops.size(); ++i) {
            json ev = {{"e", "Op"}, {"op", ops[i]}};
            if (i < good) {
                ev["res"] = "ok";
                ev["obs"] = observe(*sched, i + 1, names);
                tr.emit(ev);
            } else {
                ev["res"] = "error";
                tr.emit(ev);
                break;          // what follows a refused keyword was never applied
            }
        }
    }
    return 0;
}
