// Beyond the listed properties: which report steps get restart output, and
// with which requested arrays.  Builds the Schedule of a generated deck
// (RPTSOL / RPTRST in SOLUTION; RPTRST / RPTSCHED / SAVE per report step) and
// reports, per block, the configuration the library holds and what
// Schedule::write_rst_file answers - validated against spec/RstOutput.tla.
//
//   rstout <scripts.ndjson> <trace.ndjson>
// script: {"id","deck","m0","sol":[ops],"blocks":[{"ops":[...],"dm":n}]}    (ops are echoed into the trace)
#include "common.hpp"

#include <opm/common/OpmLog/OpmLog.hpp>
#include <opm/input/eclipse/Deck/Deck.hpp>
#include <opm/input/eclipse/EclipseState/EclipseState.hpp>
#include <opm/input/eclipse/Parser/Parser.hpp>
#include <opm/input/eclipse/Python/Python.hpp>
#include <opm/input/eclipse/Schedule/RSTConfig.hpp>
#include <opm/input/eclipse/Schedule/Schedule.hpp>
#include <opm/input/eclipse/Schedule/ScheduleState.hpp>

using namespace vf;

static json pairs(const std::map<std::string, int>& m) {
    json a = json::array();
    for (const auto& [k, v] : m) a.push_back({k, v});
    return a;
}

int main(int argc, char** argv) {
    if (argc < 3) { std::fprintf(stderr, "usage: rstout scripts trace\n"); return 2; }
    install_terminate();
    Opm::OpmLog::removeAllBackends();
    Trace tr(argv[2]);
    for (const auto& sc : read_ndjson(argv[1])) {
        tr.emit({{"e", "Reset"}, {"id", sc["id"]}});
        try {
            Opm::Parser parser;
            const auto deck = parser.parseString(sc["deck"].get<std::string>());
            const Opm::EclipseState es(deck);
            const Opm::Schedule sched(deck, es, std::make_shared<Opm::Python>());
            tr.emit({{"e", "Sol"}, {"ops", sc["sol"]}, {"m0", sc["m0"]}, {"kw0", pairs(sched.rst_keywords(0))}});
            const auto& blocks = sc["blocks"];
            for (std::size_t k = 0; k < blocks.size() && k < sched.size(); ++k) {
                const auto& c = sched[k].rst_config();
                json cfg = {{"basic", c.basic.value_or(-1)}, {"freq", c.freq.value_or(-1)},
                            {"write", c.write_rst_file.has_value() ? (*c.write_rst_file ? "yes" : "no") : "none"}, {"kw", pairs(c.keywords)}};
                tr.emit({{"e", "Block"}, {"k", k}, {"ops", blocks[k]["ops"]}, {"cfg", cfg}, {"w", sched.write_rst_file(k)}});
                if (k + 1 < blocks.size() && k + 1 < sched.size())
                    tr.emit({{"e", "Advance"}, {"dm", blocks[k]["dm"]}, {"fy", sched[k + 1].first_in_year()}, {"fm", sched[k + 1].first_in_month()}});
            }
        } catch (const std::exception& e) {
            tr.emit({{"e", "Error"}, {"what", std::string(e.what()).substr(0, 300)}});
        }
    }
    return 0;
}
