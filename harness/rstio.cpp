// C05 harness: a random, schedule-consistent simulator state is saved with
// RestartIO::save at report steps 1..n (unified or separate, formatted or not,
// single or double precision), loaded back with RestartIO::load, and a
// restarted Schedule is built from the file; everything is reported in deck
// units as integers (the generated values are integers, exact in single
// precision).
//
//   rstio <scripts.ndjson> <trace.ndjson> <workdir>
// script: {"id","deck","steps":n,"load":[m,...],"fmt":b,"unif":b,"dbl":b,"seed":s}
// events: Reset, Save{step,state}, Load{step,state,res}, RestartSchedule{step,cmp,same,res}
#include "schedpack.hpp"

#include <opm/common/OpmLog/OpmLog.hpp>
#include <opm/common/utility/TimeService.hpp>
#include <opm/input/eclipse/Deck/Deck.hpp>
#include <opm/input/eclipse/EclipseState/EclipseState.hpp>
#include <opm/input/eclipse/EclipseState/Grid/EclipseGrid.hpp>
#include <opm/input/eclipse/EclipseState/IOConfig/IOConfig.hpp>
#include <opm/input/eclipse/EclipseState/InitConfig/InitConfig.hpp>
#include <opm/input/eclipse/Parser/Parser.hpp>
#include <opm/input/eclipse/Python/Python.hpp>
#include <opm/input/eclipse/Schedule/Action/State.hpp>
#include <opm/input/eclipse/Schedule/Group/Group.hpp>
#include <opm/input/eclipse/Schedule/MSW/Segment.hpp>
#include <opm/input/eclipse/Schedule/MSW/WellSegments.hpp>
#include <opm/input/eclipse/Schedule/Action/Actions.hpp>
#include <opm/input/eclipse/Schedule/Action/ActionX.hpp>
#include <opm/input/eclipse/Schedule/UDQ/UDQConfig.hpp>
#include <opm/input/eclipse/Schedule/MSW/SegmentMatcher.hpp>
#include <opm/input/eclipse/Schedule/Well/WellMatcher.hpp>
#include <opm/input/eclipse/EclipseState/Grid/RegionSetMatcher.hpp>
#include <opm/input/eclipse/EclipseState/Grid/FIPRegionStatistics.hpp>
#include <opm/input/eclipse/Schedule/Well/WListManager.hpp>
#include <opm/input/eclipse/Schedule/SummaryState.hpp>
#include <opm/input/eclipse/Schedule/UDQ/UDQState.hpp>
#include <opm/input/eclipse/Schedule/Well/WellTestState.hpp>
#include <opm/io/eclipse/ERst.hpp>
#include <opm/io/eclipse/OutputStream.hpp>
#include <opm/io/eclipse/RestartFileView.hpp>
#include <opm/io/eclipse/rst/state.hpp>
#include <opm/output/data/Groups.hpp>
#include <opm/output/data/Solution.hpp>
#include <opm/output/data/Wells.hpp>
#include <opm/output/eclipse/AggregateAquiferData.hpp>
#include <opm/output/eclipse/RestartIO.hpp>
#include <opm/output/eclipse/RestartValue.hpp>
#include <opm/output/eclipse/Inplace.hpp>
#include <opm/output/eclipse/Summary.hpp>
#include <opm/input/eclipse/EclipseState/SummaryConfig/SummaryConfig.hpp>

#include <cmath>
#include <optional>

using namespace vf;
using namespace Opm;
using M = UnitSystem::measure;
using rt = data::Rates::opt;
namespace OS = Opm::EclIO::OutputStream;

// deck-unit value as an integer; -999999 when it is not (to 2e-6 relative) the integer it was generated as
static long asint(double x) {
    const double r = std::round(x);
    if (std::abs(x - r) <= 2e-6 * std::max(1.0, std::abs(r))) return static_cast<long>(r);
    return -999999;
}

struct Dyn {
    RestartValue rv;
    SummaryState st;
    UDQState udq;
    Action::State acts;
    WellTestState wtest;
};

static const std::vector<const char*> WTOT = {"WOPT", "WWPT", "WGPT", "WVPT", "WWIT", "WGIT", "WOPTH", "WWPTH", "WGPTH", "WWITH", "WGITH"};
static const std::vector<const char*> GTOT = {"GOPT", "GWPT", "GGPT", "GVPT", "GWIT", "GGIT"};
static const std::vector<const char*> FTOT = {"FOPT", "FWPT", "FGPT", "FVPT", "FWIT", "FGIT"};

static json project(const RestartValue& rv, const SummaryState& st, const Action::State& acts, const UDQState& udq, const WellTestState& wtest, const Schedule& sched, std::size_t step, const UnitSystem& us) {
    json o = json::object();
    json sol = json::object();
    for (const char* k : {"PRESSURE", "SWAT", "SGAS", "RS"}) {
        if (!rv.solution.has(k)) continue;
        json a = json::array();
        const auto m = std::string(k) == "PRESSURE" ? M::pressure : std::string(k) == "RS" ? M::gas_oil_ratio : M::identity;
        for (double v : rv.solution.data<double>(k)) a.push_back(asint(us.from_si(m, v) * (m == M::identity ? 1000.0 : 1.0)));
        sol[k] = a;
    }
    o["sol"] = sol;
    json wells = json::object();
    for (const auto& wname : sched.wellNames(step)) {
        const auto& well = sched.getWell(wname, step);
        const auto it = rv.wells.find(wname);
        if (it == rv.wells.end()) { wells[wname] = "absent"; continue; }
        const auto& x = it->second;
        json w = json::object();
        w["o"] = asint(us.from_si(M::liquid_surface_rate, x.rates.get(rt::oil, 0.0)));
        w["w"] = asint(us.from_si(M::liquid_surface_rate, x.rates.get(rt::wat, 0.0)));
        w["g"] = asint(us.from_si(M::gas_surface_rate, x.rates.get(rt::gas, 0.0)));
        w["bhp"] = asint(us.from_si(M::pressure, x.bhp));
        json cs = json::array();
        for (const auto& c : x.connections)
            cs.push_back({long(c.index), asint(us.from_si(M::liquid_surface_rate, c.rates.get(rt::oil, 0.0))),
                          asint(us.from_si(M::liquid_surface_rate, c.rates.get(rt::wat, 0.0))), asint(us.from_si(M::pressure, c.pressure))});
        w["conns"] = cs;
        json ss = json::array();
        if (well.isMultiSegment())
            for (const auto& [n, s] : x.segments)
                ss.push_back({n, asint(us.from_si(M::liquid_surface_rate, s.rates.get(rt::oil, 0.0))),
                              asint(us.from_si(M::liquid_surface_rate, s.rates.get(rt::wat, 0.0))),
                              asint(us.from_si(M::pressure, s.pressures[data::SegmentPressures::Value::Pressure]))});
        w["segs"] = ss;
        json tot = json::object();
        for (const char* k : WTOT) tot[k] = st.has_well_var(wname, k) ? asint(st.get_well_var(wname, k)) : -1;
        w["tot"] = tot;
        wells[wname] = w;
    }
    o["wells"] = wells;
    json groups = json::object();
    for (const auto& g : sched.groupNames(step)) {
        if (g == "FIELD") continue;
        json tot = json::object();
        for (const char* k : GTOT) tot[k] = st.has_group_var(g, k) ? asint(st.get_group_var(g, k)) : -1;
        groups[g] = tot;
    }
    o["groups"] = groups;
    json field = json::object();
    for (const char* k : FTOT) field[k] = st.has(k) ? asint(st.get(k)) : -1;
    o["field"] = field;
    json ja = json::object();
    for (const auto& a : sched[step].actions()) ja[a.name()] = {long(acts.run_count(a)), acts.run_count(a) > 0 ? long(acts.run_time(a) - sched.getStartTime()) : 0L};
    o["actions"] = ja;
    json ju = json::object();
    std::vector<std::string> ukeys;
    for (const auto& d : sched[step].udq().definitions()) ukeys.push_back(d.keyword());
    for (const auto& a : sched[step].udq().assignments()) ukeys.push_back(a.keyword());
    for (const auto& key : ukeys) {
        if (key[0] == 'W') { for (const auto& w : sched.wellNames(step)) ju[key + ":" + w] = udq.has_well_var(w, key) ? asint(udq.get_well_var(w, key) * 100) : -1; }
        else if (key[0] == 'F') ju[key] = udq.has(key) ? asint(udq.get(key) * 100) : -1;
    }
    o["udq"] = ju;
    json jt = json::object();      // wells closed by the simulator and waiting for a WTEST test, with the reason they were closed for
    for (const auto& w : sched.wellNames(step)) {
        const auto r = wtest.restart_well(sched[step].wtest_config(), w);
        if (r.has_value()) jt[w] = {wtest.well_is_closed(w), r->close_reason};
    }
    o["wtest"] = jt;
    return o;
}

static Dyn make_state(const EclipseState& es, const Schedule& sched, std::size_t step, Rng& rng, out::Summary& smry, SummaryState& st, UDQState& udq) {
    const auto& us = es.getUnits();
    const auto& grid = es.getInputGrid();
    const auto nc = grid.getNumActive();
    data::Solution sol;
    auto arr = [&](M m, long lo, long hi, double scale) {
        std::vector<double> v(nc);
        for (auto& x : v) x = us.to_si(m, double(lo + long(rng.below(hi - lo + 1))) / scale);
        return v;
    };
    sol.insert("PRESSURE", M::pressure, arr(M::pressure, 100, 400, 1.0), data::TargetType::RESTART_SOLUTION);
    sol.insert("SWAT", M::identity, arr(M::identity, 0, 1000, 1000.0), data::TargetType::RESTART_SOLUTION);
    sol.insert("SGAS", M::identity, arr(M::identity, 0, 1000, 1000.0), data::TargetType::RESTART_SOLUTION);
    if (es.getSimulationConfig().hasDISGAS()) sol.insert("RS", M::gas_oil_ratio, arr(M::gas_oil_ratio, 0, 200, 1.0), data::TargetType::RESTART_SOLUTION);
    data::Wells xw;
    for (const auto& wname : sched.wellNames(step)) {
        const auto& well = sched.getWell(wname, step);
        if (well.getStatus() == Well::Status::SHUT) continue;      // a shut well has no dynamic state to keep
        auto& x = xw[wname];
        const double sign = well.isProducer() ? -1.0 : 1.0;
        auto liq = [&] { return sign * us.to_si(M::liquid_surface_rate, double(rng.below(900))); };
        x.rates.set(rt::oil, well.isProducer() ? liq() : 0.0);
        x.rates.set(rt::wat, liq());
        x.rates.set(rt::gas, well.isProducer() ? sign * us.to_si(M::gas_surface_rate, double(rng.below(5000))) : 0.0);
        x.bhp = us.to_si(M::pressure, double(100 + rng.below(300)));
        x.thp = us.to_si(M::pressure, double(10 + rng.below(80)));
        x.temperature = 350.0;
        x.control = 1;
        x.dynamicStatus = Well::Status::OPEN;
        x.current_control.isProducer = well.isProducer();
        // the control the simulator found active: the rate target or the pressure limit
        const bool onLimit = rng.below(3) == 0;
        if (well.isProducer()) x.current_control.prod = onLimit ? Well::ProducerCMode::BHP : Well::ProducerCMode::ORAT;
        else x.current_control.inj = onLimit ? Well::InjectorCMode::BHP : Well::InjectorCMode::RATE;
        for (const auto& conn : well.getConnections()) {
            if (!grid.cellActive(conn.global_index())) continue;
            data::Connection c;
            c.index = conn.global_index();
            c.rates.set(rt::oil, well.isProducer() ? liq() : 0.0);
            c.rates.set(rt::wat, liq());
            c.rates.set(rt::gas, 0.0);
            c.pressure = us.to_si(M::pressure, double(100 + rng.below(300)));
            c.cell_pressure = c.pressure;
            c.trans_factor = conn.CF();          // the simulator reports the connection factor it used
            x.connections.push_back(c);
        }
        if (well.isMultiSegment()) {
            const auto& segs = well.getSegments();
            for (int i = 0; i < segs.size(); ++i) {
                const int n = segs[i].segmentNumber();
                auto& s = x.segments[n];
                s.segNumber = n;
                s.rates.set(rt::oil, liq());
                s.rates.set(rt::wat, liq());
                s.rates.set(rt::gas, sign * us.to_si(M::gas_surface_rate, double(rng.below(5000))));
                s.pressures[data::SegmentPressures::Value::Pressure] = us.to_si(M::pressure, double(100 + rng.below(300)));
            }
        }
    }
    // the summary state a simulator would carry: evaluated from the well results, totals accumulated over the step
    smry.eval(st, int(step), sched.seconds(step), xw, {}, {}, {}, {}, {});
    Dyn d{RestartValue{sol, xw, data::GroupAndNetworkValues{}, {}}, st, udq, Action::State{}, WellTestState{}};
    {   // user defined quantities as the simulator evaluates them at the end of the step
        const auto k = step - 1;
        auto segFactory = sched.segmentMatcherFactory(k);
        auto regFactory = [&es] { return std::make_unique<RegionSetMatcher>(es.fipRegionStatistics()); };
        sched[k].udq().eval(k, sched.wellMatcher(k), segFactory, regFactory, st, udq);
        d.st = st;
        d.udq = udq;
    }
    for (const auto& wname : sched.wellNames(step)) {
        if (!sched[step].wtest_config().has(wname)) continue;
        std::vector<WellTestConfig::Reason> rs;
        for (const auto r : {WellTestConfig::Reason::PHYSICAL, WellTestConfig::Reason::ECONOMIC, WellTestConfig::Reason::GROUP})
            if (sched[step].wtest_config().has(wname, r)) rs.push_back(r);
        if (!rs.empty() && rng.below(2) == 0) d.wtest.close_well(wname, rs[rng.below(rs.size())], sched.seconds(step));
    }
    for (const auto& a : sched[step].actions()) {
        const int runs = rng.below(3);
        for (int r = 0; r < runs; ++r) d.acts.add_run(a, sched.getStartTime() + 86400 * (r + 1), Action::Result{true});
    }
    return d;
}

// ---- what a restarted run must agree on with the original run (attribute level, single precision)
static std::string g6(double x) { char b[40]; std::snprintf(b, sizeof b, "%.6g", x); return b; }
static json uda(const UDAValue& u) { return u.is<std::string>() ? json(u.get<std::string>()) : u.is_numeric() ? json(g6(u.getSI())) : json("unset"); }
static json rst_project(const Schedule& sched, std::size_t step) {
    json o = json::object();
    json wells = json::object();
    for (const auto& wname : sched.wellNames(step)) {
        const auto& w = sched.getWell(wname, step);
        json j = {{"status", WellStatus2String(w.getStatus())}, {"producer", w.isProducer()}, {"group", w.groupName()},
                  {"efac", g6(w.getEfficiencyFactor())}, {"msw", w.isMultiSegment()}, {"headI", w.getHeadI()}, {"headJ", w.getHeadJ()}};
        if (w.isProducer()) {
            const auto& p = w.getProductionProperties();
            j["ctrl"] = {{"orat", uda(p.OilRate)}, {"wrat", uda(p.WaterRate)}, {"grat", uda(p.GasRate)}, {"lrat", uda(p.LiquidRate)},
                         {"resv", uda(p.ResVRate)}, {"bhp", uda(p.BHPTarget)}, {"thp", uda(p.THPTarget)}, {"vfp", p.VFPTableNumber},
                         {"pred", p.predictionMode}};       // (the control mode restarts from the control that was active)
            json has = json::array();
            for (const auto m : {Well::ProducerCMode::ORAT, Well::ProducerCMode::WRAT, Well::ProducerCMode::GRAT, Well::ProducerCMode::LRAT,
                                 Well::ProducerCMode::RESV, Well::ProducerCMode::BHP, Well::ProducerCMode::THP, Well::ProducerCMode::GRUP})
                if (p.hasProductionControl(m)) has.push_back(WellProducerCMode2String(m));
            j["controls"] = has;
        } else {
            const auto& p = w.getInjectionProperties();
            j["ctrl"] = {{"rate", uda(p.surfaceInjectionRate)}, {"resv", uda(p.reservoirInjectionRate)}, {"bhp", uda(p.BHPTarget)},
                         {"thp", uda(p.THPTarget)}, {"type", int(p.injectorType)}, {"pred", p.predictionMode}};
            json has = json::array();
            for (const auto m : {Well::InjectorCMode::RATE, Well::InjectorCMode::RESV, Well::InjectorCMode::BHP, Well::InjectorCMode::THP, Well::InjectorCMode::GRUP})
                if (p.hasInjectionControl(m)) has.push_back(WellInjectorCMode2String(m));
            j["controls"] = has;
        }
        json cs = json::array();
        for (const auto& c : w.getConnections())
            cs.push_back({c.getI(), c.getJ(), c.getK(), Connection::State2String(c.state()), g6(c.CF()), g6(c.Kh()), g6(c.rw()), c.complnum(), c.segment()});
        j["conns"] = cs;
        {   // economic limits (WECON) - those the restart file has a slot for (the maximum gas-liquid ratio, the maximum
            // temperature and the minimum reservoir rate have none and come back as "no limit": see DESIGN.md 12.6)
            const auto& e = w.getEconLimits();
            j["econ"] = {g6(e.minOilRate()), g6(e.minGasRate()), g6(e.maxWaterCut()), g6(e.maxGasOilRatio()), g6(e.maxWaterGasRatio()),
                         int(e.workover()), e.endRun(), g6(e.maxSecondaryMaxWaterCut()), g6(e.minLiquidRate())};
        }
        if (w.isMultiSegment()) {
            json ss = json::array();
            const auto& segs = w.getSegments();
            for (int i = 0; i < segs.size(); ++i)
                ss.push_back({segs[i].segmentNumber(), segs[i].branchNumber(), segs[i].outletSegment(), g6(segs[i].totalLength()), g6(segs[i].depth()),
                              g6(segs[i].internalDiameter()), g6(segs[i].roughness())});
            std::sort(ss.begin(), ss.end());        // by segment number: the storage order is not part of the model
            j["segs"] = ss;
        }
        wells[wname] = j;
    }
    o["wells"] = wells;
    json groups = json::object();
    for (const auto& gname : sched.groupNames(step)) {
        const auto& g = sched.getGroup(gname, step);
        json j = {{"parent", g.parent()}, {"efac", g6(g.getGroupEfficiencyFactor())}, {"wells", g.wells()}, {"groups", g.groups()}};
        if (g.isProductionGroup()) {
            const auto& p = g.productionProperties();
            j["prod"] = {{"cmode", Group::ProductionCMode2String(p.cmode)}, {"orat", uda(p.oil_target)}, {"wrat", uda(p.water_target)}, {"grat", uda(p.gas_target)}, {"lrat", uda(p.liquid_target)}};
        }
        groups[gname] = j;
    }
    o["groups"] = groups;
    json acts = json::array();
    for (const auto& a : sched[step].actions()) acts.push_back(json{a.name(), long(a.max_run()), g6(a.min_wait()), json(a.keyword_strings()), long(a.conditions().size())});
    o["actions"] = acts;
    json udq = json::array();
    for (const auto& d : sched[step].udq().definitions()) udq.push_back({d.keyword(), d.input_string()});
    for (const auto& a : sched[step].udq().assignments()) udq.push_back({a.keyword(), "assign"});
    o["udq"] = udq;
    json wl = json::object();
    for (const auto& wname : sched.wellNames(step)) {
        try { wl[wname] = sched[step].wlist_manager().getWListNames(wname); } catch (const std::exception&) { wl[wname] = json::array(); }
    }
    o["wlists"] = wl;
    json wt = json::object();
    for (const auto& wname : sched.wellNames(step)) {
        const auto& cfg = sched[step].wtest_config();
        if (!cfg.has(wname)) continue;
        const auto& c = cfg.get(wname);
        wt[wname] = {g6(c.test_interval), c.num_test, g6(c.startup_time), c.ecl_reasons()};
    }
    o["wtest"] = wt;
    return o;
}

int main(int argc, char** argv) {
    if (argc < 4) { std::fprintf(stderr, "usage: rstio scripts trace workdir\n"); return 2; }
    install_terminate();
    OpmLog::removeAllBackends();
    Trace tr(argv[2]);
    const std::string work = argv[3];
    for (const auto& sc : read_ndjson(argv[1])) {
        const long id = sc["id"];
        tr.emit({{"e", "Reset"}, {"id", id}, {"unif", sc["unif"]}});
        const std::string dir = work + "/rst";
        fs::remove_all(dir);
        fs::create_directories(dir);
        Rng rng(sc.value("seed", 1));
        try {
            const bool fmt = sc["fmt"], unif = sc["unif"], dbl = sc["dbl"];
            Parser parser;
            const auto deck = parser.parseString(sc["deck"].get<std::string>());
            EclipseState es(deck);
            es.getIOConfig().setEclCompatibleRST(false);
            const auto& grid = es.getInputGrid();
            const Schedule sched(deck, es, std::make_shared<Python>());
            const auto& us = es.getUnits();
            const int nsteps = std::min<int>(sc["steps"].get<int>(), int(sched.size()) - 1);
            const OS::ResultSet rset{dir, "BASE"};
            SummaryConfig smcfg(deck, sched, es.fieldProps(), es.aquifer());
            out::Summary smry(smcfg, es, grid, sched, dir + "/SMRY");
            SummaryState st(TimeService::from_time_t(sched.getStartTime()), es.runspec().udqParams().undefinedValue());
            UDQState udq(es.runspec().udqParams().undefinedValue());
            for (int step = 1; step <= nsteps; ++step) {
                auto d = make_state(es, sched, step, rng, smry, st, udq);
                const json proj = project(d.rv, d.st, d.acts, d.udq, d.wtest, sched, step, us);
                {
                    OS::Restart rstFile{rset, step, OS::Formatted{fmt}, OS::Unified{unif}};
                    auto aq = std::optional<RestartIO::Helpers::AggregateAquiferData>{};
                    RestartIO::save(rstFile, step, sched.seconds(step), d.rv, es, grid, sched, d.acts, d.wtest, d.st, d.udq, aq, dbl);
                }
                tr.emit({{"e", "Save"}, {"step", step}, {"state", proj}});
            }
            std::vector<RestartKey> keys = {{"PRESSURE", M::pressure}, {"SWAT", M::identity}, {"SGAS", M::identity}};
            if (es.getSimulationConfig().hasDISGAS()) keys.push_back({"RS", M::gas_oil_ratio});
            for (const auto& mj : sc["load"]) {
                const int m = mj;
                if (m > nsteps) continue;
                json ev = {{"e", "Load"}, {"step", m}};
                try {
                    const auto fname = unif ? OS::outputFileName(rset, fmt ? "FUNRST" : "UNRST")
                                            : OS::outputFileName(rset, (fmt ? "F" : "X") + [&] { char b[8]; std::snprintf(b, sizeof b, "%04d", m); return std::string(b); }());
                    Action::State acts2;
                    WellTestState wtest2;
                    UDQState udq2(es.runspec().udqParams().undefinedValue());
                    SummaryState st2(TimeService::from_time_t(sched.getStartTime()), 0.0);
                    const auto rv2 = RestartIO::load(fname, m, acts2, st2, keys, es, grid, sched);
                    {   // ACTIONX run records come back through the restart state (RestartIO::load leaves its action argument alone)
                        auto rf = std::make_shared<EclIO::ERst>(fname);
                        auto view = std::make_shared<EclIO::RestartFileView>(std::move(rf), m);
                        const auto rst = RestartIO::RstState::load(std::move(view), es.runspec(), parser);
                        acts2.load_rst(sched[m].actions(), rst);
                        udq2.load_rst(rst);
                        wtest2 = WellTestState(sched.getStartTime(), rst);
                    }
                    ev["state"] = project(rv2, st2, acts2, udq2, wtest2, sched, m, us);
                    ev["res"] = "ok";
                } catch (const std::exception& e) { ev["res"] = "error"; ev["what"] = std::string(e.what()).substr(0, 300); }
                tr.emit(ev);
            }
            // ---- the schedule a restarted run builds from the last step written
            if (sc.value("restart_schedule", true)) {
                json ev = {{"e", "RestartSchedule"}, {"step", nsteps}};
                try {
                    std::string rdeck = sc["deck"];
                    const auto pos = rdeck.find("SOLUTION\n");
                    rdeck.insert(pos + 9, "RESTART\n '" + dir + "/BASE' " + std::to_string(nsteps) + " /\n");
                    rdeck.insert(rdeck.find("SCHEDULE\n") + 9, "SKIPREST\n");
                    rdeck.insert(rdeck.find("RUNSPEC\n") + 8, std::string(unif ? "UNIFIN\n" : "") + (fmt ? "FMTIN\n" : ""));
                    const auto deck2 = parser.parseString(rdeck);
                    EclipseState es2(deck2);
                    const auto fname = unif ? OS::outputFileName(rset, fmt ? "FUNRST" : "UNRST")
                                            : OS::outputFileName(rset, (fmt ? "F" : "X") + [&] { char b[8]; std::snprintf(b, sizeof b, "%04d", nsteps); return std::string(b); }());
                    auto rst_file = std::make_shared<EclIO::ERst>(fname);
                    auto rst_view = std::make_shared<EclIO::RestartFileView>(std::move(rst_file), nsteps);
                    const auto rst = RestartIO::RstState::load(std::move(rst_view), es2.runspec(), parser);
                    const Schedule sched2(deck2, es2, std::make_shared<Python>(), false, false, true, std::nullopt, &rst);
                    // (Schedule::cmp, the comparison of the rst_test utility, is not used: it throws on numeric UDA values)
                    ev["sameSize"] = sched.size() == sched2.size();
                    ev["sizes"] = {sched.size(), sched2.size()};
                    // wells, connections, groups from the restart step onwards, through the projection of C03
                    json diffs = json::array();
                    for (std::size_t s = nsteps; s < std::min(sched.size(), sched2.size()); ++s) {
                        const auto p1 = rst_project(sched, s), p2 = rst_project(sched2, s);
                        for (const char* key : {"wells", "groups", "actions", "udq", "wlists", "wtest"})
                            if (p1[key] != p2[key]) diffs.push_back({s, key, json::diff(p1[key], p2[key]).dump().substr(0, 300)});
                    }
                    ev["same"] = diffs.empty();
                    if (!diffs.empty()) ev["diffs"] = diffs;
                    ev["res"] = "ok";
                } catch (const std::exception& e) { ev["res"] = "error"; ev["what"] = std::string(e.what()).substr(0, 300); }
                tr.emit(ev);
            }
        } catch (const std::exception& e) {
            tr.emit({{"e", "Skip"}, {"what", std::string(e.what()).substr(0, 300)}});
        }
    }
    return 0;
}
