// Interpreter for the symbolic terms the TLA+ specifications emit (exact
// rationals, named variables, named real functions), over long double with
// <cmath>.  It knows nothing about opm-common.
#pragma once
#include "common.hpp"

#include <cmath>
#include <map>

namespace vf {
using TermEnv = std::map<std::string, long double>;

// Optional independent relative perturbation of every rational leaf (to tell results that sit on a discontinuity or an
// exact cancellation of the reference expression from results that are simply wrong).
struct Perturb { long double eps = 0.0L; unsigned leaf = 0; };

inline long double evalTerm(const json& t, const TermEnv& env = {}, Perturb* pert = nullptr);

inline long double evalTermRaw(const json& t, const TermEnv& env, Perturb* pert) {
    if (t["t"] == "q") {
        long double v = static_cast<long double>(t["n"].get<long>()) / static_cast<long double>(t["d"].get<long>());
        if (pert) { const unsigned k = pert->leaf++; const long double h = (static_cast<long double>((k * 2654435761u) % 1000u) / 1000.0L) - 0.5L; v = v * (1.0L + pert->eps * h) + pert->eps * 1.0e-3L * h; }
        return v;
    }
    if (t["t"] == "v") {
        const auto it = env.find(t["name"].get<std::string>());
        if (it == env.end()) throw std::runtime_error("unbound variable " + t["name"].get<std::string>());
        return it->second;
    }
    const std::string f = t["f"];
    const auto& a = t["a"];
    auto A = [&](int i) { return evalTerm(a[i], env, pert); };
    if (f == "+") return A(0) + A(1);
    if (f == "-") return A(0) - A(1);
    if (f == "*") return A(0) * A(1);
    if (f == "/") return A(0) / A(1);
    if (f == "neg") return -A(0);
    if (f == "sqrt") return std::sqrt(A(0));
    if (f == "exp") return std::exp(A(0));
    if (f == "log") return std::log(A(0));
    if (f == "log10") return std::log10(A(0));
    if (f == "sin") return std::sin(A(0));
    if (f == "cos") return std::cos(A(0));
    if (f == "tan") return std::tan(A(0));
    if (f == "asin") return std::asin(A(0));
    if (f == "acos") return std::acos(A(0));
    if (f == "atan") return std::atan(A(0));
    if (f == "sinh") return std::sinh(A(0));
    if (f == "cosh") return std::cosh(A(0));
    if (f == "asinh") return std::asinh(A(0));
    if (f == "acosh") return std::acosh(A(0));
    if (f == "pow") return std::pow(A(0), A(1));
    if (f == "atan2") return std::atan2(A(0), A(1));
    if (f == "min") return std::min(A(0), A(1));
    if (f == "twopi") return 6.283185307179586476925286766559005768394L;
    throw std::runtime_error("unknown function in term: " + f);
}

// with a perturbation active every intermediate result also moves by a tiny absolute amount, so that an argument that is
// exactly zero (after an exact cancellation) does not hide a branch cut or a kink behind it
inline long double evalTerm(const json& t, const TermEnv& env, Perturb* pert) {
    const long double v = evalTermRaw(t, env, pert);
    if (pert && t["t"] == "f") {
        const unsigned k = pert->leaf++;
        return v + pert->eps * 1.0e-3L * ((static_cast<long double>((k * 2246822519u) % 1000u) / 1000.0L) - 0.5L);
    }
    return v;
}
} // namespace vf
