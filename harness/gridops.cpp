// C13 harness: builds real EclipseGrid objects from deck text (three input
// forms, two unit systems), replaces the activity mask, saves / loads EGRID
// files, copies the grid, and reports index maps and geometry after every
// step.  Lengths are reported in deck units as integers (the generated
// geometry is integral); the projection refuses values that are not within
// 1e-9 of an integer.  TLC validates the events against spec/Grid.tla.
//
//   gridops <scripts.ndjson> <trace.ndjson> <workdir>
#include "common.hpp"

#include <opm/input/eclipse/Deck/Deck.hpp>
#include <opm/input/eclipse/EclipseState/Grid/EclipseGrid.hpp>
#include <opm/input/eclipse/EclipseState/Grid/NNC.hpp>
#include <opm/input/eclipse/Parser/Parser.hpp>
#include <opm/input/eclipse/Units/UnitSystem.hpp>
#include <opm/io/eclipse/EGrid.hpp>

#include <cmath>
#include <memory>
#include <omp.h>

using namespace vf;
using namespace Opm;

static bool g_inexact = false;
static long toInt(double x) {
    const double r = std::round(x);
    if (std::fabs(x - r) > 1e-7 * std::max(1.0, std::fabs(x))) g_inexact = true;
    return static_cast<long>(r);
}

static json observe(const EclipseGrid& grid, const UnitSystem& us, bool wedge = false) {
    using M = UnitSystem::measure;
    json o;
    g_inexact = false;
    const std::size_t nc = grid.getCartesianSize();
    o["nactive"] = grid.getNumActive();
    json a2g = json::array(), g2a = json::array(), vol = json::array(), avol = json::array(), d2 = json::array(),
         dims = json::array(), act = json::array();
    for (std::size_t a = 0; a < grid.getNumActive(); ++a) a2g.push_back(grid.getGlobalIndex(a));
    bool ijk_ok = true;
    for (std::size_t g = 0; g < nc; ++g) {
        const bool active = grid.cellActive(g);
        act.push_back(active ? 1 : 0);
        g2a.push_back(active ? long(grid.activeIndex(g)) : -1L);
        const auto ijk = grid.getIJK(g);
        if (grid.getGlobalIndex(ijk[0], ijk[1], ijk[2]) != g) ijk_ok = false;
        if (active && grid.activeIndex(ijk[0], ijk[1], ijk[2]) != grid.activeIndex(g)) ijk_ok = false;
        vol.push_back(toInt(4 * us.from_si(M::geometric_volume, grid.getCellVolume(g))));
        if (std::fabs(grid.getCellVolume(g) - grid.getCellVolume(ijk[0], ijk[1], ijk[2])) > 0) ijk_ok = false;
        // every accessor that exists in an (i,j,k) and a global-index form answers the same for the same cell
        try {
            if (grid.getCellThickness(g) != grid.getCellThickness(ijk[0], ijk[1], ijk[2])) ijk_ok = false;
            if (grid.getCellDepth(g) != grid.getCellDepth(ijk[0], ijk[1], ijk[2])) ijk_ok = false;
            if (grid.getCellDims(g) != grid.getCellDims(ijk[0], ijk[1], ijk[2])) ijk_ok = false;
            if (grid.getCellCenter(g) != grid.getCellCenter(ijk[0], ijk[1], ijk[2])) ijk_ok = false;
            if (grid.cellActive(g) != grid.cellActive(ijk[0], ijk[1], ijk[2])) ijk_ok = false;
            if (std::fabs(grid.getCellThickness(g) - grid.getCellDims(g)[2]) > 1e-9 * std::max(1.0, grid.getCellDims(g)[2])) ijk_ok = false;
        } catch (const std::exception&) { ijk_ok = false; }
        d2.push_back(toInt(8 * us.from_si(M::length, grid.getCellDepth(g))));
        const auto cd = grid.getCellDims(g);
        // (the horizontal extents of a wedge cell are lengths of slanted edges, not integers)
        dims.push_back({wedge ? 0L : toInt(4 * us.from_si(M::length, cd[0])), wedge ? 0L : toInt(4 * us.from_si(M::length, cd[1])), toInt(4 * us.from_si(M::length, cd[2]))});
        // the centre's depth is the cell depth
        if (std::fabs(grid.getCellCenter(g)[2] - grid.getCellDepth(g)) > 1e-9 * std::max(1.0, grid.getCellDepth(g))) ijk_ok = false;
    }
    for (const auto v : grid.activeVolume()) avol.push_back(toInt(4 * us.from_si(M::geometric_volume, v)));
    o["a2g"] = a2g; o["g2a"] = g2a; o["vol4"] = vol; o["avol4"] = avol; o["depth8"] = d2; o["dims4"] = dims; o["actnum"] = act;
    o["ijkOk"] = ijk_ok;
    o["exact"] = !g_inexact;
    return o;
}

int main(int argc, char** argv) {
    if (argc < 4) { std::fprintf(stderr, "usage: gridops scripts trace workdir\n"); return 2; }
    install_terminate();
    const std::string work = argv[3];
    fs::create_directories(work);
    Trace tr(argv[2]);
    Parser parser;
    long id = 0;
    for (const auto& sc : read_ndjson(argv[1])) {
        tr.emit({{"e", "Reset"}, {"id", id++}});
        std::unique_ptr<EclipseGrid> grid;
        UnitSystem us(UnitSystem::UnitType::UNIT_TYPE_METRIC);
        bool wedge = false;
        for (const auto& op : sc["ops"]) {
            const std::string k = op["op"];
            json ev = {{"e", k}};
            try {
                if (k == "create") {
                    const auto deck = parser.parseString(op["deck"].get<std::string>());
                    us = deck.getActiveUnitSystem();
                    grid = std::make_unique<EclipseGrid>(deck);
                    for (const char* f : {"dims", "dx", "dy", "dz", "tops", "shift", "actnum", "form", "units", "wp"}) ev[f] = op[f];
                    wedge = false;
                    for (const auto& w : op["wp"]) if (w.get<int>() != 2) wedge = true;
                } else if (k == "reset") {
                    grid->resetACTNUM(op["actnum"].get<std::vector<int>>());
                    ev["actnum"] = op["actnum"];
                } else if (k == "reset_all") {
                    grid->resetACTNUM();
                } else if (k == "copy") {          // EclipseGrid(src, actnum)
                    auto g2 = std::make_unique<EclipseGrid>(*grid, op["actnum"].get<std::vector<int>>());
                    grid = std::move(g2);
                    ev["e"] = "reset";
                    ev["via"] = "copy";
                    ev["actnum"] = op["actnum"];
                } else if (k == "saveload") {
                    const bool fmt = op["fmt"];
                    const std::string path = work + (fmt ? "/G.FEGRID" : "/G.EGRID");
                    // non-neighbouring connections between global cells (0-based), saved with the grid
                    std::vector<NNCdata> nncs;
                    json saved = json::array(), loaded = json::array();
                    for (const auto& n : op["nnc"]) {
                        nncs.emplace_back(n[0].get<std::size_t>(), n[1].get<std::size_t>(), n[2].get<double>());
                        saved.push_back({n[0], n[1]});     // (the transmissibility lives in the INIT file, not in the EGRID file)
                    }
                    grid->save(path, fmt, nncs, us);
                    json mapBefore = grid->getMapAxes() ? json(grid->getMapAxes()->input()) : json::array();
                    const auto nxny = std::array<std::size_t, 2>{grid->getNX(), grid->getNY()};
                    grid = std::make_unique<EclipseGrid>(path);
                    {
                        Opm::EclIO::EGrid eg(path);
                        for (const auto& t : eg.get_nnc_ijk()) {
                            const long g1 = std::get<0>(t) + nxny[0] * (std::get<1>(t) + nxny[1] * std::get<2>(t));
                            const long g2 = std::get<3>(t) + nxny[0] * (std::get<4>(t) + nxny[1] * std::get<5>(t));
                            loaded.push_back({g1, g2});
                        }
                        ev["mapFile"] = eg.get_mapaxes();
                    }
                    ev["fmt"] = fmt;
                    ev["nncSaved"] = saved;
                    ev["nncLoaded"] = loaded;
                    ev["mapBefore"] = mapBefore;
                    ev["mapAfter"] = grid->getMapAxes() ? json(grid->getMapAxes()->input()) : json::array();
                } else if (k == "threads") {
                    omp_set_num_threads(op["n"].get<int>());
                    ev["n"] = op["n"];
                } else if (k == "warm") {
                    // fill the volume cache before the next operation
                    (void)grid->activeVolume();
                }
                ev["res"] = "ok";
                if (grid && k != "threads") ev["obs"] = observe(*grid, us, wedge);
            } catch (const std::exception& e) { ev["res"] = "error"; ev["what"] = e.what(); }
            tr.emit(ev);
        }
    }
    tr.flush();
    return 0;
}
