// C01 / C19 / C20 harness: parses input texts with the real Parser and
// projects the Deck (every keyword, record, item: type, entries with value,
// defaulted flag and SI value bit for bit); optionally writes the Deck back
// as text (operator<<), parses that again and reports the second projection
// and whether a second print reproduces the first.
//
//   deckparse <scripts.ndjson> <out.ndjson> <workdir> [roundtrip]
// script: {"id", "files": {"MAIN.DATA": text, "INC1.INC": text, ...}}
#include "common.hpp"
#include <cmath>

#include <opm/common/OpmLog/OpmLog.hpp>
#include <opm/input/eclipse/Deck/Deck.hpp>
#include <opm/input/eclipse/Deck/DeckItem.hpp>
#include <opm/input/eclipse/Deck/DeckKeyword.hpp>
#include <opm/input/eclipse/Deck/DeckRecord.hpp>
#include <opm/input/eclipse/Deck/UDAValue.hpp>
#include <opm/input/eclipse/Parser/ErrorGuard.hpp>
#include <opm/input/eclipse/Parser/ParseContext.hpp>
#include <opm/input/eclipse/Parser/Parser.hpp>
#include <opm/input/eclipse/Utility/Typetools.hpp>

using namespace vf;

static json project_item(const Opm::DeckItem& it) {
    json j = {{"name", it.name()}};
    json entries = json::array();
    const auto n = it.data_size();
    std::string type;
    switch (it.getType()) {
    case Opm::type_tag::integer: type = "int"; break;
    case Opm::type_tag::string: type = "string"; break;
    case Opm::type_tag::raw_string: type = "raw"; break;
    case Opm::type_tag::fdouble: type = "double"; break;
    case Opm::type_tag::uda: type = "uda"; break;
    default: type = "unknown";
    }
    j["type"] = type;
    // DeckItem keeps one buffer that is converted in place between deck units and SI on demand
    // (get<double>(i) returns whatever the buffer holds), so take all deck values first, then all SI values
    std::vector<double> raw, si, raw2, si2;
    bool has_si = false;
    if (type == "double" && n > 0) {
        raw = it.getData<double>();
        try { si = it.getSIDoubleData(); has_si = true; } catch (const std::exception&) {}
        // ... and once more there and back: the conversion between deck units and SI is invertible
        if (has_si) { raw2 = it.getData<double>(); si2 = it.getSIDoubleData(); }
    }
    for (std::size_t i = 0; i < n; ++i) {
        json e = {{"def", it.defaultApplied(i)}};
        if (it.hasValue(i)) {
            if (type == "int") e["v"] = it.get<int>(i);
            else if (type == "string") e["v"] = it.get<std::string>(i);
            else if (type == "raw") e["v"] = it.get<Opm::RawString>(i);
            else if (type == "double") {
                e["v"] = hexd(raw[i]);
                e["si"] = has_si ? json(hexd(si[i])) : json("none");
                if (has_si) e["again"] = (raw2[i] == raw[i] || std::abs(raw2[i] - raw[i]) <= 1e-12 * std::abs(raw[i]))
                                      && (si2[i] == si[i] || std::abs(si2[i] - si[i]) <= 1e-12 * std::abs(si[i]));
            } else if (type == "uda") {
                const auto u = it.get<Opm::UDAValue>(i);
                if (u.is<std::string>()) e["v"] = u.get<std::string>();
                else if (!u.is_numeric()) e["v"] = "<empty UDA value>";
                else { e["v"] = hexd(u.get<double>()); try { e["si"] = hexd(u.getSI()); } catch (const std::exception&) { e["si"] = "none"; } }
            }
        } else e["v"] = nullptr;
        entries.push_back(e);
    }
    j["e"] = entries;
    return j;
}

static json project(const Opm::Deck& deck) {
    json kws = json::array();
    for (const auto& kw : deck) {
        json recs = json::array();
        for (const auto& rec : kw) {
            json items = json::array();
            for (const auto& it : rec) items.push_back(project_item(it));
            recs.push_back(items);
        }
        kws.push_back({{"name", kw.name()}, {"recs", recs}});
    }
    return kws;
}

static std::string print(const Opm::Deck& d) { std::ostringstream os; os << d; return os.str(); }

int main(int argc, char** argv) {
    if (argc < 4) { std::fprintf(stderr, "usage: deckparse scripts out workdir [roundtrip]\n"); return 2; }
    install_terminate();
    Opm::OpmLog::removeAllBackends();
    const bool roundtrip = argc > 4 && std::string(argv[4]) == "roundtrip";
    Trace tr(argv[2]);
    const std::string work = argv[3];
    Opm::Parser parser;
    for (const auto& sc : read_ndjson(argv[1])) {
        json ev = {{"id", sc["id"]}};
        const std::string dir = work + "/d";
        fs::remove_all(dir);
        fs::create_directories(dir);
        for (const auto& [name, text] : sc["files"].items()) spit(dir + "/" + name, text.get<std::string>());
        try {
            const auto deck = parser.parseFile(dir + "/MAIN.DATA");
            ev["res"] = "ok";
            ev["deck"] = project(deck);
            if (roundtrip) {
                try {
                    const std::string t2 = print(deck);
                    const auto deck2 = parser.parseString(t2);
                    ev["deck2"] = project(deck2);
                    const std::string t3 = print(deck2);
                    ev["fixpoint"] = (t2 == t3);
                    if (t2 != t3 || sc.value("keep_text", false)) { ev["text2"] = t2; ev["text3"] = t3; }
                    ev["rt"] = "ok";
                } catch (const std::exception& e) { ev["rt"] = "error"; ev["rtwhat"] = std::string(e.what()).substr(0, 300); }
            }
        } catch (const std::exception& e) { ev["res"] = "error"; ev["what"] = std::string(e.what()).substr(0, 300); }
        tr.emit(ev);
    }
    return 0;
}
