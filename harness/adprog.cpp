// C16 harness: runs postfix programs over Opm::DenseAd::Evaluation in every
// variant - the unrolled specialisations N = 1..12, the generic static
// implementation N = 13..16 and the dynamically sized one - and compares
// value and every derivative slot with the terms TLC derived from the
// differentiation rules (spec/DualNumbers.tla via Oracle_AD).  The term
// interpreter below knows <cmath> only.
//
//   adprog <cases.ndjson> <expected.ndjson> <trace.ndjson>
#include "common.hpp"
#include "termeval.hpp"

#include <opm/material/densead/Evaluation.hpp>
#include <opm/material/densead/Math.hpp>

#include <cmath>
#include <functional>
#include <map>

using namespace vf;
namespace AD = Opm::DenseAd;

static double qd(const json& q) { return double(q[0].get<long>()) / double(q[1].get<long>()); }

template <class Eval>
static Eval unary(const std::string& f, const Eval& x) {
    if (f == "neg") return -x;
    if (f == "sqrt") return AD::sqrt(x);
    if (f == "exp") return AD::exp(x);
    if (f == "log") return AD::log(x);
    if (f == "log10") return AD::log10(x);
    if (f == "sin") return AD::sin(x);
    if (f == "cos") return AD::cos(x);
    if (f == "tan") return AD::tan(x);
    if (f == "asin") return AD::asin(x);
    if (f == "acos") return AD::acos(x);
    if (f == "atan") return AD::atan(x);
    if (f == "sinh") return AD::sinh(x);
    if (f == "cosh") return AD::cosh(x);
    if (f == "asinh") return AD::asinh(x);
    if (f == "acosh") return AD::acosh(x);
    if (f == "abs") return AD::abs(x);
    throw std::runtime_error("unknown unary " + f);
}

template <class Eval>
static Eval binary(const std::string& f, const Eval& x, const Eval& y) {
    if (f == "+") return x + y;
    if (f == "-") return x - y;
    if (f == "*") return x * y;
    if (f == "/") return x / y;
    if (f == "pow") return AD::pow(x, y);
    if (f == "atan2") return AD::atan2(x, y);
    if (f == "min") return AD::min(x, y);
    if (f == "max") return AD::max(x, y);
    throw std::runtime_error("unknown binary " + f);
}

template <class Eval>
static Eval binaryS(const std::string& f, const std::string& side, const Eval& x, double c) {
    const bool R = side == "R";          // scalar on the right:  x op c
    if (f == "+") return R ? x + c : c + x;
    if (f == "-") return R ? x - c : c - x;
    if (f == "*") return R ? x * c : c * x;
    if (f == "/") return R ? x / c : c / x;
    if (f == "pow") return R ? AD::pow(x, c) : AD::pow(c, x);
    if (f == "min") return R ? AD::min(x, c) : AD::min(c, x);
    if (f == "max") return R ? AD::max(x, c) : AD::max(c, x);
    if (f == "atan2") return R ? AD::atan2(x, c) : AD::atan2(c, x);
    throw std::runtime_error("unknown scalar binary " + f);
}

template <class Eval>
static void compound(const std::string& f, Eval& x, const Eval& y) {
    if (f == "+") x += y; else if (f == "-") x -= y; else if (f == "*") x *= y; else if (f == "/") x /= y;
    else throw std::runtime_error("unknown compound " + f);
}
template <class Eval>
static void compoundS(const std::string& f, Eval& x, double c) {
    if (f == "+") x += c; else if (f == "-") x -= c; else if (f == "*") x *= c; else if (f == "/") x /= c;
    else throw std::runtime_error("unknown compound " + f);
}

// creation of leaves: statically sized types know their size (the generic static
// implementation's createVariable(nVars, ...) / createConstant(nVars, ...) overloads
// do not compile / throw for every nVars != 0, so they are not used here)
template <class Eval> static Eval mkVar(int N, double v, int pos) {
    if constexpr (Eval::numVars == AD::DynamicSize) return Eval::createVariable(N, v, pos);
    else return Eval::createVariable(v, pos);
}
template <class Eval> static Eval mkConst(int N, double v) {
    if constexpr (Eval::numVars == AD::DynamicSize) return Eval::createConstant(N, v);
    else return Eval::createConstant(v);
}

// result of a run: value followed by N derivatives
template <class Eval>
static std::vector<double> runProgram(const json& prog, int N) {
    std::vector<Eval> st;
    for (const auto& op : prog) {
        const std::string o = op["o"];
        if (o == "var") st.push_back(mkVar<Eval>(N, qd(op["q"]), op["i"].get<int>() - 1));
        else if (o == "const") st.push_back(mkConst<Eval>(N, qd(op["q"])));
        else if (o == "un") st.back() = unary<Eval>(op["f"], st.back());
        else if (o == "bin") { Eval y = st.back(); st.pop_back(); st.back() = binary<Eval>(op["f"], st.back(), y); }
        else if (o == "binS") st.back() = binaryS<Eval>(op["f"], op["side"], st.back(), qd(op["q"]));
        else if (o == "cmpd") { Eval y = st.back(); st.pop_back(); compound<Eval>(op["f"], st.back(), y); }
        else if (o == "cmpdS") compoundS<Eval>(op["f"], st.back(), qd(op["q"]));
        else if (o == "binSelf") st.back() = binary<Eval>(op["f"], st.back(), st.back());
        else if (o == "cmpdSelf") compound<Eval>(op["f"], st.back(), st.back());      // aliased operands
        else throw std::runtime_error("unknown op " + o);
    }
    std::vector<double> r;
    r.push_back(st.back().value());
    for (int j = 0; j < N; ++j) r.push_back(st.back().derivative(j));
    return r;
}

using Runner = std::function<std::vector<double>(const json&, int)>;
template <int N> static Runner staticRunner() { return [](const json& p, int n) { return runProgram<AD::Evaluation<double, N>>(p, n); }; }

int main(int argc, char** argv) {
    if (argc < 4) { std::fprintf(stderr, "usage: adprog cases expected trace\n"); return 2; }
    install_terminate();
    std::map<long, json> expected;
    for (const auto& e : read_ndjson(argv[2])) expected[e["id"].get<long>()] = e;
    std::map<int, Runner> stat = {
        {1, staticRunner<1>()}, {2, staticRunner<2>()}, {3, staticRunner<3>()}, {4, staticRunner<4>()},
        {5, staticRunner<5>()}, {6, staticRunner<6>()}, {7, staticRunner<7>()}, {8, staticRunner<8>()},
        {9, staticRunner<9>()}, {10, staticRunner<10>()}, {11, staticRunner<11>()}, {12, staticRunner<12>()},
        {13, staticRunner<13>()}, {14, staticRunner<14>()}, {15, staticRunner<15>()}, {16, staticRunner<16>()}};
    Runner dyn = [](const json& p, int n) { return runProgram<AD::Evaluation<double, AD::DynamicSize, 4u>>(p, n); };
    Trace tr(argv[3]);
    tr.emit({{"e", "Reset"}, {"id", 0}});
    for (const auto& c : read_ndjson(argv[1])) {
        const long id = c["id"];
        const int N = c["n"];
        json ev = {{"e", "Run"}, {"id", id}, {"n", N}};
        auto it = expected.find(id);
        if (it == expected.end()) { ev["ok"] = false; ev["why"] = "no expectation"; tr.emit(ev); continue; }
        bool ok = true, fragile = false;
        std::string why;
        try {
            std::vector<long double> exp;
            exp.push_back(evalTerm(it->second["v"]));
            for (const auto& d : it->second["d"]) exp.push_back(evalTerm(d));
            const auto rs = stat.at(N)(c["prog"], N);
            const auto rd = dyn(c["prog"], N);
            auto cmp = [&](const std::vector<double>& r, const char* variant) {
                for (std::size_t k = 0; k < exp.size() && ok; ++k) {
                    const long double e = exp[k];
                    const long double tol = 2e-10L * (1.0L + std::fabs(e));
                    if (!(std::fabs(static_cast<long double>(r[k]) - e) <= tol)) {
                        // does the reference itself jump when its constants move by 2^-28 (a branch cut of atan2, a kink of
                        // abs / min / max, an exact cancellation in front of one)?  Then the comparison is not meaningful.
                        const json& term = (k == 0) ? it->second["v"] : it->second["d"][k - 1];
                        bool jumps = false;
                        for (long double eps : {3.7e-9L, -3.7e-9L}) {
                            Perturb pt{eps, 0};
                            const long double ep = evalTerm(term, {}, &pt);
                            if (!(std::fabs(ep - e) <= 1.0e-5L * (1.0L + std::fabs(e)))) jumps = true;
                        }
                        if (jumps) { fragile = true; continue; }
                        ok = false;
                        why = std::string(variant) + (k == 0 ? " value" : " derivative " + std::to_string(k - 1)) +
                              ": got " + hexd(r[k]) + " = " + std::to_string(r[k]) + " expected " + std::to_string(static_cast<double>(e));
                    }
                }
            };
            cmp(rs, N <= 12 ? "specialisation" : "generic-static");
            cmp(rd, "dynamic");
            // the variants agree with each other exactly
            for (std::size_t k = 0; k < rs.size() && ok; ++k)
                if (!(rs[k] == rd[k]) && !(std::isnan(rs[k]) && std::isnan(rd[k]))) {
                    ok = false;
                    why = "static and dynamic variants differ in slot " + std::to_string(k) + ": " + hexd(rs[k]) + " vs " + hexd(rd[k]);
                }
        } catch (const std::exception& e) { ok = false; why = std::string("exception: ") + e.what(); }
        ev["ok"] = ok;
        if (fragile) ev["fragile"] = true;
        if (!ok) ev["why"] = why;
        tr.emit(ev);
    }
    tr.flush();
    return 0;
}
