#!/usr/bin/env python3
"""Regenerates /verif/MANIFEST.json from the table below (single source of truth)."""
import json
import os

HERE = os.path.dirname(os.path.dirname(os.path.abspath(__file__)))
ALL = ["C%02d" % i for i in range(1, 21)]

CLAIMED = {
    "C04": dict(
        category="model_checking",
        text=("Schedule.tla generates inputs with ACTIONX definitions (bodies over the supported action keywords, wells by "
              "name or '?'); Trace_ActionApply.tla states the relation between the original, the applied and the inlined "
              "schedule (earlier states untouched, same number of report steps, every state equal with the action marker "
              "masked, an application is an input error exactly when the inlined deck is).  The real "
              "Schedule::applyAction is run for 1..3 applications per input with non-decreasing step at every step where "
              "the action exists, random match sets; the deck with the keywords inlined is parsed into a second Schedule; "
              "TLC validates all snapshots (member-wise digests as in C03)."),
        design_ref="DESIGN.md section 5, C04",
        note=("Trusted: TLC; observation through serialisation/accessors (C03); renderer.  Bodies with WPIMULT are applied only at "
              "report steps without a WPIMULT of their own and at most once per step, COMPDAT bodies not to wells whose connections are all "
              "shut (the property's per-step exemptions); for histories with a WELPI application only the immutability of earlier steps, the "
              "number of steps and the acceptance of the inlined deck are compared."),
        technique="TLA+ input generator + inlining relation checked by TLC over traces of the real Schedule::applyAction",
    ),
    "C01": dict(
        category="model_checking",
        text=("DeckSyntax.tla: input texts as files of lines of lexemes, their Meaning (records up to the slash across lines, comments and "
              "text after the slash ignored, n*v / n* running on into following items, early record end, record counts by size class from "
              "the committed DeckSchema.tla, INCLUDE files) and the layout rewrites of the property as actions with their side "
              "conditions.  TLC checks that every composition of <= 2 rewrites keeps Meaning and generates rewrite chains by "
              "simulation; every text is rendered to characters (blanks, tabs, indentation, awkward comment / trailing texts), parsed "
              "by the real Parser (harness/deckparse) and its projected Deck compared with the Meaning TLC computed and, bit for bit "
              "incl. defaulted flags and SI values, with the Deck of the base text."),
        design_ref="DESIGN.md section 5, C01",
        note=("Trusted: TLC; the renderer; DeckSchema.tla generated once from the shipped keyword definitions.  Grammar: 18 keywords over "
              "the size classes fixed / sized by other keyword / slash-terminated / data array / raw-string / TITLE; shipped decks, "
              "double-slash-terminated and table-collection keywords are not re-laid-out."),
        technique="TLC model checking of the rewrite system + TLC-generated behaviours replayed into the real Parser with TLC's Meaning as oracle",
    ),
    "C02": dict(
        category="model_checking",
        text=("Units.tla: each unit system's base units as terms over physical constants; every measure and named dimension a product "
              "of powers of base quantities (the compositional law), offsets only for the relative temperature.  TLC emits the factor "
              "/ offset terms for all 4 x 46 (system, measure) pairs and all composite dimension strings of the shipped keyword "
              "definitions; harness/units evaluates them and compares UnitSystem::to_si / from_si (scalar and array overloads), "
              "getDimension and parse; a physical model written as a deck in the four unit systems must give the same SI values - for given "
              "and for defaulted entries (non-zero keyword defaults) - and every double entry of those decks is converted deck units -> SI "
              "-> deck units -> SI without change."),
        design_ref="DESIGN.md section 5, C02",
        note=("Trusted: TLC, the long double term interpreter, the physical constants listed in the evidence.  Output-file conversion is "
              "observed through the array overloads only; schedule / table values in several unit systems are exercised by C06 and C09."),
        technique="TLC oracle (dimension algebra over physical constants) against UnitSystem, exhaustive over systems x measures x dimension strings",
    ),
    "C03": dict(
        category="model_checking",
        text=("Schedule.tla generates SCHEDULE inputs (blocks of abstract keywords with their prerequisites; TLC checks "
              "well-formedness exhaustively in small bounds and produces inputs by simulation); Trace_Schedule.tla states "
              "causality over observations.  The real Schedule is built from each whole input, from every prefix cut at a "
              "report-step boundary and from prefixes continued with different tails; every snapshot is observed through a "
              "member-wise digest of the library's own serialisation (addresses canonicalised, wells and groups one by "
              "one) and TLC validates that the observation of step j is the same in every run sharing blocks 1..j+1, and "
              "that every prefix of an accepted input is accepted.  Shipped decks are cut the same way."),
        design_ref="DESIGN.md section 5, C03",
        note=("Trusted: TLC; the serialisation of ScheduleState as the observation (state that is not serialised is not "
              "observed); the deck renderer.  For keywords outside the alphabet the oracle is agreement between runs of the "
              "same code."),
        technique="TLA+ input generator + causality relation checked by TLC over traces of the real Schedule (trace validation)",
    ),
    "C09": dict(
        category="model_checking",
        text=("Summary.tla: running totals and vector values as a state machine over a group tree with efficiency factors (exact "
              "integer arithmetic over a fixed denominator), production/injection split by sign, history vectors from the "
              "schedule's observed rates, derived vectors (liquid, water cut, GOR, GLR), calendar vectors.  MC_Summary model-checks "
              "conservation (a node's total is the sum of its wells' totals), hierarchical group rates, monotone totals and that "
              "shut wells stand still.  Oracle_Summary runs every generated history through the same Eval action; "
              "harness/smryeval drives the real out::Summary::eval + SummaryState with the same history; the values of ~40 "
              "vector families at every well, group and the field are compared after every evaluation."),
        design_ref="DESIGN.md section 5, C09",
        note=("Trusted: TLC; UnitSystem for feeding SI rates; python comparison to 1e-9 relative.  Not covered: region, block, "
              "segment, connection and aquifer vectors, wells created after the first report step, STOP status, group control vectors."),
        technique="TLA+ reference state machine evaluated by TLC (oracle) against out::Summary::eval on generated histories + TLC model checking of conservation laws",
    ),
    "C10": dict(
        category="model_checking",
        text=("SummaryFile.tla (over EclFileFormat): the legacy reader's single-value offset arithmetic is transcribed and "
              "checked by TLC against the published REAL-array layout for every index 0..12000 (formatted and "
              "unformatted); runs, base runs and the time axis / report-step positions a reader must present are a small "
              "state machine.  Files written with the writer's components for 1..4500 vectors x formatted x unified, with "
              "and without a base run (same or different vector sets; the base run itself continuing an earlier run: chains of three), are read by ESmry (selective and whole-file), by "
              "make_esmry_file + ExtESmry; TLC validates every read event (time axis, report-step positions, vector "
              "counts) and requires the value/unit/start-date/key booleans."),
        design_ref="DESIGN.md section 5, C10",
        note=("Trusted: TLC; value identity i + 5000 t computed in the harness; files are produced with "
              "OutputStream::SummarySpecification/createSummaryFile as out::Summary does (vector evaluation is C09)."),
        technique="TLA+ layout/offset model checked with TLC + trace validation of files written and read by the real classes",
    ),
    "C13": dict(
        category="model_checking",
        text=("Grid.tla models a grid object as a state machine with index maps and geometry in closed form; TLC checks "
              "index bijection, positivity and additivity of volumes on all grids up to 2x2x2 with all masks and all "
              "mask replacements.  Seeded random operation sequences (reset/copy with new masks incl. same-count masks, "
              "all-active reset, EGRID/FEGRID save+load with NNCs and MAPAXES, warm/cold volume cache, 1/4/16 threads) are "
              "executed on the real EclipseGrid built from DX/DY/DZ/TOPS, DXV/DYV/DZV and COORD/ZCORN decks in METRIC and "
              "FIELD units; every step's observation is an event validated by TLC, all invariants evaluated per state."),
        design_ref="DESIGN.md section 5, C13",
        note=("Trusted: TLC, the deck renderer, integral geometry (1e-7 rounding guard).  Sheared pillars and dipping "
              "layers are not generated; cell centres are checked through the depth only."),
        technique="TLA+ state machine checked with TLC + trace validation of the real EclipseGrid under operation sequences",
    ),
    "C11": dict(
        category="model_checking",
        text=("Serialization.tla: the pack / unpack protocol (size pass, pack pass, unpack pass, pack pass of the unpacked object) over "
              "values with data-dependent containers, model-checked for exact buffer use.  Trace_Serialization validates the logged "
              "primitive fields (kind, bytes, content digest) of the four passes of real objects: the first three passes agree "
              "field by field, bytes packed = consumed = re-packed, the unpacked object compares equal, answers the public queries "
              "identically and re-packs to the same multiset of fields.  Objects from TLC-generated models (StateFeatures.tla: 27 "
              "keyword families with prerequisites x table dimensions; Schedule.tla), shipped decks, and dynamic state with random contents."),
        design_ref="DESIGN.md section 5, C11",
        note=("Trusted: TLC; the logging packer (a Packer policy of the library's own Serializer template); deck templates.  Grid and field "
              "properties are not compared (documented as distributed separately); the parallel (MPI) packer is not used."),
        technique="TLC model checking of the protocol + TLC trace validation of field logs recorded from the real Serializer on TLC-generated models",
    ),
    "C12": dict(
        category="model_checking",
        text=("Oracle_FieldProps.tla is an explicit reference interpreter of the keyword operations over arrays on all "
              "cells with per-cell status; TLC evaluates it on every generated program (random grids, ACTNUM masks, boxes - given, fully "
              "defaulted and partially defaulted - , "
              "region sets, defaulted entries, keyword defaults, input-error situations) and the real EclipseState built "
              "from the rendered deck is compared array by array, cell by cell, including defaulted flags and the "
              "error/no-error outcome; a quarter of the programs is repeated with all cells active."),
        design_ref="DESIGN.md section 5, C12",
        note=("Trusted: TLC as oracle, the deck renderer.  Integer-valued data in dimensionless keywords; global-storage "
              "arrays, top-layer distribution, EDIT multipliers and SCHEDULE updates are outside the modelled subset."),
        technique="TLA+ reference interpreter run by TLC as oracle; replay of every program into the real EclipseState",
    ),
    "C14": dict(
        category="model_checking",
        text=("PvtMonitor.tla: (1) the table shapes of a model (dead / live oil, dry / wet gas, 2-4 nodes, which composition nodes carry an "
              "undersaturated branch, 1-2 regions), all generated by TLC; (2) the relations Node, Between, Meet, Invert, Slope over "
              "integer-scaled values.  Physically ordered random numbers are drawn for every shape in four unit systems; "
              "harness/pvtmon initialises the Oil / Gas / Water PVT multiplexers from the parsed deck and evaluates them at all "
              "nodes, interior points of every tabulated line, the saturated line, saturation pressures and with Evaluation "
              "arguments; TLC validates every event (Trace_PvtMonitor)."),
        design_ref="DESIGN.md section 5, C14",
        note=("Trusted: TLC; the event scaling in the harness; UnitSystem for table values.  Extrapolation beyond the tables and "
              "the thermal / brine / CO2 variants are not checked (the CO2 / H2 tables are absent from this source snapshot; "
              "harness/co2stub.hpp only satisfies the linker)."),
        technique="TLC-generated table shapes + TLC trace validation (monitor) of every evaluation of the real PVT classes",
    ),
    "C15": dict(
        category="model_checking",
        text=("SatMonitor.tla: the combinations of input family, table size, saturation regions, end-point scaling (off / two-point / "
              "three-point, with or without per-cell end-point arrays), vertical scaling (KRW / KRWR, KRO / KRORW, KRG / KRGR per cell) and "
              "Carlson hysteresis (off / identical / different imbibition curves), enumerated by TLC; relations Node, Between, Range, Same, "
              "EndPoint, Scan, Mono over integer-scaled values.  Monotone "
              "random tables in both families and consistent end-points are drawn per model; harness/satmon builds "
              "EclMaterialLawManager for the primary deck and its companions (other family, unscaled, no hysteresis), evaluates the "
              "two-phase laws at all nodes and interior points, the three-phase API on random saturations and drainage / imbibition "
              "histories; TLC validates every event."),
        design_ref="DESIGN.md section 5, C15",
        note=("Trusted: TLC; the event scaling in the harness.  Stone models, Killough hysteresis, capillary-pressure hysteresis, vertical "
              "scaling of the capillary pressure or combined with two-point scaling / hysteresis, and directional / irreversible scaling are not checked."),
        technique="TLC-enumerated model combinations + TLC trace validation (monitor) of every evaluation of the real material law manager",
    ),
    "C16": dict(
        category="model_checking",
        text=("DualNumbers.tla states the differentiation rules over terms (exact rationals, named real functions); TLC "
              "checks algebraic design laws on all small rational dual numbers and derives value and derivative terms for "
              "every generated program.  The real Evaluation types (specialisations 1..12, generic static 13..16, dynamic) "
              "run each program; every slot is compared with the term evaluated by <cmath>, and the static and dynamic "
              "variants with each other exactly."),
        design_ref="DESIGN.md section 5, C16",
        note=("Trusted: TLC as oracle for the rules, the harness' 40-line term interpreter over <cmath> long double, "
              "tolerance 2e-10.  Numeric accuracy of libm is not the subject."),
        technique="TLA+ differentiation rules evaluated by TLC as oracle; replay into all Evaluation variants",
    ),
    "C17": dict(
        category="model_checking",
        text=("UDQPrec.tla: the parser's recursive-descent levels transcribed and checked by TLC against precedence "
              "climbing with the property's table on all operator sequences of up to 4 operators (with one parenthesised "
              "pair).  UDQEval.tla / Oracle_UDQHist.tla are the reference meaning (exact rationals; element-wise "
              "operations, scalar broadcasting, undefined propagation, reductions, elemental functions, set unions; "
              "ASSIGN/DEFINE/UPDATE histories over report steps).  TLC evaluates the reference on every generated DEFINE "
              "and history; the real UDQDefine::eval and the real Schedule + per-step UDQConfig::eval with one "
              "SummaryState/UDQState are run on the same inputs and every element is compared with TLC's value."),
        design_ref="DESIGN.md section 5, C17",
        note=("Trusted: TLC as oracle, the seeded generator's type discipline, 1e-9 relative agreement between doubles and "
              "exact rationals.  Transcendental functions and chained ^ / comparisons / unions are outside the domain."),
        technique="TLA+ reference evaluator run by TLC as oracle for replay into the real classes; TLC-checked precedence transcription",
    ),
    "C18": dict(
        category="model_checking",
        text=("ActionCond.tla contains the reference meaning of a condition (truth value; match set = union/intersection "
              "of the well-level comparisons that hold, scalar or false sub-conditions contributing no set) and a "
              "transcription of the implementation's parser and optional-set algebra; TLC checks that they agree on every "
              "condition with up to 3 comparisons x all value patterns.  ActionTrigger.tla models run count / min wait / "
              "start / redefinition / restart; TLC checks the three limits exhaustively in small bounds.  Real "
              "Action::AST, ActionX (also via deck text and parseActionX), Actions::pending, State::add_run/load_rst are "
              "driven by TLC-enumerated and seeded random conditions and TLC-simulated trigger scripts; every evaluation "
              "and every step is validated by TLC against the specifications."),
        design_ref="DESIGN.md section 5, C18",
        note=("Trusted: TLC; the harness's construction of SummaryState/WListManager/Context; integer summary values. "
              "The simulator's action loop is represented by the harness loop (msim's loop is outside the anchors)."),
        technique="TLA+ reference vs transcription checked with TLC + trace validation of real evaluations and trigger steps",
    ),
    "C19": dict(
        category="model_checking",
        text=("DeckSyntax.tla: PrintDeck and the invariant PrintParse (Meaning(PrintDeck(d)) = d, print.parse.print = print) model-checked "
              "over every text reachable by the layout rewrites.  Every TLC-generated text is parsed by the real Parser, the Deck "
              "written with operator<<, parsed again and written again (harness/deckparse roundtrip); the two Decks are compared "
              "entry by entry (integers, strings, defaulted flags exactly; doubles to the printed precision) and the two texts must "
              "be identical."),
        design_ref="DESIGN.md section 5, C19",
        note=("Trusted: TLC; the renderer.  Decks come from parsing grammar texts (not built through the Deck API); double-slash-terminated "
              "and table-collection keywords are not in the grammar."),
        technique="TLC model checking of print/parse on the lexeme model + TLC-generated decks round-tripped through the real writer and parser",
    ),
    "C20": dict(
        category="exploration",
        text=("Corruptions.tla: corruption scripts over decks and result files (random chains of <= 3 structure-aware operators by TLC "
              "simulation, plus two systematic families: every integer - also of NAME=n mnemonics - of the first records of every keyword "
              "perturbed in six ways, and each of the first 16 records of every keyword one value shorter, one and four values longer) "
              "and the admissible outcomes (a result or an exception derived from std::exception).  The driver resolves the scripts "
              "against TLC-generated models, TLC-generated schedule sections (Schedule.tla) and shipped result files; harness/crashprobe, linked against an ASan + UBSan build of the "
              "current tree, runs parse / EclipseState / Schedule / SummaryConfig or EclFile / ERst / ESmry / EGrid under a time bound; "
              "TLC judges all recorded outcomes in one pass (Trace_Corruptions).  Exploration level: the inputs are specification "
              "behaviours, the verdict on memory safety is the sanitizers' on the executed paths."),
        design_ref="DESIGN.md section 12.6",
        note=("Trusted: gcc 12 AddressSanitizer / UndefinedBehaviorSanitizer; the attribution of reports to inputs.  An allocation the "
              "sanitizer refuses counts as std::bad_alloc.  Known findings (signed overflows for absurd integers) are listed per source file."),
        technique="TLC-generated corruption scripts replayed into a sanitizer build, outcomes validated by TLC",
    ),
    "C05": dict(
        category="model_checking",
        text=("Restart.tla: saving report steps into a unified file (keeps earlier steps, drops later ones) or separate files, loading "
              "a step returns what was saved for it, the restarted schedule agrees with the original from the restart step on; "
              "model-checked.  Trace_Restart validates the real library: harness/rstio builds TLC-generated models "
              "(StateFeatures.tla), produces a schedule-consistent random simulator state (out::Summary::eval, UDQ evaluation), "
              "saves steps 1..n with RestartIO::save in every file flavour, loads steps back (RestartIO::load, RstState + "
              "Action::State / UDQState::load_rst) and builds the restarted Schedule (RESTART + SKIPREST)."),
        design_ref="DESIGN.md section 5, C05",
        note=("Trusted: TLC; the state generator and the attribute-level schedule projection in the harness.  All four unit systems; network, "
              "aquifers, group controls beyond production targets and guide rates are not compared; of WECON the limits the restart file carries."),
        technique="TLC model checking of the save/load design + TLC trace validation of RestartIO::save/load and the restarted Schedule on TLC-generated models",
    ),
    "C06": dict(
        category="model_checking",
        text=("Compdat.tla: the connection a COMPDAT record creates, as terms for CF, Kh, r0, rw over the cell and the record, "
              "for the 72 record classes (CF explicit/defaulted, Kh explicit/defaulted/zero, r0, diameter, direction); TLC emits "
              "the terms (Oracle_Compdat) and harness/compdat compares the stored values of the real Schedule for random "
              "anisotropic cells in four unit systems, evaluates the Peaceman relation on the stored values and re-enters every "
              "defaulted quantity.  Connections.tla: the connection list as a state machine (replace in place, numbering, input / "
              "track order, immediate and end-of-step WPIMULT, WELOPEN on connections), model-checked (only targeted connections "
              "change); TLC simulation generates histories, the lists of the real Schedule at each report step are "
              "trace-validated (Trace_Connections)."),
        design_ref="DESIGN.md section 5, C06",
        note=("Trusted: TLC; the long double term interpreter; EclipseGrid::getCellDims and UnitSystem for the SI inputs.  "
              "Histories use explicit CF/Kh entries; vertical wells (input and track order, with COMPLUMP) and one well with laterals; COMPSEGS and CSKIN are not modelled."),
        technique="TLC oracle for the Peaceman case analysis + TLC model checking and trace validation of the connection list state machine",
    ),
    "C07": dict(
        category="model_checking",
        text=("EclFileFormat.tla holds the published on-disk layout and a transcription of the implementation's seek "
              "arithmetic; TLC checks their agreement for every type x every length 0..2002 (thorough) / dense boundary "
              "set (quick) and for all array pairs.  Files written by the real EclOutput (TLC-enumerated pairs, a sweep "
              "over every type x length x {formatted,unformatted} x {ECL,IX}, seeded random sequences) are scanned by an "
              "independent byte scanner and read by the real EclFile; TLC validates each recorded file against the "
              "layout: offsets, record/line structure, head=tail, the reader's data positions and seek positions, and "
              "the value-fidelity booleans (bit-exact unformatted, printed precision formatted)."),
        design_ref="DESIGN.md section 5, C07",
        note=("Trusted: TLC, the independent scanner/decoder (harness/eclscan.hpp), the layout constants in the spec "
              "(taken from the file-format description, not from EclIOdata.hpp). X231 headers not exercised."),
        technique="TLA+ layout specification checked with TLC + trace validation of files produced/read by the real classes",
    ),
    "C08": dict(
        category="model_checking",
        text=("TLC checks the write/rewind/crash model (UnifiedRestart over EclFileFormat) exhaustively within small "
              "bounds; every TLC-enumerated write history of 4 sessions and seeded random histories are executed on "
              "the real OutputStream::Restart/ERst, and the recorded traces (every public call, file length, independent "
              "scan of the bytes, byte comparison with a fresh file, read outcome at every truncation offset) are "
              "validated by TLC against the same specification with all invariants evaluated at every step."),
        design_ref="DESIGN.md section 5, C08",
        note=("Trusted: TLC, the independent byte scanner harness/eclscan.hpp, the published Eclipse record layout in "
              "EclFileFormat.tla. Crash = truncation of a closed file. Bounds: 4 sessions x steps 0..3 exhaustive, "
              "random up to 12 sessions."),
        technique="TLA+ model checked with TLC + trace validation of the real classes against the spec (both directions)",
    ),
}

NOT_YET = "check not built yet (work in progress, see DESIGN.md section 11)"


def main():
    checks = []
    for pid in ALL:
        if pid not in CLAIMED:
            continue
        c = CLAIMED[pid]
        checks.append({
            "property_id": pid,
            "quick_cmd": "./check %s --tier quick" % pid,
            "thorough_cmd": "./check %s --tier thorough" % pid,
            "evidence_file": "/verif/evidence/%s.json" % pid,
            "replay_cmd_template": "./check %s --replay {path}" % pid,
            "engine": "tlc",
            "level_claimed": {"category": c["category"], "text": c["text"], "design_ref": c["design_ref"]},
            "level_note": c["note"],
            "technique": c["technique"],
        })
    na = [{"property_id": p, "reason": NA.get(p, NOT_YET)} for p in ALL if p not in CLAIMED]
    m = {
        "version": 1,
        "setup_cmd": "./setup.sh",
        "hooks": {
            "guard": "OPM_COMMON_VERIF",
            "enable": ("no source hooks are needed: the library is sequential and the public API exposes the abstract "
                       "state; harnesses link against /repo/_build/lib/libopmcommon.a rebuilt from the working tree"),
            "baseline_off_cmd": "ctest --test-dir /repo/_build -j8 --timeout 900",
            "source_commits": [],
            "add_only": True,
        },
        "engines": [{"name": "tlc", "path": "/opt/veriftools/tla/tla2tools.jar",
                     "serves_properties": sorted(CLAIMED),
                     "kind_free_text": "TLA+ specifications under /verif/spec checked with TLC (model checking, "
                                       "behaviour generation, trace validation); C++ harnesses under /verif/harness"}],
        "checks": checks,
        "not_applicable": na,
        "notes": ("fix: commits in /repo are listed in KNOWN_FINDINGS.json with status fixed; "
                  "exit 2 of a check means tooling failure, never a violation"),
    }
    with open(os.path.join(HERE, "MANIFEST.json"), "w") as fh:
        json.dump(m, fh, indent=1)
        fh.write("\n")


NA = {}

if __name__ == "__main__":
    main()
