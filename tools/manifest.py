#!/usr/bin/env python3
"""Regenerates /verif/MANIFEST.json from the table below (single source of truth)."""
import json
import os

HERE = os.path.dirname(os.path.dirname(os.path.abspath(__file__)))
ALL = ["C%02d" % i for i in range(1, 21)]

CLAIMED = {
    "C08": dict(
        category="model_checking",
        text=("TLC checks the write/rewind/crash model (UnifiedRestart over EclFileFormat) exhaustively within small "
              "bounds; every TLC-enumerated write history of 4 sessions and seeded random histories are executed on "
              "the real OutputStream::Restart/ERst, and the recorded traces (every public call, file length, independent "
              "scan of the bytes, byte comparison with a fresh file, read outcome at every truncation offset) are "
              "validated by TLC against the same specification with all invariants evaluated at every step."),
        design_ref="DESIGN.md section 5, C08",
        note=("Trusted: TLC, the independent byte scanner harness/eclscan.hpp, the published Eclipse record layout in "
              "EclFileFormat.tla. Crash = truncation of a closed file. Bounds: 4 sessions x steps 0..3 exhaustive, "
              "random up to 12 sessions."),
        technique="TLA+ model checked with TLC + trace validation of the real classes against the spec (both directions)",
    ),
}

NOT_YET = "check not built yet (work in progress, see DESIGN.md section 11)"


def main():
    checks = []
    for pid in ALL:
        if pid not in CLAIMED:
            continue
        c = CLAIMED[pid]
        checks.append({
            "property_id": pid,
            "quick_cmd": "./check %s --tier quick" % pid,
            "thorough_cmd": "./check %s --tier thorough" % pid,
            "evidence_file": "/verif/evidence/%s.json" % pid,
            "replay_cmd_template": "./check %s --replay {path}" % pid,
            "engine": "tlc",
            "level_claimed": {"category": c["category"], "text": c["text"], "design_ref": c["design_ref"]},
            "level_note": c["note"],
            "technique": c["technique"],
        })
    na = [{"property_id": p, "reason": NA.get(p, NOT_YET)} for p in ALL if p not in CLAIMED]
    m = {
        "version": 1,
        "setup_cmd": "./setup.sh",
        "hooks": {
            "guard": "OPM_COMMON_VERIF",
            "enable": ("no source hooks are needed: the library is sequential and the public API exposes the abstract "
                       "state; harnesses link against /repo/_build/lib/libopmcommon.a rebuilt from the working tree"),
            "baseline_off_cmd": "ctest --test-dir /repo/_build -j8 --timeout 900",
            "source_commits": [],
            "add_only": True,
        },
        "engines": [{"name": "tlc", "path": "/opt/veriftools/tla/tla2tools.jar",
                     "serves_properties": sorted(CLAIMED),
                     "kind_free_text": "TLA+ specifications under /verif/spec checked with TLC (model checking, "
                                       "behaviour generation, trace validation); C++ harnesses under /verif/harness"}],
        "checks": checks,
        "not_applicable": na,
        "notes": ("fix: commits in /repo are listed in KNOWN_FINDINGS.json with status fixed; "
                  "exit 2 of a check means tooling failure, never a violation"),
    }
    with open(os.path.join(HERE, "MANIFEST.json"), "w") as fh:
        json.dump(m, fh, indent=1)
        fh.write("\n")


NA = {}

if __name__ == "__main__":
    main()
