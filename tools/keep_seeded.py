#!/usr/bin/env python3
"""keep_seeded.py <agent-name> <seeded-id> <property> <detected-by> <needs...>  - store a confirmed seeded change under /verif/seeded/<id>/"""
import json, os, shutil, sys
name, sid, prop, detected = sys.argv[1:5]
needs = " ".join(sys.argv[5:])
src = "/tmp/mut/out/" + name
dst = "/verif/seeded/" + sid
os.makedirs(dst, exist_ok=True)
for f in ("patch.diff", "demo.cpp", "notes.md", "confirm.txt"):
    if os.path.exists(os.path.join(src, f)):
        shutil.copy(os.path.join(src, f), os.path.join(dst, f))
conf = open(os.path.join(src, "confirm.txt")).read().strip().splitlines()[-1] if os.path.exists(os.path.join(src, "confirm.txt")) else ""
meta = {"id": sid, "property": prop, "origin": "independent sub-agent given only the property text (agent %s)" % name,
        "needs_to_manifest": needs,
        "confirmed": {"how": "fresh scratch worktree of /repo HEAD: demo built and run without the change (exit 0), "
                             "change applied, full build, pinned suite, demo rebuilt and run (non-zero exit)",
                      "result": conf},
        "detected_by": detected,
        "ran": "tools/try_seeded.sh seeded/%s/patch.diff %s" % (sid, prop)}
json.dump(meta, open(os.path.join(dst, "meta.json"), "w"), indent=1)
print("kept", dst)
