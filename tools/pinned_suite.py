#!/usr/bin/env python3
"""Run the repository's test suite in /repo/_build (or argv[1]) and compare
with the pinned list of stably passing tests in /root/.vp/BASELINE.json.
Exit 0 iff every pinned test passes."""
import json, re, subprocess, sys
bdir = sys.argv[1] if len(sys.argv) > 1 else "/repo/_build"
pinned = {t.split("::")[0] for t in json.load(open("/root/.vp/BASELINE.json"))["stable_pass"]}
out = subprocess.run(["ctest", "--test-dir", bdir, "-j14", "--timeout", "900"], capture_output=True, text=True).stdout
res = {}
for m in re.finditer(r"Test\s+#\d+:\s+(\S+)\s+\.+\s*(\*\*\*\w[\w ]*|Passed)", out):
    res[m.group(1)] = m.group(2)
bad = sorted(t for t in pinned if res.get(t) != "Passed")
print("pinned %d, passed %d of them; other tests passed %d, not passed %d" % (
    len(pinned), len(pinned) - len(bad), sum(1 for t, r in res.items() if t not in pinned and r == "Passed"),
    sum(1 for t, r in res.items() if t not in pinned and r != "Passed")))
for t in bad:
    print("PINNED TEST NOT PASSING:", t, res.get(t))
sys.exit(1 if bad else 0)
