#!/bin/bash
# usage: tools/try_seeded.sh <patch.diff> <ID> [tier]   - apply a seeded change to /repo, run the check, undo
set -u
patch=$1; id=$2; tier=${3:-quick}
cd /repo || exit 2
if ! git diff --quiet; then echo "/repo has uncommitted changes"; exit 2; fi
git apply "$patch" || { echo "patch does not apply"; exit 2; }
cd /verif
timeout 3000 ./check $id --tier $tier > /tmp/try_$id.log 2>&1
rc=$?
git -C /repo checkout -- .
echo "check $id on $(basename $(dirname $patch)): exit $rc"
grep -E "^VIOLATION|^KNOWN-FINDING|^TOOLING" /tmp/try_$id.log | head -5
grep -A1 "^VIOLATION" /tmp/try_$id.log | grep -v "^VIOLATION\|^--" | head -3 | cut -c1-500
exit $rc
