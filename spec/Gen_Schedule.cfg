SPECIFICATION SSpec
CONSTANTS
  WellNames = {"W1", "W2", "W3"}
  GroupNames = {"G1", "G2"}
  MaxSteps = 5
  MaxKw = 14
CONSTRAINT Emit
