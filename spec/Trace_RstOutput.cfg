SPECIFICATION TraceSpec
CONSTANTS
  MaxSteps = 100000
  MaxKw = 100000
POSTCONDITION TraceAccepted
CHECK_DEADLOCK FALSE
