--------------------------- MODULE Gen_Connections ---------------------------
(* Behaviour generation for C06: the operations of Connections, grouped by    *)
(* report step, printed when the operation budget is used up.                 *)
EXTENDS Connections, Json
VARIABLE hist
GInit == Init /\ hist = << <<>> >>
GNext == /\ Next
         /\ hist' = IF last'.op = "end" THEN Append(hist, <<>>)
                    ELSE [hist EXCEPT ![Len(hist)] = Append(@, last')]
GSpec == GInit /\ [][GNext]_<<vars, hist>>
\* printed once per behaviour: at the end of the report step in which a budget is used up
Emit == IF last.op = "end" /\ (nops >= MaxOps \/ step >= MaxSteps) THEN PrintT(<<"GEN", ToJson([steps |-> hist])>>) /\ FALSE ELSE TRUE
GFree == {"W3"}
GOnlyFree == {"W3"}
None == {}
\* cells of the well with laterals: 100 i + 10 j + k around the head (2, 2)
GFreeCells == {221, 222, 121, 122, 321, 322, 211, 231}
\* selections worth generating: a cell (with the three ways of giving I, J), or a completion range
GenSel == {s \in Sel : \/ (s.k # 0 /\ s.c1 = 0 /\ s.c2 = 0 /\ (s.k \in GFreeCells => s.ij = "head"))
                       \/ (s.k = 0 /\ s.ij = "default" /\ (s.c1 = 0 \/ s.c2 = 0 \/ s.c1 <= s.c2))
                       \/ (s.k # 0 /\ s.k \notin GFreeCells /\ s.ij = "default" /\ s.c1 # 0 /\ s.c2 = s.c1)}
\* operations on a well without connections are legal but teach nothing: at most one in a history
Useful == last.op \in {"WPIMULT", "WELOPEN"} => st.conns[last.well] # <<>>
GWells == {"W1", "W2", "W3"}
GInput == {"W1"}
=============================================================================
