---------------------------- MODULE Trace_Restart ----------------------------
(* Trace validation for C05: RestartIO::save / load and the restarted         *)
(* Schedule of the real library against Restart.                              *)
EXTENDS Restart, Json, IOUtils
TraceLog == ndJsonDeserialize(IOEnv.TRACE)
VARIABLE l
tvars == <<vars, l>>
Ev == TraceLog[l]
IsEvent(e) == l <= Len(TraceLog) /\ TraceLog[l].e = e /\ l' = l + 1
TInit == l = 1 /\ unified = TRUE /\ disk = <<>> /\ now = 0
TReset == IsEvent("Reset") /\ unified' = Ev.unif /\ disk' = <<>> /\ now' = 0
\* the run advances to the step and saves its state
TSave == /\ IsEvent("Save") /\ Ev.step >= now /\ now' = Ev.step
         /\ disk' = Put(IF unified THEN Restrict(disk, {k \in DOMAIN disk : k < Ev.step}) ELSE disk, Ev.step, Ev.state)
         /\ UNCHANGED unified
LoadOk == Ev.res = "ok" /\ Ev.step \in DOMAIN disk /\ Ev.state = disk[Ev.step]
TLoad == IsEvent("Load") /\ LoadOk /\ UNCHANGED vars
SchedOk == Ev.res = "ok" /\ Ev.sameSize = TRUE /\ Ev.same = TRUE /\ Ev.step \in DOMAIN disk
TRestartSchedule == IsEvent("RestartSchedule") /\ SchedOk /\ UNCHANGED vars
TSkip == IsEvent("Skip") /\ UNCHANGED vars
\* on a rejected Load: which parts of the state differ
DiffKeys == IF Ev.e = "Load" /\ Ev.res = "ok" /\ Ev.step \in DOMAIN disk
            THEN {k \in DOMAIN Ev.state : Ev.state[k] # disk[Ev.step][k]} ELSE {}
TDiag == /\ l <= Len(TraceLog) /\ ((Ev.e = "Load" /\ ~LoadOk) \/ (Ev.e = "RestartSchedule" /\ ~SchedOk))
         /\ PrintT(<<"DIAG", l, [differs |-> DiffKeys, onDisk |-> DOMAIN disk]>>)
         /\ FALSE /\ UNCHANGED tvars
TNext == TReset \/ TSave \/ TLoad \/ TRestartSchedule \/ TSkip \/ TDiag
TraceSpec == TInit /\ [][TNext]_tvars
TraceAccepted == TLCGet("stats").diameter - 1 = Len(TraceLog)
NoStates == {}
=============================================================================
