SPECIFICATION Spec
CONSTANTS
  MaxSteps = 6
  MaxKw = 2
CONSTRAINT Emit
CHECK_DEADLOCK FALSE
