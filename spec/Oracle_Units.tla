---------------------------- MODULE Oracle_Units ----------------------------
(* TLC as oracle for C02: factor and offset terms of measures and composite  *)
(* dimension strings.                                                        *)
EXTENDS Units, Json, IOUtils
CaseLog == ndJsonDeserialize(IOEnv.CASES)
VARIABLE i
Init == i = 1
UnitResult(c) == IF c.kind = "measure" THEN [id |-> c.id, known |-> TRUE, factor |-> Factor(c.sys, c.m), offset |-> Offset(c.sys, c.m)]
             ELSE IF KnownNames(c.num) /\ KnownNames(c.den)
                  THEN [id |-> c.id, known |-> TRUE, factor |-> CompositeFactor(c.sys, c.num, c.den),
                        \* a dimension string that is just the relative temperature keeps its offset
                        offset |-> IF c.den = <<>> /\ Len(c.num) = 1 THEN Offset(c.sys, NamedDim(c.num[1])) ELSE Q(0, 1)]
                  ELSE [id |-> c.id, known |-> FALSE]
Next == i <= Len(CaseLog) /\ PrintT(<<"GEN", ToJson(UnitResult(CaseLog[i]))>>) /\ i' = i + 1
Spec == Init /\ [][Next]_i
=============================================================================
