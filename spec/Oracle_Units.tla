---------------------------- MODULE Oracle_Units ----------------------------
(* TLC as oracle for C02: factor and offset terms of measures and composite  *)
(* dimension strings.                                                        *)
EXTENDS Units, Json, IOUtils
CaseLog == ndJsonDeserialize(IOEnv.CASES)
VARIABLE i
Init == i = 1
Result(c) == IF c.kind = "measure" THEN [id |-> c.id, known |-> TRUE, factor |-> Factor(c.sys, c.m), offset |-> Offset(c.sys, c.m)]
             ELSE IF KnownNames(c.num) /\ KnownNames(c.den)
                  THEN [id |-> c.id, known |-> TRUE, factor |-> CompositeFactor(c.sys, c.num, c.den), offset |-> Q(0, 1)]
                  ELSE [id |-> c.id, known |-> FALSE]
Next == i <= Len(CaseLog) /\ PrintT(<<"GEN", ToJson(Result(CaseLog[i]))>>) /\ i' = i + 1
Spec == Init /\ [][Next]_i
=============================================================================
