--------------------------- MODULE MC_ActionTrigger ---------------------------
EXTENDS ActionTrigger, Json
CONSTANTS MaxTime, MaxDefs, MaxSteps
MinWaitsMC == {-1, 2, 3}
MinWaitsGen == {-1, 0, 1, 2, 3, 5}
VARIABLES ndef, nstep, h
mvars == <<vars, ndef, nstep, h>>
MInit == Init /\ ndef = 0 /\ nstep = 0 /\ h = <<>>
MDefine == \E a \in Names, mr \in MaxRuns, mw \in MinWaits :
               ndef < MaxDefs /\ Define(a, mr, mw) /\ ndef' = ndef + 1 /\ nstep' = nstep
               /\ h' = Append(h, <<"define", a, mr, mw>>)
MTick == \E dt \in Dts : now + dt <= MaxTime /\ Tick(dt) /\ UNCHANGED <<ndef, nstep>> /\ h' = Append(h, <<"tick", dt>>)
MStep == \E S \in SUBSET Names : nstep < MaxSteps /\ defs # <<>> /\ Step(S) /\ nstep' = nstep + 1 /\ ndef' = ndef
               /\ h' = Append(h, <<"step", S>>)
MRestart == runs # <<>> /\ Restart /\ UNCHANGED <<ndef, nstep>> /\ h' = Append(h, <<"restart">>)
MNext == MDefine \/ MTick \/ MStep \/ MRestart
MSpec == MInit /\ [][MNext]_mvars
\* the model is checked without the history variable
View == <<vars, ndef, nstep>>
\* behaviour generation (simulation mode): print the script at the depth bound
EmitAt == 14
Emit == IF Len(h) >= EmitAt THEN PrintT(<<"GEN", ToJson([ops |-> h])>>) /\ FALSE ELSE TRUE
=============================================================================
