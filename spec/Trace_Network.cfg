SPECIFICATION TraceSpec
CONSTANTS
  Names = {"FIELD", "G1", "G2", "G3", "N1"}
  MaxOps = 100000
POSTCONDITION TraceAccepted
CHECK_DEADLOCK FALSE
