SPECIFICATION TraceSpec
CONSTANTS
  Wells <- TWells
  InputOrder <- TInput
  FreeOrder <- TFree
  FreeCells <- TFreeCells
  NK = 5
  MaxOps = 100
  MaxSteps = 100
POSTCONDITION TraceAccepted
CHECK_DEADLOCK FALSE
