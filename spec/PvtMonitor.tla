----------------------------- MODULE PvtMonitor -----------------------------
(***************************************************************************)
(* Black-oil PVT functions against their input tables (property C14).      *)
(*                                                                         *)
(* Part 1 - which models exist: per PVT region a dead or live oil table or *)
(* a constant-compressibility oil (PVDO / PVTO / PVCDO) and a dry or wet gas table (PVDG / PVTG) with 2..MaxNodes *)
(* pressure nodes; in a live table every composition node may carry an     *)
(* undersaturated branch and the last one must.  TLC generates the shapes; *)
(* the numbers (physically ordered) are drawn by the harness driver.       *)
(*                                                                         *)
(* Part 2 - the relations every evaluation must satisfy, over values that  *)
(* the harness scales to integers (1e7 = the reference magnitude of the    *)
(* check):                                                                 *)
(*   Node     the function at a table node equals the tabulated value      *)
(*   Between  between two neighbouring nodes of a tabulated line the value *)
(*            lies between the two node values                             *)
(*   Meet     the undersaturated function on the saturated line equals the *)
(*            saturated function                                           *)
(*   Invert   Rs (Rv) at the saturation pressure of r gives r back         *)
(*   Slope    the derivative delivered by automatic differentiation equals *)
(*            the left or the right difference quotient of the function    *)
(*            itself (the interpolants are piecewise linear: at a kink the *)
(*            derivative is that of the piece in use)                      *)
(***************************************************************************)
EXTENDS Integers, Sequences, FiniteSets, TLC, Json

CONSTANTS MaxNodes, MaxRegions
Shapes == [oil : {"PVDO", "PVTO", "PVCDO"}, gas : {"PVDG", "PVTG"}, nodes : 2..MaxNodes]
VARIABLES model, built
mvars == <<model, built>>
\* branches: which composition nodes of a live table carry an undersaturated branch (the last always does)
BranchSets(n) == {S \in SUBSET (1..n) : n \in S}
MInit == model = <<>> /\ built = FALSE
AddRegion == /\ ~built /\ Len(model) < MaxRegions
             /\ \E s \in Shapes, b \in BranchSets(MaxNodes) :
                   model' = Append(model, [oil |-> s.oil, gas |-> s.gas, nodes |-> s.nodes, branches |-> {x \in b : x <= s.nodes} \cup {s.nodes}])
             /\ UNCHANGED built
\* every region of a deck has the same kinds of tables
Uniform == \A i \in 1..Len(model) : model[i].oil = model[1].oil /\ model[i].gas = model[1].gas
Build == ~built /\ Len(model) >= 1 /\ Uniform /\ built' = TRUE /\ UNCHANGED model
MNext == AddRegion \/ Build
MSpec == MInit /\ [][MNext]_mvars
Emit == IF built THEN PrintT(<<"GEN", ToJson([regions |-> model])>>) /\ FALSE ELSE TRUE
WellFormed == \A i \in 1..Len(model) : model[i].nodes \in model[i].branches

\* ---- the relations
Abs(x) == IF x < 0 THEN -x ELSE x
Min(a, b) == IF a < b THEN a ELSE b
Max(a, b) == IF a > b THEN a ELSE b
NodeTol == 20            \* 2e-6 of the reference magnitude
MeetTol == 100           \* 1e-5
InvertTol == 1000        \* 1e-4: the saturation pressure is found iteratively
SlopeTol == 2000         \* 2e-4 of the slope's reference magnitude (difference quotient)
NodeOk(e) == Abs(e.got - e.exp) <= NodeTol
BetweenOk(e) == e.got >= Min(e.a, e.b) - NodeTol /\ e.got <= Max(e.a, e.b) + NodeTol
MeetOk(e) == Abs(e.sat - e.und) <= MeetTol
InvertOk(e) == Abs(e.got - e.want) <= InvertTol
SlopeOk(e) == Abs(e.ad - e.fd) <= SlopeTol
=============================================================================
