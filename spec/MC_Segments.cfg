SPECIFICATION Spec
CONSTANTS
  MaxSeg = 5
  MaxRecs = 2
  MaxComps = 1
  MinRecs = 1
  NCells = 1
  Dzs <- MCDzs
  Areas <- MCAreas
  Vols <- MCVols
  Starts <- MCStarts
  Widths <- MCWidths
INVARIANTS BuiltValid AbsSame Monotone CompsOk
CHECK_DEADLOCK FALSE
