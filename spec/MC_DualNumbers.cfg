SPECIFICATION Spec
INVARIANT Laws
