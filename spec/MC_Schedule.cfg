SPECIFICATION SSpec
CONSTANTS
  WellNames = {"W1", "W2"}
  GroupNames = {"G1"}
  MaxSteps = 2
  MaxKw = 3
INVARIANT WellFormed
