--------------------------- MODULE MC_SummaryFile ---------------------------
EXTENDS SummaryFile
VARIABLE i
Init == i \in 0..12000 /\ SInit
Next == UNCHANGED <<i, svars>>
Spec == Init /\ [][Next]_<<i, svars>>
Agree == OffsetsAgree(i)
=============================================================================
