SPECIFICATION TraceSpec
CONSTANTS
  Names = {}
  MaxRuns = {}
  MinWaits = {}
  Starts = {}
  Dts = {}
INVARIANTS NeverMoreThanMax NeverBeforeStart WaitRespected CountMatchesHistory
POSTCONDITION TraceAccepted
CHECK_DEADLOCK FALSE
