--------------------------- MODULE Trace_Segments ---------------------------
(* Trace validation of the real WellSegments / COMPSEGS processing against Segments. *)
EXTENDS Segments, Json, IOUtils
TraceLog == ndJsonDeserialize(IOEnv.TRACE)
VARIABLE l
tvars == <<vars, l>>
Ev == TraceLog[l]
IsEvent(e) == l <= Len(TraceLog) /\ TraceLog[l].e = e /\ l' = l + 1
TInit == l = 1 /\ top = [type |-> "INC", depth |-> 0, len |-> 0, vol |-> 0] /\ recs = <<>> /\ comps = <<>>
TReset == IsEvent("Reset") /\ UNCHANGED vars
WE == [top |-> Ev.top, recs |-> Ev.recs]
SegRow(W, s) == <<s, Branch(W, s), Outlet(W, s), SLen(W, s), SDep(W, s), Vol(W, s)>>
Obs6(row) == <<row[1], row[2], row[3], row[4], row[5], row[6]>>
ObsOrder == [i \in DOMAIN Ev.segs |-> Ev.segs[i][1]]
WelsegsOk == IF Valid(WE)
             THEN /\ Ev.res = "ok"
                  /\ {Obs6(Ev.segs[i]) : i \in DOMAIN Ev.segs} = {SegRow(WE, s) : s \in SegNums(WE)}
                  /\ \A i \in DOMAIN Ev.segs : Range(Ev.segs[i][7]) = Inlets(WE, Ev.segs[i][1])
                  /\ OrderOk(WE, ObsOrder)
             ELSE MustRefuse(WE) => Ev.res = "error"
TWelsegs == IsEvent("Welsegs") /\ WelsegsOk /\ top' = Ev.top /\ recs' = Ev.recs /\ comps' = <<>>
CellDepth(c) == 2005 + 10 * (c - 1)
DepthMatches(c, milli) == LET d == CentreDepth(W0, c) IN
                          IF d[2] = 0 THEN milli = 1000 * CellDepth(c.cell)
                          ELSE Abs(milli * d[2] - 1000 * d[1]) <= Abs(d[2])
ConnFor(c) == CHOOSE i \in DOMAIN Ev.conns : Ev.conns[i][1] = c.cell
CompsegsOk == LET cs == Ev.comps IN
              IF \A i \in DOMAIN cs : CompAccepted(W0, cs[i])
              THEN /\ Ev.res = "ok"
                   /\ \A i \in DOMAIN cs : /\ \E j \in DOMAIN Ev.conns : Ev.conns[j][1] = cs[i].cell
                                           /\ Ev.conns[ConnFor(cs[i])][2] = SegFor(W0, cs[i])
                                           /\ DepthMatches(cs[i], Ev.conns[ConnFor(cs[i])][3])
              ELSE (\E i \in DOMAIN cs : cs[i].end <= cs[i].start \/ (cs[i].seg = 0 /\ OnBranch(W0, cs[i].br) = {})) => Ev.res = "error"
TCompsegs == IsEvent("Compsegs") /\ CompsegsOk /\ comps' = Ev.comps /\ UNCHANGED <<top, recs>>
TDiag == /\ l <= Len(TraceLog) /\ Ev.e \in {"Welsegs", "Compsegs"} /\ ~ENABLED (TWelsegs \/ TCompsegs)
         /\ PrintT(<<"DIAG", l, IF Ev.e = "Welsegs"
                                THEN [valid |-> Valid(WE), mustRefuse |-> MustRefuse(WE),
                                      expected |-> IF Valid(WE) THEN {SegRow(WE, s) : s \in SegNums(WE)} ELSE {}]
                                ELSE [expected |-> [i \in DOMAIN Ev.comps |-> IF CompAccepted(W0, Ev.comps[i])
                                                                              THEN <<Ev.comps[i].cell, SegFor(W0, Ev.comps[i]), CentreDepth(W0, Ev.comps[i])>>
                                                                              ELSE <<"refused">>]]>>)
         /\ FALSE /\ UNCHANGED tvars
TNext == TReset \/ TWelsegs \/ TCompsegs \/ TDiag
TraceSpec == TInit /\ [][TNext]_tvars
TraceAccepted == TLCGet("stats").diameter - 1 = Len(TraceLog)
=============================================================================
