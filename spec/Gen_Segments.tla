---------------------------- MODULE Gen_Segments ----------------------------
(* Behaviour generation: complete wells (both forms of the WELSEGS input and the COMPSEGS records) as JSON. *)
EXTENDS Segments, Json
Thin == 60
GDzs == {0, 5}
GAreas == {2}
Emit == IF Len(recs) >= 1 /\ Len(comps) >= 1 /\ RandomElement(1..Thin) = 1
        THEN PrintT(<<"GEN", ToJson([top |-> top, recs |-> recs, abs |-> AbsForm(W0), comps |-> comps])>>) ELSE TRUE
=============================================================================
