------------------------------ MODULE UDQPrec ------------------------------
(***************************************************************************)
(* UDQ operator precedence at design level: the recursive-descent levels   *)
(* of UDQParser.cpp (parse_set > parse_cmp > parse_add > parse_mul >       *)
(* parse_pow > parse_factor), transcribed, against precedence climbing     *)
(* with the table of property C17.  PowRhs selects the tree mirrored:      *)
(* "mul" = before bb2b47f35 (exponent parsed by parse_mul), "pow" = after. *)
(* Chains of ^, of comparisons and of set operators are excluded: the      *)
(* property fixes no associativity for them.                               *)
(***************************************************************************)
EXTENDS Integers, Sequences, TLC
CONSTANT PowRhs
Ops == {"^", "*", "/", "+", "-", "<", "UADD"}
Bin(o, l, r) == <<o, l, r>>
IsAdd(o) == o \in {"+", "-"}
IsMul(o) == o \in {"*", "/"}
\* ---------- implementation: each level returns <<ast, nextpos>>
RECURSIVE PFactor(_, _), PPow(_, _), PMul(_, _), PMulLoop(_, _, _), PAdd(_, _), PAddLoop(_, _, _), PCmp(_, _), PSet(_, _)
PFactor(t, p) == IF t[p] = "(" THEN LET r == PSet(t, p + 1) IN <<r[1], r[2] + 1>> ELSE <<t[p], p + 1>>
PPow(t, p) == LET l == PFactor(t, p) IN
              IF l[2] <= Len(t) /\ t[l[2]] = "^"
              THEN LET r == IF PowRhs = "mul" THEN PMul(t, l[2] + 1) ELSE PPow(t, l[2] + 1)
                   IN <<Bin("^", l[1], r[1]), r[2]>>
              ELSE l
PMulLoop(t, acc, p) == IF p <= Len(t) /\ IsMul(t[p])
                       THEN LET r == PPow(t, p + 1) IN PMulLoop(t, Bin(t[p], acc, r[1]), r[2])
                       ELSE <<acc, p>>
PMul(t, p) == LET l == PPow(t, p) IN PMulLoop(t, l[1], l[2])
PAddLoop(t, acc, p) == IF p <= Len(t) /\ IsAdd(t[p])
                       THEN LET r == PMul(t, p + 1) IN PAddLoop(t, Bin(t[p], acc, r[1]), r[2])
                       ELSE <<acc, p>>
PAdd(t, p) == LET l == PMul(t, p) IN PAddLoop(t, l[1], l[2])
PCmp(t, p) == LET l == PAdd(t, p) IN
              IF l[2] <= Len(t) /\ t[l[2]] = "<"
              THEN LET r == PCmp(t, l[2] + 1) IN <<Bin("<", l[1], r[1]), r[2]>>
              ELSE l
PSet(t, p) == LET l == PCmp(t, p) IN
              IF l[2] <= Len(t) /\ t[l[2]] = "UADD"
              THEN LET r == PSet(t, l[2] + 1) IN <<Bin("UADD", l[1], r[1]), r[2]>>
              ELSE l
Impl(t) == PSet(t, 1)[1]
\* ---------- reference: precedence climbing
Prec(o) == CASE o = "UADD" -> 1 [] o = "<" -> 2 [] IsAdd(o) -> 3 [] IsMul(o) -> 4 [] o = "^" -> 5
RECURSIVE Climb(_, _, _), ClimbLoop(_, _, _, _), Prim(_, _)
Prim(t, p) == IF t[p] = "(" THEN LET r == Climb(t, p + 1, 1) IN <<r[1], r[2] + 1>> ELSE <<t[p], p + 1>>
ClimbLoop(t, lhs, p, minp) ==
   IF p <= Len(t) /\ t[p] \in Ops /\ Prec(t[p]) >= minp
   THEN LET o == t[p]
            r == Climb(t, p + 1, Prec(o) + 1)
        IN ClimbLoop(t, Bin(o, lhs, r[1]), r[2], minp)
   ELSE <<lhs, p>>
Climb(t, p, minp) == LET a == Prim(t, p) IN ClimbLoop(t, a[1], a[2], minp)
Ref(t) == Climb(t, 1, 1)[1]
\* ---------- all token lists  x o y o z (o w (o v)), optionally with one parenthesised pair
Once(t, o) == Len(SelectSeq(t, LAMBDA x : x = o)) <= 1
NoChain(t) == Once(t, "^") /\ Once(t, "<") /\ Once(t, "UADD")
T2 == { <<"a", o1, "b">> : o1 \in Ops }
T3 == { <<"a", o1, "b", o2, "c">> : o1 \in Ops, o2 \in Ops }
T4 == { <<"a", o1, "b", o2, "c", o3, "d">> : o1 \in Ops, o2 \in Ops, o3 \in Ops }
T5 == { <<"a", o1, "b", o2, "c", o3, "d", o4, "e">> : o1 \in Ops, o2 \in Ops, o3 \in Ops, o4 \in Ops }
P4 == { <<"a", o1, "(", "b", o2, "c", ")", o3, "d">> : o1 \in Ops, o2 \in Ops, o3 \in Ops }
      \cup { <<"(", "a", o1, "b", ")", o2, "c", o3, "d">> : o1 \in Ops, o2 \in Ops, o3 \in Ops }
      \cup { <<"a", o1, "b", o2, "(", "c", o3, "d", ")">> : o1 \in Ops, o2 \in Ops, o3 \in Ops }
\* inside parentheses a chain restriction applies to the flat token list, which is stricter than needed
All == { t \in T2 \cup T3 \cup T4 \cup T5 \cup P4 : NoChain(t) }
VARIABLE t
Init == t \in All
Next == UNCHANGED t
Spec == Init /\ [][Next]_t
Agree == Impl(t) = Ref(t)
=============================================================================
