SPECIFICATION GSpec
CONSTANTS
  Wells <- GOnlyFree
  InputOrder <- None
  FreeOrder <- GFree
  FreeCells <- GFreeCells
  NK = 5
  MaxOps = 9
  MaxSteps = 4
  SmallSel <- GenSel
CONSTRAINT Emit
CONSTRAINT Useful
CHECK_DEADLOCK FALSE
