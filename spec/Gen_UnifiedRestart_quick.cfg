SPECIFICATION GSpec
CONSTANTS
  MaxStep = 3
  Payloads <- PayloadSmall
  MaxWrites = 4
  MaxArrs = 99
  SeekBackF = 31
  SeekBackU = 24
CONSTRAINT Emit
