---------------------------- MODULE MC_DeckSyntax ----------------------------
(* Base decks of the C01 / C19 grammar in canonical layout, and the model-   *)
(* checking / behaviour-generation instances of DeckSyntax.                  *)
EXTENDS DeckSyntax, Json
U(n) == <<KW(n, "upper")>>
I(n) == V(IntT(n))
D(id) == V(DblT(id))
S(s) == V(StrT(s, TRUE))
B(s) == V(StrT(s, FALSE))          \* bare (unquoted) string
R(s) == V(RawT(s))
St(n) == V(StarT(n, NoneT))
Rp(n, tok) == V(StarT(n, tok.v))

\* RUNSPEC / GRID / PROPS flavoured
BaseA == <<
  U("TITLE"), <<TTL(1)>>,
  U("OIL"), U("WATER"),
  U("EQLDIMS"), <<I(2), St(1), I(30), SL>>,
  U("TABDIMS"), <<I(2), I(2), SL>>,
  U("EQUIL"), <<D(1), D(2), I(2100), I(0), D(3), I(0), I(1), St(1), I(0), SL>>,
              <<I(2050), D(2), St(2), I(1950), SL>>,
  U("SWOF"), <<D(4), I(0), I(1), D(5), D(6), D(6), I(0), I(0), SL>>,
             <<D(4), I(0), D(6), I(0), I(1), I(1), I(0), I(0), SL>>,
  U("PVTO"), <<I(0), D(6), D(10), D(11), SL>>, <<I(50), I(100), D(11), D(5), SL>>, <<I(200), D(10), D(6), SL>>, <<SL>>,
             <<I(0), D(6), D(11), D(6), I(300), D(10), D(11), SL>>, <<SL>>,
  U("PORO"), <<D(4), D(4), D(4), St(1), St(1), D(5), SL>>,
  U("PERMX"), <<Rp(3, D(7)), D(8), D(8), SL>>,
  U("ACTNUM"), <<I(1), I(1), I(0), I(1), I(1), I(1), SL>>
>>
\* SCHEDULE flavoured
BaseB == <<
  U("GRUPTREE"), <<S("G1"), S("FIELD"), SL>>, <<S("G2"), St(1), SL>>, <<SL>>,
  U("WELSPECS"), <<S("P1"), S("G1"), I(3), I(4), D(1), S("OIL"), St(1), S("STD"), St(3), I(1), SL>>,
                 <<S("P-2"), B("G2"), I(1), I(1), St(1), B("WATER"), SL>>,
                 <<S("I\"3"), S("G 2"), I(2), I(2), St(1), B("GAS"), SL>>, <<SL>>,      \* (one double quote inside a quoted string)
  U("WCONPROD"), <<S("P1"), B("OPEN"), B("ORAT"), D(9), St(4), I(50), SL>>,
                 <<S("P*"), S("SHUT"), S("BHP"), B("WUOPR"), St(1), D(5), SL>>, <<SL>>,
  U("DATES"), <<I(1), S("JAN"), I(2020), SL>>, <<I(15), B("FEB"), I(2020), S("12:00:00"), SL>>, <<SL>>,
  U("RPTSCHED"), <<S("FIP=2"), B("WELLS"), B("RESTART=2"), SL>>,
  U("UDQ"), <<R("DEFINE"), B("WUX"), R("(WOPR"), R("+"), R("1)"), R("/"), R("2"), SL>>,
            <<R("ASSIGN"), B("FU1"), R("0.5"), SL>>,
            <<R("UNITS"), B("WUX"), R("'SM3/DAY'"), SL>>, <<SL>>,
  U("MULTREGT"), <<I(1), I(2), D(5), S("XY"), St(2), SL>>, <<I(2), I(3), D(4), SL>>, <<SL>>,
  U("WLIST"), <<S("*L1"), B("NEW"), S("P1"), S("P-2"), SL>>, <<S("*L2"), St(3), SL>>, <<S("*L3"), B("ADD"), St(1), S("P1"), SL>>, <<SL>>,
  U("TSTEP"), <<I(1), I(1), I(1), D(9), SL>>
>>
\* a deck whose keyword sizes come from defaulted / absent dimension keywords
BaseC == <<
  U("WATER"), U("OIL"),
  U("EQLDIMS"), <<SL>>,
  U("TABDIMS"), <<St(3), SL>>,
  U("TITLE"), <<TTL(1)>>,          \* (a title after a record that ends in defaults)
  U("EQUIL"), <<D(1), D(2), SL>>,
  U("SWOF"), <<D(4), I(0), I(1), I(0), SL>>,
  U("UDQ"), <<R("DEFINE"), B("FUX"), R("FOPR"), R("/"), R("FWPR"), SL>>, <<SL>>,
  U("PORO"), <<St(2), Rp(2, D(4)), St(2), SL>>,
  U("TSTEP"), <<Rp(2, D(9)), SL>>
>>
MCBases == [A |-> BaseA, B |-> BaseB, C |-> BaseC]
MCComments == {1, 2}
MCTrails == {1, 2}
GenComments == 1..6
GenTrails == 1..4
\* behaviour generation: print every text whose rewrite budget is used up (or that has no further rewrite)
\* (every successor of the last state is a complete behaviour; one in Thin of them is printed)
Thin == 25
One == 1
Emit == IF Len(hist) >= MaxRewrites
        THEN (IF RandomElement(1..Thin) = 1
              THEN PrintT(<<"GEN", ToJson([base |-> base, text |-> text, hist |-> hist, deck |-> Meaning(text)])>>) ELSE TRUE) /\ FALSE
        ELSE TRUE
=============================================================================
