SPECIFICATION TraceSpec
CONSTANTS
  MaxSeg = 100000
  MaxRecs = 100000
  MaxComps = 100000
  MinRecs = 1
  NCells = 100000
POSTCONDITION TraceAccepted
CHECK_DEADLOCK FALSE
