SPECIFICATION Spec
CONSTANTS
 MaxOps = 3
 Sweep = FALSE
CONSTRAINT Emit
CHECK_DEADLOCK FALSE
