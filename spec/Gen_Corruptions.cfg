SPECIFICATION Spec
CONSTANT MaxOps = 3
CONSTRAINT Emit
CHECK_DEADLOCK FALSE
