---- MODULE Network_TTrace_1791019830 ----
EXTENDS Sequences, TLCExt, Toolbox, Network, Naturals, TLC

_expression ==
    LET Network_TEExpression == INSTANCE Network_TEExpression
    IN Network_TEExpression!expression
----

_trace ==
    LET Network_TETrace == INSTANCE Network_TETrace
    IN Network_TETrace!trace
----

_inv ==
    ~(
        TLCGet("level") = Len(_TETrace)
        /\
        standard = (FALSE)
        /\
        nodes = ([FIELD |-> [p |-> -1, lift |-> FALSE], G1 |-> [p |-> -1, lift |-> FALSE]])
        /\
        nops = (3)
        /\
        lastRes = ("ok")
        /\
        branches = (<<[up |-> "FIELD", down |-> "G1", vfp |-> 1], [up |-> "G1", down |-> "FIELD", vfp |-> 1]>>)
        /\
        order = (<<"G1", "FIELD">>)
    )
----

_init ==
    /\ branches = _TETrace[1].branches
    /\ nops = _TETrace[1].nops
    /\ standard = _TETrace[1].standard
    /\ nodes = _TETrace[1].nodes
    /\ lastRes = _TETrace[1].lastRes
    /\ order = _TETrace[1].order
----

_next ==
    /\ \E i,j \in DOMAIN _TETrace:
        /\ \/ /\ j = i + 1
              /\ i = TLCGet("level")
        /\ branches  = _TETrace[i].branches
        /\ branches' = _TETrace[j].branches
        /\ nops  = _TETrace[i].nops
        /\ nops' = _TETrace[j].nops
        /\ standard  = _TETrace[i].standard
        /\ standard' = _TETrace[j].standard
        /\ nodes  = _TETrace[i].nodes
        /\ nodes' = _TETrace[j].nodes
        /\ lastRes  = _TETrace[i].lastRes
        /\ lastRes' = _TETrace[j].lastRes
        /\ order  = _TETrace[i].order
        /\ order' = _TETrace[j].order

\* Uncomment the ASSUME below to write the states of the error trace
\* to the given file in Json format. Note that you can pass any tuple
\* to `JsonSerialize`. For example, a sub-sequence of _TETrace.
    \* ASSUME
    \*     LET J == INSTANCE Json
    \*         IN J!JsonSerialize("Network_TTrace_1791019830.json", _TETrace)

=============================================================================

 Note that you can extract this module `Network_TEExpression`
  to a dedicated file to reuse `expression` (the module in the 
  dedicated `Network_TEExpression.tla` file takes precedence 
  over the module `Network_TEExpression` below).

---- MODULE Network_TEExpression ----
EXTENDS Sequences, TLCExt, Toolbox, Network, Naturals, TLC

expression == 
    [
        \* To hide variables of the `Network` spec from the error trace,
        \* remove the variables below.  The trace will be written in the order
        \* of the fields of this record.
        branches |-> branches
        ,nops |-> nops
        ,standard |-> standard
        ,nodes |-> nodes
        ,lastRes |-> lastRes
        ,order |-> order
        
        \* Put additional constant-, state-, and action-level expressions here:
        \* ,_stateNumber |-> _TEPosition
        \* ,_branchesUnchanged |-> branches = branches'
        
        \* Format the `branches` variable as Json value.
        \* ,_branchesJson |->
        \*     LET J == INSTANCE Json
        \*     IN J!ToJson(branches)
        
        \* Lastly, you may build expressions over arbitrary sets of states by
        \* leveraging the _TETrace operator.  For example, this is how to
        \* count the number of times a spec variable changed up to the current
        \* state in the trace.
        \* ,_branchesModCount |->
        \*     LET F[s \in DOMAIN _TETrace] ==
        \*         IF s = 1 THEN 0
        \*         ELSE IF _TETrace[s].branches # _TETrace[s-1].branches
        \*             THEN 1 + F[s-1] ELSE F[s-1]
        \*     IN F[_TEPosition - 1]
    ]

=============================================================================



Parsing and semantic processing can take forever if the trace below is long.
 In this case, it is advised to uncomment the module below to deserialize the
 trace from a generated binary file.

\*
\*---- MODULE Network_TETrace ----
\*EXTENDS IOUtils, Network, TLC
\*
\*trace == IODeserialize("Network_TTrace_1791019830.bin", TRUE)
\*
\*=============================================================================
\*

---- MODULE Network_TETrace ----
EXTENDS Network, TLC

trace == 
    <<
    ([standard |-> FALSE,nodes |-> <<>>,nops |-> 0,lastRes |-> "ok",branches |-> <<>>,order |-> <<>>]),
    ([standard |-> FALSE,nodes |-> <<>>,nops |-> 1,lastRes |-> "ok",branches |-> <<>>,order |-> <<>>]),
    ([standard |-> FALSE,nodes |-> [FIELD |-> [p |-> -1, lift |-> FALSE], G1 |-> [p |-> -1, lift |-> FALSE]],nops |-> 2,lastRes |-> "ok",branches |-> <<[up |-> "FIELD", down |-> "G1", vfp |-> 1]>>,order |-> <<"G1", "FIELD">>]),
    ([standard |-> FALSE,nodes |-> [FIELD |-> [p |-> -1, lift |-> FALSE], G1 |-> [p |-> -1, lift |-> FALSE]],nops |-> 3,lastRes |-> "ok",branches |-> <<[up |-> "FIELD", down |-> "G1", vfp |-> 1], [up |-> "G1", down |-> "FIELD", vfp |-> 1]>>,order |-> <<"G1", "FIELD">>])
    >>
----


=============================================================================

---- CONFIG Network_TTrace_1791019830 ----
CONSTANTS
    Names = { "FIELD" , "G1" , "G2" }
    MaxOps = 3

INVARIANT
    _inv

CHECK_DEADLOCK
    \* CHECK_DEADLOCK off because of PROPERTY or INVARIANT above.
    FALSE

INIT
    _init

NEXT
    _next

CONSTANT
    _TETrace <- _trace

ALIAS
    _expression
=============================================================================
\* Generated on Sat Oct 03 09:30:31 UTC 2026