SPECIFICATION Spec
CONSTANTS
  BaseTexts <- MCBases
  MaxRewrites = 6
  CommentIds <- GenComments
  TrailIds <- GenTrails
CONSTRAINT Emit
CHECK_DEADLOCK FALSE
