---- MODULE MC_EclFileFormat_TTrace_1790964315 ----
EXTENDS MC_EclFileFormat, Sequences, TLCExt, Toolbox, Naturals, TLC

_expression ==
    LET MC_EclFileFormat_TEExpression == INSTANCE MC_EclFileFormat_TEExpression
    IN MC_EclFileFormat_TEExpression!expression
----

_trace ==
    LET MC_EclFileFormat_TETrace == INSTANCE MC_EclFileFormat_TETrace
    IN MC_EclFileFormat_TETrace!trace
----

_inv ==
    ~(
        TLCGet("level") = Len(_TETrace)
        /\
        fmt = (TRUE)
        /\
        arrs = (<<[t |-> "INTE", w |-> 0, n |-> 0]>>)
    )
----

_init ==
    /\ fmt = _TETrace[1].fmt
    /\ arrs = _TETrace[1].arrs
----

_next ==
    /\ \E i,j \in DOMAIN _TETrace:
        /\ \/ /\ j = i + 1
              /\ i = TLCGet("level")
        /\ fmt  = _TETrace[i].fmt
        /\ fmt' = _TETrace[j].fmt
        /\ arrs  = _TETrace[i].arrs
        /\ arrs' = _TETrace[j].arrs

\* Uncomment the ASSUME below to write the states of the error trace
\* to the given file in Json format. Note that you can pass any tuple
\* to `JsonSerialize`. For example, a sub-sequence of _TETrace.
    \* ASSUME
    \*     LET J == INSTANCE Json
    \*         IN J!JsonSerialize("MC_EclFileFormat_TTrace_1790964315.json", _TETrace)

=============================================================================

 Note that you can extract this module `MC_EclFileFormat_TEExpression`
  to a dedicated file to reuse `expression` (the module in the 
  dedicated `MC_EclFileFormat_TEExpression.tla` file takes precedence 
  over the module `MC_EclFileFormat_TEExpression` below).

---- MODULE MC_EclFileFormat_TEExpression ----
EXTENDS MC_EclFileFormat, Sequences, TLCExt, Toolbox, Naturals, TLC

expression == 
    [
        \* To hide variables of the `MC_EclFileFormat` spec from the error trace,
        \* remove the variables below.  The trace will be written in the order
        \* of the fields of this record.
        fmt |-> fmt
        ,arrs |-> arrs
        
        \* Put additional constant-, state-, and action-level expressions here:
        \* ,_stateNumber |-> _TEPosition
        \* ,_fmtUnchanged |-> fmt = fmt'
        
        \* Format the `fmt` variable as Json value.
        \* ,_fmtJson |->
        \*     LET J == INSTANCE Json
        \*     IN J!ToJson(fmt)
        
        \* Lastly, you may build expressions over arbitrary sets of states by
        \* leveraging the _TETrace operator.  For example, this is how to
        \* count the number of times a spec variable changed up to the current
        \* state in the trace.
        \* ,_fmtModCount |->
        \*     LET F[s \in DOMAIN _TETrace] ==
        \*         IF s = 1 THEN 0
        \*         ELSE IF _TETrace[s].fmt # _TETrace[s-1].fmt
        \*             THEN 1 + F[s-1] ELSE F[s-1]
        \*     IN F[_TEPosition - 1]
    ]

=============================================================================



Parsing and semantic processing can take forever if the trace below is long.
 In this case, it is advised to uncomment the module below to deserialize the
 trace from a generated binary file.

\*
\*---- MODULE MC_EclFileFormat_TETrace ----
\*EXTENDS MC_EclFileFormat, IOUtils, TLC
\*
\*trace == IODeserialize("MC_EclFileFormat_TTrace_1790964315.bin", TRUE)
\*
\*=============================================================================
\*

---- MODULE MC_EclFileFormat_TETrace ----
EXTENDS MC_EclFileFormat, TLC

trace == 
    <<
    ([fmt |-> TRUE,arrs |-> <<>>]),
    ([fmt |-> TRUE,arrs |-> <<[t |-> "INTE", w |-> 0, n |-> 0]>>])
    >>
----


=============================================================================

---- CONFIG MC_EclFileFormat_TTrace_1790964315 ----
CONSTANTS
    Lengths <- LenEdge
    CWidths = { 9 }
    MaxArrs = 2
    SeekBackF = 30
    SeekBackU = 24

INVARIANT
    _inv

CHECK_DEADLOCK
    \* CHECK_DEADLOCK off because of PROPERTY or INVARIANT above.
    FALSE

INIT
    _init

NEXT
    _next

CONSTANT
    _TETrace <- _trace

ALIAS
    _expression
=============================================================================
\* Generated on Fri Oct 02 18:05:16 UTC 2026