SPECIFICATION Spec
CONSTANTS
  MaxSteps = 3
  MaxKw = 1
  RstOps <- QRstOps
  SchedOps <- QSchedOps
  SolOps <- MCSolOps
  StartMonths <- MCStart
  IntOps <- MCIntOps
  Dms <- MCDms
VIEW View
INVARIANTS AlwaysNever Nth Spaced NoneSkipped
PROPERTY EventsGrow
CHECK_DEADLOCK FALSE
