SPECIFICATION TraceSpec
INVARIANTS GeomOk IndexBijection PositiveVolumes Additive
POSTCONDITION TraceAccepted
CHECK_DEADLOCK FALSE
