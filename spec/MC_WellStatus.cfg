SPECIFICATION Spec
CONSTANTS
  Wells = {"W1", "W2"}
  Layers = {1, 2}
  MaxOps = 2
  MaxSteps = 3
INVARIANT OpenMeansConnected
PROPERTIES ChangeAnnounced ConnsGrow
CHECK_DEADLOCK FALSE
