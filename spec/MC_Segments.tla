---------------------------- MODULE MC_Segments ----------------------------
EXTENDS Segments
MCDzs == {5}
MCAreas == {2}
MCVols == {None}
MCStarts == {0, 5, 8, 13}
MCWidths == {4, 10}
DDls == {5}
DStarts == {0, 8, 13}
DWidths == {4}
=============================================================================
