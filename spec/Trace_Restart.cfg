SPECIFICATION TraceSpec
CONSTANTS
  States <- NoStates
  MaxStep = 100
POSTCONDITION TraceAccepted
CHECK_DEADLOCK FALSE
