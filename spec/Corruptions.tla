---------------------------- MODULE Corruptions ----------------------------
(***************************************************************************)
(* Structure-aware corruption of input decks and result files (property    *)
(* C20).  A corruption script is a short sequence of operators; positions  *)
(* are abstract (a percentage of the lines / a token index / a byte offset *)
(* class) and are resolved against the concrete text by the driver, so the *)
(* same scripts apply to every base input.  Whatever the script, the       *)
(* library must answer with a result or with an exception derived from     *)
(* std::exception - never a signal, a sanitizer report, a foreign          *)
(* exception or no answer within the time bound.                           *)
(***************************************************************************)
EXTENDS Integers, Sequences, FiniteSets, TLC, Json
CONSTANTS MaxOps
DeckOps ==
    [op : {"DropToken", "DupToken", "DropLine", "DupLine", "TruncateAfter", "DropSlash", "AddSlash", "OpenQuote", "SpliceLine"},
     line : {0, 7, 13, 29, 41, 53, 67, 79, 91, 99}, tok : 0..3]
    \cup [op : {"BumpInt"}, line : {0, 7, 13, 29, 41, 53, 67, 79, 91, 99}, tok : 0..5,
          how : {"plus1", "minus1", "times10", "zero", "negative", "huge"}]
    \cup [op : {"ReplaceToken"}, line : {7, 29, 53, 79, 99}, tok : 0..3,
          with : {"99999999*1", "-3*1", "0*", "1*2*3", "'", "/", "1e999", "--", "*", "INCLUDE", "ENDSKIP", "SKIP", "1.0D400", "nan", "0x10",
                  "AVERYLONGWORDAVERYLONGWORDAVERYLONGWORDAVERYLONGWORDAVERYLONGWORDAVERYLONGWORD"}]
    \cup [op : {"FlipByte"}, pos : {1, 10, 25, 50, 75, 90, 99}, bit : {0, 3, 7}]
FileOps ==
    [op : {"TruncateAt"}, where : {"header", "afterHeader", "midData", "tail", "lastByte"}, rec : 0..6]
    \cup [op : {"SetCount"}, rec : 0..6, to : {"zero", "negative", "plus1", "huge"}]
    \cup [op : {"SetType"}, rec : 0..6, to : {"INTE", "REAL", "DOUB", "CHAR", "C0XX", "MESS", "XXXX", "LOGI"}]
    \cup [op : {"SetMarker"}, rec : 0..6, which : {"head", "tail"}, to : {"zero", "plus4", "huge"}]
    \cup [op : {"FlipByte"}, pos : {1, 10, 25, 50, 75, 90, 99}, bit : {0, 3, 7}]
\* systematic family: every integer of the first records of every keyword the models use, perturbed in every way
KwNames == {"ACTDIMS", "ACTIONX", "COMPDAT", "COMPSEGS", "DATES", "DENSITY", "DIMENS", "DX", "DY", "DZ", "EQLDIMS", "EQLNUM", "EQLOPTS", "EQUIL", "FAULTDIM", "FAULTS", "FLUXNUM", "GCONPROD", "GEFAC", "GRUPTREE", "MULTFLT", "MULTREGT", "NNC", "PERMX", "PERMY", "PERMZ", "PLMIXPAR", "PLYADS", "PLYMAX", "PLYROCK", "PLYSHLOG", "PLYVISC", "PORO", "PVTG", "PVTNUM", "PVTO", "PVTW", "REGDIMS", "ROCKCOMP", "ROCKTAB", "RPTRST", "RPTSCHED", "RPTSOL", "RSVD", "SATNUM", "SGFN", "SGOF", "SOF3", "START", "SWFN", "SWOF", "TABDIMS", "THPRES", "TOPS", "TRACER", "TRACERS", "UDQ", "UDQDIMS", "VFPPDIMS", "VFPPROD", "WCONINJE", "WCONPROD", "WELLDIMS", "WELOPEN", "WELSEGS", "WELSPECS", "WELTARG", "WSEGDIMS", "WTEST"}
SweepOps == [op : {"BumpKwInt"}, kw : KwNames, tok : 0..7, how : {"plus1", "minus1", "times10", "zero", "negative", "huge"}]
            \* ... and every one of the first records of every keyword made longer (its last value repeated) or shorter
            \cup [op : {"ResizeRecord"}, kw : KwNames, rec : 0..15, by : {-1, 1, 4}]
VARIABLES kind, script
vars == <<kind, script>>
CONSTANT Sweep
Init == IF Sweep THEN kind = "sweep" /\ script \in {<<o>> : o \in SweepOps}
        ELSE kind \in {"deck", "file"} /\ script = <<>>
Add == /\ ~Sweep /\ Len(script) < MaxOps
       /\ \E o \in (IF kind = "deck" THEN DeckOps ELSE FileOps) : script' = Append(script, o)
       /\ UNCHANGED kind
Next == Add
Spec == Init /\ [][Next]_vars
Thin == 40
Emit == IF Len(script) >= 1 /\ (Sweep \/ RandomElement(1..Thin) = 1) THEN PrintT(<<"GEN", ToJson([kind |-> kind, script |-> script])>>) ELSE TRUE
\* ---- what the library may answer
Allowed == {"result", "exception"}
OutcomeOk(o) == o \in Allowed
=============================================================================
