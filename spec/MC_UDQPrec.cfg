SPECIFICATION Spec
CONSTANT PowRhs = "pow"
INVARIANT Agree
