---------------------------- MODULE Trace_Schedule ----------------------------
(***************************************************************************)
(* Causality of the schedule (C03) over recorded observations.  For one    *)
(* input (Reset) the harness builds the schedule from the whole input      *)
(* ("full"), from every prefix of k blocks and from prefixes continued     *)
(* with a different tail; each build is followed by one Snap event per      *)
(* snapshot carrying a member-wise digest of the snapshot.                 *)
(* The state at report step j (0-based) is determined by blocks 1..j+1:    *)
(* every run whose input agrees with the full input on the first k blocks  *)
(* must show, for all j < k, exactly what the full run showed.             *)
(***************************************************************************)
EXTENDS Integers, Sequences, TLC, Json, IOUtils
TraceLog == ndJsonDeserialize(IOEnv.TRACE)
VARIABLES l,
          obs,        \* observations of the full run, by step (sequence)
          prefix,     \* number of blocks the current run shares with the full input
          fullOk      \* the full input built without error
tvars == <<l, obs, prefix, fullOk>>
Ev == TraceLog[l]
IsEvent(e) == l <= Len(TraceLog) /\ TraceLog[l].e = e /\ l' = l + 1
TInit == l = 1 /\ obs = <<>> /\ prefix = 0 /\ fullOk = FALSE
TReset == IsEvent("Reset") /\ obs' = <<>> /\ prefix' = 0 /\ fullOk' = FALSE
TBuildFull == /\ IsEvent("Build") /\ Ev.run = "full"
              /\ fullOk' = (Ev.res = "ok") /\ prefix' = Ev.prefix /\ UNCHANGED obs
\* a build of a prefix of an accepted input must be accepted as well
TBuild == /\ IsEvent("Build") /\ Ev.run # "full"
          /\ (fullOk /\ SubSeq(Ev.run, 1, 3) = "pre") => Ev.res = "ok"
          /\ prefix' = Ev.prefix /\ UNCHANGED <<obs, fullOk>>
TSnapFull == /\ IsEvent("Snap") /\ Ev.run = "full" /\ Ev.step = Len(obs)
             /\ obs' = Append(obs, Ev.proj) /\ UNCHANGED <<prefix, fullOk>>
Causal == (fullOk /\ Ev.step < prefix /\ Ev.step < Len(obs)) => Ev.proj = obs[Ev.step + 1]
TSnap == IsEvent("Snap") /\ Ev.run # "full" /\ Causal /\ UNCHANGED <<obs, prefix, fullOk>>
\* which members differ (diagnosis; never a step)
TDiag == /\ l <= Len(TraceLog) /\ Ev.e = "Snap" /\ Ev.run # "full" /\ ~Causal
         /\ PrintT(<<"DIAG", l, [run |-> Ev.run, step |-> Ev.step,
                                 differs |-> {m \in DOMAIN Ev.proj : Ev.proj[m] # obs[Ev.step + 1][m]}]>>)
         /\ FALSE /\ UNCHANGED tvars
TNext == TReset \/ TBuildFull \/ TBuild \/ TSnapFull \/ TSnap \/ TDiag
TraceSpec == TInit /\ [][TNext]_tvars
TraceAccepted == TLCGet("stats").diameter - 1 = Len(TraceLog)
=============================================================================
