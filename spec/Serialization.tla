--------------------------- MODULE Serialization ---------------------------
(***************************************************************************)
(* The pack / unpack protocol (property C11).  An object is transferred in *)
(* four traversals of the same serializeOp code: a size pass that adds up  *)
(* the bytes of every primitive field, a pack pass that writes them at     *)
(* increasing positions of a buffer of exactly that size, an unpack pass   *)
(* over the buffer into a fresh object, and - for the round-trip check - a *)
(* pack pass of the unpacked object.  A value is a sequence of elements; an*)
(* element is a primitive (kind, bytes) or a container, which is sent as   *)
(* its count followed by its elements, so the traversal of the receiver    *)
(* depends on data it has just read.                                       *)
(*                                                                         *)
(* What must hold for every object: the four traversals visit the same     *)
(* fields (kind and size) in the same order, the pack pass fills the       *)
(* buffer exactly, the unpack pass consumes it exactly, the unpacked       *)
(* object is equal to the original and packs to the same fields.           *)
(***************************************************************************)
EXTENDS Integers, Sequences, FiniteSets, TLC

\* ---- the design: values and their traversal
Prim(k, n) == [c |-> "prim", k |-> k, n |-> n]
Cont(es) == [c |-> "cont", es |-> es]
CountField == [k |-> 1, n |-> 8]
RECURSIVE FieldsOf(_)
FieldsOf(v) == IF v = <<>> THEN <<>>
               ELSE LET e == Head(v) IN
                    (IF e.c = "prim" THEN <<[k |-> e.k, n |-> e.n]>> ELSE <<CountField>> \o FieldsOf(e.es)) \o FieldsOf(Tail(v))
RECURSIVE Bytes(_)
Bytes(fs) == IF fs = <<>> THEN 0 ELSE Head(fs).n + Bytes(Tail(fs))

VARIABLES phase,      \* "size", "pack", "unpack", "repack", "done"
          obj,        \* the value being transferred (design level) - or <<>> when a trace is validated
          i,          \* index of the next field of the current traversal
          sizeSum, packPos, unpackPos, repackPos
vars == <<phase, obj, i, sizeSum, packPos, unpackPos, repackPos>>

\* one field of each traversal; the receiver's fields are those of the value it reconstructs, which is the value sent
SizeField == /\ phase = "size" /\ i <= Len(FieldsOf(obj)) /\ sizeSum' = sizeSum + FieldsOf(obj)[i].n /\ i' = i + 1
             /\ UNCHANGED <<phase, obj, packPos, unpackPos, repackPos>>
PackField == /\ phase = "pack" /\ i <= Len(FieldsOf(obj)) /\ packPos' = packPos + FieldsOf(obj)[i].n /\ i' = i + 1
             /\ UNCHANGED <<phase, obj, sizeSum, unpackPos, repackPos>>
UnpackField == /\ phase = "unpack" /\ i <= Len(FieldsOf(obj)) /\ unpackPos' = unpackPos + FieldsOf(obj)[i].n /\ i' = i + 1
               /\ UNCHANGED <<phase, obj, sizeSum, packPos, repackPos>>
RepackField == /\ phase = "repack" /\ i <= Len(FieldsOf(obj)) /\ repackPos' = repackPos + FieldsOf(obj)[i].n /\ i' = i + 1
               /\ UNCHANGED <<phase, obj, sizeSum, packPos, unpackPos>>
NextPhase == /\ phase # "done" /\ i > Len(FieldsOf(obj))
             /\ phase' = CASE phase = "size" -> "pack" [] phase = "pack" -> "unpack" [] phase = "unpack" -> "repack" [] phase = "repack" -> "done"
             /\ i' = 1 /\ UNCHANGED <<obj, sizeSum, packPos, unpackPos, repackPos>>
CONSTANT Values
Init == obj \in Values /\ phase = "size" /\ i = 1 /\ sizeSum = 0 /\ packPos = 0 /\ unpackPos = 0 /\ repackPos = 0
Next == SizeField \/ PackField \/ UnpackField \/ RepackField \/ NextPhase
Spec == Init /\ [][Next]_vars

\* never beyond the buffer, and at the end everything agrees
InBounds == packPos <= Bytes(FieldsOf(obj)) /\ unpackPos <= Bytes(FieldsOf(obj))
Exact == phase = "done" => /\ sizeSum = Bytes(FieldsOf(obj)) /\ packPos = sizeSum /\ unpackPos = sizeSum /\ repackPos = sizeSum
\* positions only move forward
Forward == [][packPos' >= packPos /\ unpackPos' >= unpackPos /\ repackPos' >= repackPos]_vars
=============================================================================
