-------------------------- MODULE Gen_EclFileFormat --------------------------
(* Behaviour generation for C07: every sequence of exactly MaxArrs arrays     *)
(* over Types x Lengths is printed as one JSON line.                          *)
EXTENDS MC_EclFileFormat, Json
Emit == IF Len(arrs) = MaxArrs
        THEN PrintT(<<"GEN", ToJson([fmt |-> fmt, arrays |-> arrs])>>) /\ FALSE
        ELSE TRUE
=============================================================================
