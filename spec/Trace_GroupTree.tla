--------------------------- MODULE Trace_GroupTree ---------------------------
(* Trace validation: the group tree the real Schedule presents at every report *)
(* step against GroupTree.                                                     *)
EXTENDS GroupTree, Json, IOUtils
TraceLog == ndJsonDeserialize(IOEnv.TRACE)
VARIABLE l
tvars == <<gvars, l>>
Ev == TraceLog[l]
IsEvent(e) == l <= Len(TraceLog) /\ TraceLog[l].e = e /\ l' = l + 1
TInit == l = 1 /\ GInit
TReset == IsEvent("Reset") /\ parent' = <<>> /\ wgroup' = <<>>
Range(s) == {s[i] : i \in DOMAIN s}
After == ApplyBlock(parent, wgroup, Ev.block)
ObsOk == LET par == After[1]  wg == After[2] IN
         /\ IsTree(par)
         /\ DOMAIN Ev.tree = Groups(par)
         /\ \A g \in Groups(par) :
               /\ Ev.tree[g].parent = (IF g = "FIELD" THEN "" ELSE par[g])
               /\ Range(Ev.tree[g].groups) = Children(par, g)
               /\ Range(Ev.tree[g].wells) = WellsIn(wg, g)
TStep == IsEvent("Step") /\ Ev.res = "ok" /\ ObsOk /\ parent' = After[1] /\ wgroup' = After[2]
TDiag == /\ l <= Len(TraceLog) /\ Ev.e = "Step" /\ ~ENABLED TStep
         /\ PrintT(<<"DIAG", l, [parent |-> After[1], wells |-> After[2]]>>) /\ FALSE /\ UNCHANGED tvars
TSkip == IsEvent("Skip") /\ UNCHANGED gvars
TNext == TReset \/ TStep \/ TSkip \/ TDiag
TraceSpec == TInit /\ [][TNext]_tvars
TraceAccepted == TLCGet("stats").diameter - 1 = Len(TraceLog)
=============================================================================
