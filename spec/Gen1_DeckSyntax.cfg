SPECIFICATION Spec
CONSTANTS
  BaseTexts <- MCBases
  MaxRewrites = 1
  CommentIds <- GenComments
  TrailIds <- GenTrails
  Thin <- One
CONSTRAINT Emit
CHECK_DEADLOCK FALSE
