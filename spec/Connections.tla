---------------------------- MODULE Connections ----------------------------
(***************************************************************************)
(* The connection list of a well under COMPDAT, WPIMULT and WELOPEN with   *)
(* connection items (second half of property C06).                         *)
(*                                                                         *)
(* A well's connections all lie in its head column here, so a cell is its  *)
(* layer k.  A connection is                                               *)
(*    [k, complnum, sort, state, rec, mult]                                *)
(* where rec identifies the COMPDAT record whose values it carries and     *)
(* mult is the product of the productivity multipliers applied since.      *)
(* COMPDAT on an existing cell replaces the connection in place: position, *)
(* completion number and sort value stay, values and state are the new     *)
(* record's, the multiplier starts again at 1.  A new cell is appended with*)
(* completion number and sort value following the current size.  WPIMULT   *)
(* with a cell or completion range scales the selected connections at      *)
(* once; WPIMULT with everything defaulted is remembered per well - the    *)
(* last one of the report step wins - and scales every connection of the   *)
(* well when the report step ends.  WELOPEN with connection items changes  *)
(* only the state of the selected connections.                             *)
(*                                                                         *)
(* The order of the list: input order (COMPORD INPUT) or, by default,      *)
(* along the well track, which for a vertical well is increasing k.  For   *)
(* wells with laterals (FreeOrder) the track order itself is not modelled: *)
(* what is required is that it is stable - an operation never changes the  *)
(* relative order of the connections that were there before it.            *)
(***************************************************************************)
EXTENDS Integers, Sequences, FiniteSets, TLC

CONSTANTS Wells, NK, MaxOps, MaxSteps, InputOrder,     \* InputOrder \subseteq Wells
          FreeOrder, FreeCells   \* wells with laterals: their cells are ids from FreeCells, their track order is not modelled

Sel == [k : (0..NK) \cup FreeCells, c1 : 0..NK, c2 : 0..NK, ij : {"default", "head", "other"}]   \* 0 = defaulted
Matches(c, s) == /\ s.ij # "other"
                 /\ (s.k = 0 \/ c.k = s.k)
                 /\ (s.c1 = 0 \/ c.complnum >= s.c1)
                 /\ (s.c2 = 0 \/ c.complnum <= s.c2)
AllDefault(s) == s.k = 0 /\ s.c1 = 0 /\ s.c2 = 0 /\ s.ij = "default"

\* insertion into a sequence sorted by k
RECURSIVE InsertByK(_, _)
InsertByK(seq, c) == IF seq = <<>> THEN <<c>>
                     ELSE IF c.k < Head(seq).k THEN <<c>> \o seq
                     ELSE <<Head(seq)>> \o InsertByK(Tail(seq), c)

\* one layer of a COMPDAT record
CompdatCell(w, cs, k, state, rec) ==
    IF \E n \in 1..Len(cs) : cs[n].k = k
    THEN [n \in 1..Len(cs) |-> IF cs[n].k = k
                               THEN [cs[n] EXCEPT !.state = state, !.rec = rec, !.mult = 1, !.skin = 0]
                               ELSE cs[n]]
    ELSE LET c == [k |-> k, complnum |-> Len(cs) + 1, sort |-> Len(cs), state |-> state, rec |-> rec, mult |-> 1, skin |-> 0]
         IN IF w \in InputOrder \cup FreeOrder THEN Append(cs, c) ELSE InsertByK(cs, c)
RECURSIVE CompdatRange(_, _, _, _, _, _)
CompdatRange(w, cs, k1, k2, state, rec) ==
    IF k1 > k2 THEN cs ELSE CompdatRange(w, CompdatCell(w, cs, k1, state, rec), k1 + 1, k2, state, rec)

Scale(cs, s, f) == [n \in 1..Len(cs) |-> IF Matches(cs[n], s) THEN [cs[n] EXCEPT !.mult = @ * f] ELSE cs[n]]
SetState(cs, s, state) == [n \in 1..Len(cs) |-> IF Matches(cs[n], s) THEN [cs[n] EXCEPT !.state = state] ELSE cs[n]]

InLayers(c, k1, k2) == (k1 = 0 \/ c.k >= k1) /\ (k2 = 0 \/ c.k <= k2)
\* CSKIN gives the connections of a layer range a new skin factor; the connection factor follows the Peaceman
\* denominator (skin 1 stands for a skin equal to the denominator at skin 0: the factor halves; 0 restores it)
SetSkin(cs, k1, k2, sk) == [i \in 1..Len(cs) |-> IF InLayers(cs[i], k1, k2) THEN [cs[i] EXCEPT !.skin = sk] ELSE cs[i]]
Lump(cs, k1, k2, n) == [i \in 1..Len(cs) |-> IF InLayers(cs[i], k1, k2) THEN [cs[i] EXCEPT !.complnum = n] ELSE cs[i]]
\* an operation is a record [op, well, ...]; st = [conns : well -> seq, pending : well -> factor or 0, lumped : well -> BOOLEAN]
ApplyOp(st, o) ==
    CASE o.op = "COMPDAT" -> [st EXCEPT !.conns[o.well] = CompdatRange(o.well, @, o.k1, o.k2, o.state, o.rec)]
      [] o.op = "WPIMULT" -> IF AllDefault(o.sel) THEN [st EXCEPT !.pending[o.well] = o.f]
                             ELSE [st EXCEPT !.conns[o.well] = Scale(@, o.sel, o.f)]
      [] o.op = "WELOPEN" -> [st EXCEPT !.conns[o.well] = SetState(@, o.sel, o.state)]
      \* COMPLUMP gives the connections of a layer range the same completion number
      [] o.op = "COMPLUMP" -> [st EXCEPT !.conns[o.well] = Lump(@, o.k1, o.k2, o.n), !.lumped[o.well] = TRUE]
      [] o.op = "CSKIN" -> [st EXCEPT !.conns[o.well] = SetSkin(@, o.k1, o.k2, o.skin)]
EndStep(st) == [conns |-> [w \in Wells |-> IF st.pending[w] = 0 THEN st.conns[w]
                                           ELSE Scale(st.conns[w], [k |-> 0, c1 |-> 0, c2 |-> 0, ij |-> "default"], st.pending[w])],
                pending |-> [w \in Wells |-> 0], lumped |-> st.lumped]
RECURSIVE ApplyOps(_, _)
ApplyOps(st, ops) == IF ops = <<>> THEN st ELSE ApplyOps(ApplyOp(st, Head(ops)), Tail(ops))
Empty == [conns |-> [w \in Wells |-> <<>>], pending |-> [w \in Wells |-> 0], lumped |-> [w \in Wells |-> FALSE]]

(***************************************************************************)
(* The state machine: operations arrive one at a time within a report step *)
(***************************************************************************)
VARIABLES st, nops, step, nrec, last
vars == <<st, nops, step, nrec, last>>
Init == st = Empty /\ nops = 0 /\ step = 0 /\ nrec = 0 /\ last = [op |-> "none"]
States == {"OPEN", "SHUT"}
Do(o) == st' = ApplyOp(st, o) /\ nops' = nops + 1 /\ last' = o /\ UNCHANGED step
Compdat(w, k1, k2, s) == /\ k1 <= k2 /\ nrec' = nrec + 1
                         /\ Do([op |-> "COMPDAT", well |-> w, k1 |-> k1, k2 |-> k2, state |-> s, rec |-> nrec + 1])
\* a selection names a layer of a vertical well, or a whole cell of a well with laterals
SelFits(w, s) == IF w \in FreeOrder THEN s.k \in {0} \cup FreeCells ELSE s.k \in 0..NK
Wpimult(w, sel, f) == SelFits(w, sel) /\ Do([op |-> "WPIMULT", well |-> w, sel |-> sel, f |-> f]) /\ UNCHANGED nrec
Welopen(w, sel, s) == SelFits(w, sel) /\ ~AllDefault(sel) /\ Do([op |-> "WELOPEN", well |-> w, sel |-> sel, state |-> s]) /\ UNCHANGED nrec
Complump(w, k1, k2, n) == /\ w \notin FreeOrder /\ (k1 = 0 \/ k2 = 0 \/ k1 <= k2)
                          /\ Do([op |-> "COMPLUMP", well |-> w, k1 |-> k1, k2 |-> k2, n |-> n]) /\ UNCHANGED nrec
Cskin(w, k1, k2, sk) == /\ w \notin FreeOrder /\ (k1 = 0 \/ k2 = 0 \/ k1 <= k2)
                        /\ Do([op |-> "CSKIN", well |-> w, k1 |-> k1, k2 |-> k2, skin |-> sk]) /\ UNCHANGED nrec
NextStep == step < MaxSteps /\ st' = EndStep(st) /\ step' = step + 1 /\ last' = [op |-> "end"] /\ UNCHANGED <<nops, nrec>>
SmallSel == {s \in Sel : (s.c1 = 0 \/ s.c2 = 0 \/ s.c1 <= s.c2)}
Next == \/ NextStep
        \/ nops < MaxOps /\
           ( \/ \E w \in Wells \ FreeOrder, k1, k2 \in 1..NK, s \in States : Compdat(w, k1, k2, s)
             \/ \E w \in FreeOrder, c \in FreeCells, s \in States : Compdat(w, c, c, s)
             \/ \E w \in Wells, sel \in SmallSel, f \in {2, 3} : Wpimult(w, sel, f)
             \/ \E w \in Wells, sel \in SmallSel, s \in States : Welopen(w, sel, s)
             \/ \E w \in Wells, k1, k2 \in 0..NK, n \in 1..2 : Complump(w, k1, k2, n)
             \/ \E w \in Wells, k1, k2 \in 0..NK, sk \in {0, 1} : Cskin(w, k1, k2, sk) )
Spec == Init /\ [][Next]_vars

(***************************************************************************)
(* What the rest of the library relies on                                   *)
(***************************************************************************)
Range(f) == {f[x] : x \in DOMAIN f}
\* completion numbers and sort values are 1..n and 0..n-1, one per connection, cells distinct
Numbering == \A w \in Wells : LET cs == st.conns[w] IN
                /\ (~st.lumped[w] => {c.complnum : c \in Range(cs)} = 1..Len(cs))
                /\ {c.sort : c \in Range(cs)} = 0..(Len(cs) - 1)
                /\ (~st.lumped[w] => \A c \in Range(cs) : c.sort = c.complnum - 1)
                /\ Cardinality({c.k : c \in Range(cs)}) = Len(cs)
Ordered == \A w \in Wells \ FreeOrder : LET cs == st.conns[w] IN
              IF w \in InputOrder THEN \A n \in 1..Len(cs) : cs[n].sort = n - 1
              ELSE \A n \in 1..(Len(cs) - 1) : cs[n].k < cs[n + 1].k
\* an operation changes only the connections it addresses: the others keep every field, and their relative order
Targeted(o, c) == CASE o.op = "COMPDAT" -> c.k \in o.k1..o.k2
                    [] o.op = "WPIMULT" -> Matches(c, o.sel)
                    [] o.op = "WELOPEN" -> Matches(c, o.sel)
                    [] o.op = "COMPLUMP" -> InLayers(c, o.k1, o.k2)
                    [] o.op = "CSKIN" -> InLayers(c, o.k1, o.k2)
                    [] OTHER -> FALSE
Sub(cs, P(_)) == SelectSeq(cs, P)
OnlyTargeted ==
    [][ last'.op \in {"COMPDAT", "WPIMULT", "WELOPEN", "COMPLUMP", "CSKIN"} =>
          \A w \in Wells :
             IF w # last'.well THEN st'.conns[w] = st.conns[w]
             ELSE LET keep(c) == ~Targeted(last', c)
                      old == SelectSeq(st.conns[w], keep)
                  IN \* the untouched connections are still there, unchanged, in the same relative order
                     /\ old = SelectSeq(st'.conns[w], LAMBDA c : c \in Range(old))
                     \* and what is new or changed is addressed by the operation
                     /\ \A c \in Range(st'.conns[w]) : c \notin Range(st.conns[w]) =>
                           (last'.op = "COMPDAT" => c.k \in last'.k1..last'.k2)
                     /\ Len(st'.conns[w]) >= Len(st.conns[w]) ]_vars
\* the state of a connection only changes through COMPDAT or WELOPEN, its record only through COMPDAT
MultOnlyGrows == [][ \A w \in Wells : \A n \in 1..Len(st.conns[w]) : \A m \in 1..Len(st'.conns[w]) :
                       (st.conns[w][n].k = st'.conns[w][m].k /\ st.conns[w][n].rec = st'.conns[w][m].rec)
                          => st'.conns[w][m].mult >= st.conns[w][n].mult ]_vars
=============================================================================
