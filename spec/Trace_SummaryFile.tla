------------------------- MODULE Trace_SummaryFile -------------------------
(* Trace validation for C10: what ESmry (selective and whole-file load),     *)
(* the SMSPEC-to-ESMRY conversion and ExtESmry read back from files written  *)
(* with the writer's components is the time axis SummaryFile prescribes,     *)
(* with every value at its vector and ministep.                              *)
EXTENDS SummaryFile, Json, IOUtils
TraceLog == ndJsonDeserialize(IOEnv.TRACE)
VARIABLE l
tvars == <<svars, l>>
Ev == TraceLog[l]
IsEvent(e) == l <= Len(TraceLog) /\ TraceLog[l].e = e /\ l' = l + 1
TInit == l = 1 /\ SInit
TReset == IsEvent("Reset") /\ base' = NoRun /\ run' = NoRun /\ haveBase' = FALSE /\ base0' = NoRun
TWriteBase0 == IsEvent("WriteBase0") /\ Ev.res = "ok" /\ WriteBase0(Ev.n, Ev.steps)
TWriteBase == IsEvent("WriteBase") /\ Ev.res = "ok" /\ WriteBase(Ev.n, Ev.steps, Ev.rstep0)
TWriteRun == IsEvent("WriteRun") /\ Ev.res = "ok" /\ WriteRun(Ev.n, Ev.steps, Ev.rstep)
Max3(a, b, c) == IF a >= b /\ a >= c THEN a ELSE IF b >= c THEN b ELSE c
ReadOk == LET ax == Axis(Ev.withBase) IN
          /\ Ev.res = "ok"
          \* with the base run loaded a reader presents the union of the two vector sets
          \* (the legacy reader; the ESMRY reader presents the run's own vectors)
          /\ Ev.nvect = (IF Ev.reader # "ext" /\ Ev.withBase /\ haveBase
                          THEN Max3(run.n, base.n, IF base0 = NoRun THEN 0 ELSE base0.n) ELSE run.n)
          /\ Ev.times = Times(ax)
          /\ Ev.rstepPos = RstepPos(ax)
          /\ Ev.valuesOk = TRUE /\ Ev.unitsOk = TRUE /\ Ev.startOk = TRUE /\ Ev.keysOk = TRUE
TRead == IsEvent("Read") /\ UNCHANGED svars /\ ReadOk
TDiag == /\ l <= Len(TraceLog) /\ Ev.e = "Read" /\ ~ReadOk
         /\ PrintT(<<"DIAG", l, [reader |-> Ev.reader, expTimes |-> Times(Axis(Ev.withBase)), expPos |-> RstepPos(Axis(Ev.withBase))]>>)
         /\ FALSE /\ UNCHANGED tvars
TNext == TReset \/ TWriteBase0 \/ TWriteBase \/ TWriteRun \/ TRead \/ TDiag
TraceSpec == TInit /\ [][TNext]_tvars
TraceAccepted == TLCGet("stats").diameter - 1 = Len(TraceLog)
=============================================================================
