SPECIFICATION TraceSpec
CONSTANTS
 MaxOps = 3
 Sweep = FALSE
POSTCONDITION TraceAccepted
CHECK_DEADLOCK FALSE
