SPECIFICATION TraceSpec
CONSTANT MaxOps = 3
POSTCONDITION TraceAccepted
CHECK_DEADLOCK FALSE
