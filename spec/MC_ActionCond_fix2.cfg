SPECIFICATION Spec
CONSTANTS
  Wells <- MCWells
  PatWells <- MCPat
  FQty = {"FOPR"}
  WQty = {"WOPR", "WWCT"}
  GQty = {}
  NumTok <- MCNum
  FixLevel = 2
  MaxLeaves = 3
INVARIANTS Agree RefSane
