SPECIFICATION GSpec
CONSTANTS
  MaxStep = 3
  Payloads <- PayloadSet
  MaxWrites = 5
  MaxArrs = 99
  SeekBackF = 31
  SeekBackU = 24
CONSTRAINT Emit
