---------------------------- MODULE MC_RstOutput ----------------------------
EXTENDS RstOutput
MCMn == {Empty, [n \in {"FIP"} |-> 1]}
MCRstOps == [op : {"RPTRST"}, basic : {None, 0, 2, 3, 4, 5}, freq : {None, 0, 2}, mn : {Empty}]
MCSchedOps == [op : {"RPTSCHED"}, nothing : BOOLEAN, restart : {None, 0, 2, 3}, mn : {Empty}]
MCSolOps == [op : {"RPTSOL"}, restart : {None, 2}, mn : MCMn]
MCStart == {10}
MCIntOps == [op : {"RPTRSTI"}, ints : {<<0>>, <<3, 0, 1>>}] \cup [op : {"RPTSCHEDI"}, ints : {<<0, 0, 0, 0, 0, 0, 2>>}]
MCDms == {0, 1, 14}
QRstOps == [op : {"RPTRST"}, basic : {None, 0, 3, 4, 5}, freq : {None, 2}, mn : {Empty}]
QSchedOps == [op : {"RPTSCHED"}, nothing : BOOLEAN, restart : {None, 2, 3}, mn : {Empty}]
View == <<k, cfg, events, saves, ym, decided, nkw>>
=============================================================================
