-------------------------- MODULE Trace_ActionApply --------------------------
(***************************************************************************)
(* Applying ACTIONX actions equals inlining their keywords (C04), over     *)
(* recorded observations.  For one input the harness records the snapshots *)
(* of the original schedule ("orig"), then applies a sequence of actions   *)
(* (Apply events: report step n, action, matched wells) with the real      *)
(* Schedule::applyAction and records the snapshots again ("applied"), and  *)
(* finally builds the schedule of the deck with the actions' keywords      *)
(* written at the end of the report steps of application ("inlined").      *)
(*   - states before the first application are untouched;                  *)
(*   - the applied schedule has as many report steps as the original;      *)
(*   - every state of the applied schedule equals the inlined one (the     *)
(*     marker event an applied action leaves is masked by the projection). *)
(***************************************************************************)
EXTENDS Integers, Sequences, TLC, Json, IOUtils
TraceLog == ndJsonDeserialize(IOEnv.TRACE)
VARIABLES l, orig, applied, firstN, lastN, inlinedOk
tvars == <<l, orig, applied, firstN, lastN, inlinedOk>>
Ev == TraceLog[l]
IsEvent(e) == l <= Len(TraceLog) /\ TraceLog[l].e = e /\ l' = l + 1
TInit == l = 1 /\ orig = <<>> /\ applied = <<>> /\ firstN = -1 /\ lastN = -1 /\ inlinedOk = FALSE
TReset == IsEvent("Reset") /\ orig' = <<>> /\ applied' = <<>> /\ firstN' = -1 /\ lastN' = -1 /\ inlinedOk' = FALSE
TBuild == /\ IsEvent("Build")
          \* the deck with the keywords inlined is accepted exactly when the actions could be applied
          /\ (Ev.run = "inlined") => ((Ev.res = "ok") = Ev.appliedOk)
          /\ (Ev.run = "inlined" /\ Ev.res = "ok") => Ev.nsteps = Len(orig)
          /\ inlinedOk' = (Ev.run = "inlined" /\ Ev.res = "ok")
          /\ UNCHANGED <<orig, applied, firstN, lastN>>
\* applications come with non-decreasing report step; the number of report steps is unchanged
\* (an application that is an input error leaves nothing to compare but the inlined deck's rejection)
TApply == /\ IsEvent("Apply") /\ Ev.n >= lastN
          /\ (Ev.res = "ok") => Ev.nsteps = Len(orig)
          /\ firstN' = (IF firstN < 0 THEN Ev.n ELSE firstN) /\ lastN' = Ev.n
          /\ UNCHANGED <<orig, applied, inlinedOk>>
TSnapOrig == /\ IsEvent("Snap") /\ Ev.run = "orig" /\ Ev.step = Len(orig)
             /\ orig' = Append(orig, Ev.proj) /\ UNCHANGED <<applied, firstN, lastN, inlinedOk>>
EarlierUntouched == (Ev.step < firstN) => Ev.proj = orig[Ev.step + 1]
TSnapApplied == /\ IsEvent("Snap") /\ Ev.run = "applied" /\ Ev.step = Len(applied) /\ Ev.step < Len(orig)
                /\ EarlierUntouched
                /\ applied' = Append(applied, Ev.proj) /\ UNCHANGED <<orig, firstN, lastN, inlinedOk>>
SameAsInlined == Ev.step < Len(applied) /\ Ev.proj = applied[Ev.step + 1]
TSnapInlined == /\ IsEvent("Snap") /\ Ev.run = "inlined" /\ SameAsInlined
                /\ UNCHANGED <<orig, applied, firstN, lastN, inlinedOk>>
TDiag == /\ l <= Len(TraceLog) /\ Ev.e = "Snap" /\ Ev.run = "inlined" /\ ~SameAsInlined
         /\ PrintT(<<"DIAG", l, [step |-> Ev.step, firstN |-> firstN,
                                 differs |-> IF Ev.step < Len(applied) THEN {m \in DOMAIN Ev.proj : Ev.proj[m] # applied[Ev.step + 1][m]} ELSE {"missing step"}]>>)
         /\ FALSE /\ UNCHANGED tvars
TNext == TReset \/ TBuild \/ TApply \/ TSnapOrig \/ TSnapApplied \/ TSnapInlined \/ TDiag
TraceSpec == TInit /\ [][TNext]_tvars
TraceAccepted == TLCGet("stats").diameter - 1 = Len(TraceLog)
=============================================================================
