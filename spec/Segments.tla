------------------------------ MODULE Segments ------------------------------
(***************************************************************************)
(* Multi-segment wells - beyond the listed properties: the segment tree    *)
(* and its geometry under WELSEGS (incremental and absolute form, range    *)
(* records), the storage order the library promises, and the attachment    *)
(* of connections to segments under COMPSEGS (nearest node on the branch,  *)
(* interpolated centre depth).                                             *)
(*                                                                         *)
(* A well description W = [top, recs]: top = [type, depth, len, vol],      *)
(* recs = records [s1, s2, br, join, len, dep, area, vol] (vol = -1: not   *)
(* given).  All quantities are integers (metres, square metres, cubic      *)
(* metres) so the library's double arithmetic is exact.                    *)
(***************************************************************************)
EXTENDS Integers, Sequences, FiniteSets, TLC, SequencesExt
CONSTANTS MaxSeg, MaxRecs, MaxComps, NCells,
          MinRecs     \* connections are attached once the well has this many WELSEGS records
None == -1
\* ---- the meaning of a WELSEGS keyword
SegsOf(r) == r.s1..r.s2
SegNums(W) == {1} \cup UNION {SegsOf(r) : r \in Range(W.recs)}
RecOf(W, s) == CHOOSE r \in Range(W.recs) : s \in SegsOf(r)
Outlet(W, s) == IF s = 1 THEN 0 ELSE LET r == RecOf(W, s) IN IF s = r.s1 THEN r.join ELSE s - 1
Branch(W, s) == IF s = 1 THEN 1 ELSE RecOf(W, s).br
Inlets(W, s) == {t \in SegNums(W) \ {1} : Outlet(W, t) = s}
RECURSIVE SLen(_, _), SDep(_, _)
SLen(W, s) == IF s = 1 THEN W.top.len
             ELSE IF W.top.type = "ABS" THEN RecOf(W, s).len ELSE SLen(W, Outlet(W, s)) + RecOf(W, s).len
SDep(W, s) == IF s = 1 THEN W.top.depth
             ELSE IF W.top.type = "ABS" THEN RecOf(W, s).dep ELSE SDep(W, Outlet(W, s)) + RecOf(W, s).dep
\* length of the segment itself
OwnLen(W, s) == IF W.top.type = "ABS" THEN SLen(W, s) - SLen(W, Outlet(W, s)) ELSE RecOf(W, s).len
Vol(W, s) == IF s = 1 THEN W.top.vol
             ELSE LET r == RecOf(W, s) IN IF r.vol # None THEN r.vol ELSE r.area * OwnLen(W, s)
\* ---- which keywords the library must accept
RECURSIVE Reaches1(_, _, _)
Reaches1(W, s, fuel) == IF s = 1 THEN TRUE ELSE IF fuel = 0 \/ s \notin SegNums(W) THEN FALSE ELSE Reaches1(W, Outlet(W, s), fuel - 1)
Disjoint(W) == \A i, j \in DOMAIN W.recs : i # j => SegsOf(W.recs[i]) \cap SegsOf(W.recs[j]) = {}
RecordsOk(W) == \A r \in Range(W.recs) : r.s1 >= 2 /\ r.s2 >= r.s1 /\ r.br >= 1 /\ (W.top.type = "ABS" => r.s1 = r.s2)
\* every segment leads to the top, and a branch is a chain: no two segments of one branch share an outlet
TreeOk(W) == /\ \A s \in SegNums(W) : Reaches1(W, s, Cardinality(SegNums(W)))
             /\ \A s, t \in SegNums(W) \ {1} : s # t /\ Outlet(W, s) = Outlet(W, t) => Branch(W, s) # Branch(W, t)
Valid(W) == RecordsOk(W) /\ Disjoint(W) /\ TreeOk(W)
\* inputs that must be refused (what lies between is not pinned down: shared outlets on one branch are refused or not depending on the order)
MustRefuse(W) == ~RecordsOk(W) \/ (Disjoint(W) /\ \E s \in SegNums(W) : ~Reaches1(W, s, Cardinality(SegNums(W))))
\* ---- the storage order promised by WellSegments::orderSegments: top first, outlet before segment, a branch contiguous
OrderOk(W, order) ==
    /\ Len(order) = Cardinality(SegNums(W)) /\ Range(order) = SegNums(W) /\ order[1] = 1
    /\ \A i \in 2..Len(order) : \E j \in 1..(i - 1) : order[j] = Outlet(W, order[i])
    /\ \A i, j \in 1..Len(order) : i < j /\ Branch(W, order[i]) = Branch(W, order[j]) => \A m \in i..j : Branch(W, order[m]) = Branch(W, order[i])
\* ---- the absolute form of the same well (range records become one record per segment)
SortedSeq(S) == SetToSortSeq(S, LAMBDA a, b : a < b)
AbsForm(W) == [top |-> [W.top EXCEPT !.type = "ABS"],
               recs |-> [i \in 1..(Cardinality(SegNums(W)) - 1) |->
                            LET s == SortedSeq(SegNums(W) \ {1})[i] r == RecOf(W, s)
                            IN [s1 |-> s, s2 |-> s, br |-> r.br, join |-> Outlet(W, s), len |-> SLen(W, s), dep |-> SDep(W, s), area |-> r.area,
                                vol |-> Vol(W, s)]]]
SameWell(A, B) == /\ SegNums(A) = SegNums(B)
                  /\ \A s \in SegNums(A) : /\ Outlet(A, s) = Outlet(B, s) /\ Branch(A, s) = Branch(B, s)
                                           /\ SLen(A, s) = SLen(B, s) /\ SDep(A, s) = SDep(B, s) /\ Vol(A, s) = Vol(B, s)
\* ---- COMPSEGS: comps = records [cell, br, start, end, seg, depth]  (seg = 0, depth = 0: to be determined)
Abs(x) == IF x < 0 THEN -x ELSE x
\* twice the distance from the middle of the perforated interval to the node of s (kept integral)
Dist2(W, c, s) == Abs((c.start + c.end) - 2 * SLen(W, s))
OnBranch(W, b) == {s \in SegNums(W) : Branch(W, s) = b}
\* the nearest node on the branch; of two equally near ones the one nearer the top (stored first)
SegFor(W, c) == IF c.seg # 0 THEN c.seg
                ELSE LET cand == OnBranch(W, c.br)
                         best == {s \in cand : \A t \in cand : Dist2(W, c, s) <= Dist2(W, c, t)}
                     IN CHOOSE s \in best : \A t \in best : SLen(W, s) <= SLen(W, t)
CompAccepted(W, c) == c.end > c.start /\ (c.seg # 0 \/ OnBranch(W, c.br) # {}) /\ (c.seg # 0 => c.seg \in SegNums(W))
\* the segment used to interpolate the depth: the outlet, or the inlet on the connection's branch when the middle lies beyond the node
InterpSeg(W, c, s) == IF (c.start + c.end) > 2 * SLen(W, s) /\ \E t \in Inlets(W, s) : Branch(W, t) = c.br
                      THEN CHOOSE t \in Inlets(W, s) : Branch(W, t) = c.br
                      ELSE Outlet(W, s)
\* centre depth as a fraction <<numerator, denominator>>; denominator 0: the cell centre is used
CentreDepth(W, c) ==
    IF c.depth # 0 THEN <<c.depth, 1>>
    ELSE LET s == SegFor(W, c) IN
         IF s = 1 THEN <<0, 0>>
         ELSE LET q == InterpSeg(W, c, s)
                  dl == SLen(W, s) - SLen(W, q)
                  dz == SDep(W, s) - SDep(W, q)
              IN IF dl = 0 THEN <<SDep(W, s), 1>>
                 ELSE <<2 * dl * SDep(W, s) + ((c.start + c.end) - 2 * SLen(W, s)) * dz, 2 * dl>>
\* ---- building wells step by step (the state machine TLC explores and the source of generated inputs)
Dls == {5, 10}
Dzs == {0, 5, 10}
Areas == {1, 2}
Vols == {None, 7}
Starts == {0, 3, 5, 8, 10, 13, 15, 20, 25}
Widths == {1, 4, 5, 10}
VARIABLES top, recs, comps
vars == <<top, recs, comps>>
W0 == [top |-> top, recs |-> recs]
Free(n, a) == a >= 2 /\ a + n - 1 <= MaxSeg /\ \A s \in a..(a + n - 1) : s \notin SegNums(W0)
Tip(b) == CHOOSE s \in OnBranch(W0, b) : \A t \in Inlets(W0, s) : Branch(W0, t) # b
Branches == {Branch(W0, s) : s \in SegNums(W0)}
Init == /\ top \in [type : {"INC", "ABS"}, depth : {2000}, len : {0, 10}, vol : {1}]
        /\ recs = <<>> /\ comps = <<>>
\* one more WELSEGS record: continue a branch at its tip, or start a new branch at any segment
AddRec == /\ comps = <<>> /\ Len(recs) < MaxRecs
          /\ \E n \in (IF top.type = "ABS" THEN {1} ELSE {1, 2, 3}), a \in 2..MaxSeg, dl \in Dls, dz \in Dzs, area \in Areas, v \in Vols :
             /\ Free(n, a)
             /\ \E b \in Branches \cup {Cardinality(Branches) + 1, Cardinality(Branches) + 3} :
                \E j \in (IF b \in Branches THEN {Tip(b)} ELSE SegNums(W0)) :
                   recs' = Append(recs, [s1 |-> a, s2 |-> a + n - 1, br |-> b, join |-> j,
                                         len |-> IF top.type = "ABS" THEN SLen(W0, j) + dl ELSE dl,
                                         dep |-> IF top.type = "ABS" THEN SDep(W0, j) + dz ELSE dz, area |-> area, vol |-> v])
          /\ UNCHANGED <<top, comps>>
UsedCells == {comps[i].cell : i \in DOMAIN comps}
MaxLen == CHOOSE m \in {SLen(W0, s) : s \in SegNums(W0)} : \A s \in SegNums(W0) : SLen(W0, s) <= m
AddComp == /\ Len(recs) >= MinRecs /\ Len(comps) < MaxComps
           /\ \E cell \in (1..NCells) \ UsedCells, b \in Branches, st \in Starts, w \in Widths, given \in {0, 1}, d \in {0, 2003} :
              /\ st <= MaxLen + 10
              /\ comps' = Append(comps, [cell |-> cell, br |-> b, start |-> st, end |-> st + w,
                                         seg |-> IF given = 1 THEN Tip(b) ELSE 0, depth |-> d])
           /\ UNCHANGED <<top, recs>>
Next == AddRec \/ AddComp
Spec == Init /\ [][Next]_vars
\* ---- design properties
BuiltValid == Valid(W0)
AbsSame == Valid(AbsForm(W0)) /\ SameWell(W0, AbsForm(W0))
\* in a valid well lengths grow away from the top, so "nearest node" has a unique answer up to the tie rule
Monotone == \A s \in SegNums(W0) \ {1} : SLen(W0, s) > SLen(W0, Outlet(W0, s))
CompsOk == \A i \in DOMAIN comps : CompAccepted(W0, comps[i]) /\ SegFor(W0, comps[i]) \in OnBranch(W0, comps[i].br)
\* an ordering that satisfies the promise exists (depth-first, continuing the branch first)
=============================================================================
