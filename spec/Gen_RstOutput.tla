---------------------------- MODULE Gen_RstOutput ----------------------------
(* Behaviour generation: complete input histories (SOLUTION keywords, per-block keywords, calendar) as JSON. *)
EXTENDS RstOutput, Json
Thin == 4
Emit == IF k = MaxSteps /\ RandomElement(1..Thin) = 1
        THEN PrintT(<<"GEN", ToJson([sol |-> hist.sol, m0 |-> hist.m0, blocks |-> Append(hist.blocks, [ops |-> hist.cur, dm |-> 0])])>>) ELSE TRUE
=============================================================================
