------------------------------- MODULE Units -------------------------------
(***************************************************************************)
(* Unit systems (property C02).  Each deck unit system chooses a unit for  *)
(* a handful of base quantities; every measure and every named dimension   *)
(* is a product of powers of base quantities, so its SI factor is the      *)
(* product of the base factors - that is the compositional law.  The base  *)
(* units are terms over physical constants (foot, inch, pound, standard    *)
(* gravity, gallon = 231 cubic inches, barrel = 42 gallons, atmosphere,    *)
(* day, ...), which the harness evaluates in long double.                  *)
(***************************************************************************)
EXTENDS DualNumbers

C(name) == [t |-> "v", name |-> name]
One == Q(1, 1)
Systems == {"METRIC", "FIELD", "LAB", "PVT-M"}
\* physical constants as terms
Foot == C("foot")   Inch == C("inch")   Metre == One   Centi == C("centi")
Day == C("day")     Hour == C("hour")   Second == One
Pound == C("pound") Kilo == One         Gram == Q(1, 1000)
Bar == C("bar")     Atm == C("atm")
Psi == TDiv(TMul(Pound, C("gravity")), TMul(Inch, Inch))      \* pound-force per square inch
Cube(x) == TMul(x, TMul(x, x))
Gallon == TMul(Q(231, 1), Cube(Inch))
Barrel == TMul(Q(42, 1), Gallon)
CentiPoise == Q(1, 1000)
MilliDarcy == C("millidarcy")

\* the unit a system uses for each base quantity
Base(sys, b) ==
  CASE b = "L"  -> (CASE sys = "FIELD" -> Foot [] sys = "LAB" -> Centi [] OTHER -> Metre)
    [] b = "T"  -> (IF sys = "LAB" THEN Hour ELSE Day)
    [] b = "P"  -> (CASE sys = "METRIC" -> Bar [] sys = "FIELD" -> Psi [] OTHER -> Atm)
    [] b = "M"  -> (CASE sys = "FIELD" -> Pound [] sys = "LAB" -> Gram [] OTHER -> Kilo)
    [] b = "LV" -> (CASE sys = "FIELD" -> Barrel [] sys = "LAB" -> Cube(Centi) [] OTHER -> One)           \* liquid at surface
    [] b = "GV" -> (CASE sys = "FIELD" -> TMul(Q(1000, 1), Cube(Foot)) [] sys = "LAB" -> Cube(Centi) [] OTHER -> One)
    [] b = "RV" -> (CASE sys = "FIELD" -> Barrel [] sys = "LAB" -> Cube(Centi) [] OTHER -> One)           \* reservoir volume
    [] b = "K"  -> (IF sys = "FIELD" THEN Q(5, 9) ELSE One)                                                \* temperature step
    [] b = "E"  -> (CASE sys = "FIELD" -> C("btu") [] sys = "LAB" -> One [] OTHER -> Q(1000, 1))
    [] b = "MOL" -> (CASE sys = "FIELD" -> TMul(Q(1000, 1), Pound) [] sys = "LAB" -> One [] OTHER -> Q(1000, 1))
    [] b = "S"  -> Second
    [] b = "CP" -> CentiPoise
    [] b = "MD" -> MilliDarcy
    [] b = "GPA" -> Q(1000000000, 1)
    [] b = "PPM" -> Q(1, 1000000)

\* a dimension is <<numerator bases, denominator bases>>
Dim(measure) ==
  CASE measure = "identity" -> <<<<>>, <<>>>>
    [] measure = "length" -> <<<<"L">>, <<>>>>
    [] measure = "time" -> <<<<"T">>, <<>>>>
    [] measure = "runtime" -> <<<<"S">>, <<>>>>
    [] measure = "density" -> <<<<"M">>, <<"L", "L", "L">>>>
    [] measure = "pressure" -> <<<<"P">>, <<>>>>
    [] measure = "temperature_absolute" -> <<<<"K">>, <<>>>>
    [] measure = "temperature" -> <<<<"K">>, <<>>>>
    [] measure = "viscosity" -> <<<<"CP">>, <<>>>>
    [] measure = "permeability" -> <<<<"MD">>, <<>>>>
    [] measure = "area" -> <<<<"L", "L">>, <<>>>>
    [] measure = "liquid_surface_volume" -> <<<<"LV">>, <<>>>>
    [] measure = "gas_surface_volume" -> <<<<"GV">>, <<>>>>
    [] measure = "volume" -> <<<<"RV">>, <<>>>>
    [] measure = "geometric_volume" -> <<<<"L", "L", "L">>, <<>>>>
    [] measure = "liquid_surface_rate" -> <<<<"LV">>, <<"T">>>>
    [] measure = "gas_surface_rate" -> <<<<"GV">>, <<"T">>>>
    [] measure = "rate" -> <<<<"RV">>, <<"T">>>>
    [] measure = "geometric_volume_rate" -> <<<<"L", "L", "L">>, <<"T">>>>
    [] measure = "pipeflow_velocity" -> <<<<"L">>, <<"S">>>>
    [] measure = "transmissibility" -> <<<<"CP", "RV">>, <<"T", "P">>>>
    [] measure = "effective_Kh" -> <<<<"MD", "L">>, <<>>>>
    [] measure = "mass" -> <<<<"M">>, <<>>>>
    [] measure = "mass_rate" -> <<<<"M">>, <<"T">>>>
    [] measure = "gas_oil_ratio" -> <<<<"GV">>, <<"LV">>>>
    [] measure = "oil_gas_ratio" -> <<<<"LV">>, <<"GV">>>>
    [] measure = "water_cut" -> <<<<>>, <<>>>>
    [] measure = "gas_formation_volume_factor" -> <<<<"RV">>, <<"GV">>>>
    [] measure = "oil_formation_volume_factor" -> <<<<"RV">>, <<"LV">>>>
    [] measure = "water_formation_volume_factor" -> <<<<"RV">>, <<"LV">>>>
    [] measure = "gas_inverse_formation_volume_factor" -> <<<<"GV">>, <<"RV">>>>
    [] measure = "oil_inverse_formation_volume_factor" -> <<<<"LV">>, <<"RV">>>>
    [] measure = "water_inverse_formation_volume_factor" -> <<<<"LV">>, <<"RV">>>>
    [] measure = "liquid_productivity_index" -> <<<<"LV">>, <<"T", "P">>>>
    [] measure = "gas_productivity_index" -> <<<<"GV">>, <<"T", "P">>>>
    [] measure = "energy" -> <<<<"E">>, <<>>>>
    [] measure = "energy_rate" -> <<<<"E">>, <<"T">>>>
    [] measure = "icd_strength" -> <<<<"P", "T", "T">>, <<"L", "L", "L", "L", "L", "L">>>>
    [] measure = "aicd_strength" -> <<<<"P", "T", "T", "L", "L", "L">>, <<"M", "L", "L", "L", "L", "L", "L">>>>
    [] measure = "polymer_density" -> <<<<"M">>, <<"LV">>>>
    [] measure = "salinity" -> <<<<"M">>, <<"LV">>>>
    [] measure = "gas_oil_ratio_rate" -> <<<<"GV">>, <<"LV", "T">>>>
    [] measure = "moles" -> <<<<"MOL">>, <<>>>>
    [] measure = "ppm" -> <<<<"PPM">>, <<>>>>
    [] measure = "ymodule" -> <<<<"GPA">>, <<>>>>
    [] measure = "dfactor" -> <<<<"T">>, <<"GV">>>>
Measures == {"identity", "length", "time", "runtime", "density", "pressure", "temperature_absolute", "temperature", "viscosity",
  "permeability", "area", "liquid_surface_volume", "gas_surface_volume", "volume", "geometric_volume", "liquid_surface_rate",
  "gas_surface_rate", "rate", "geometric_volume_rate", "pipeflow_velocity", "transmissibility", "effective_Kh", "mass", "mass_rate",
  "gas_oil_ratio", "oil_gas_ratio", "water_cut", "gas_formation_volume_factor", "oil_formation_volume_factor",
  "water_formation_volume_factor", "gas_inverse_formation_volume_factor", "oil_inverse_formation_volume_factor",
  "water_inverse_formation_volume_factor", "liquid_productivity_index", "gas_productivity_index", "energy", "energy_rate",
  "icd_strength", "aicd_strength", "polymer_density", "salinity", "gas_oil_ratio_rate", "moles", "ppm", "ymodule", "dfactor"}

RECURSIVE Prod(_, _)
Prod(sys, bases) == IF bases = <<>> THEN One ELSE TMul(Base(sys, Head(bases)), Prod(sys, Tail(bases)))
\* the compositional law: SI value = deck value * Factor + Offset
FactorOfDim(sys, d) == TDiv(Prod(sys, d[1]), Prod(sys, d[2]))
Factor(sys, measure) == FactorOfDim(sys, Dim(measure))
\* only the (relative) temperature has an offset: 0 C = 273.15 K, 0 F = 459.67 R
Offset(sys, measure) == IF measure # "temperature" THEN Q(0, 1)
                        ELSE IF sys = "FIELD" THEN TMul(Q(45967, 100), Q(5, 9)) ELSE Q(27315, 100)

\* named dimensions of the keyword definitions
NamedDim(name) ==
  CASE name \in {"1", "Unit"} -> "identity"
    [] name = "Pressure" -> "pressure"  [] name = "Temperature" -> "temperature" [] name = "AbsoluteTemperature" -> "temperature_absolute"
    [] name = "Length" -> "length" [] name \in {"Time", "Timestep"} -> "time" [] name = "RunTime" -> "runtime" [] name = "Mass" -> "mass"
    [] name = "Permeability" -> "permeability" [] name = "Area" -> "area" [] name = "Transmissibility" -> "transmissibility"
    [] name = "GasDissolutionFactor" -> "gas_oil_ratio" [] name = "OilDissolutionFactor" -> "oil_gas_ratio"
    [] name = "LiquidSurfaceVolume" -> "liquid_surface_volume" [] name = "GasSurfaceVolume" -> "gas_surface_volume"
    [] name = "ReservoirVolume" -> "volume" [] name = "GeometricVolume" -> "geometric_volume" [] name = "Density" -> "density"
    [] name = "PolymerDensity" -> "polymer_density" [] name = "Salinity" -> "salinity" [] name = "Viscosity" -> "viscosity"
    [] name = "Energy" -> "energy" [] name = "PPM" -> "ppm" [] name = "Moles" -> "moles"
    [] OTHER -> "unknown"
RECURSIVE ProdNamed(_, _)
ProdNamed(sys, names) == IF names = <<>> THEN One ELSE TMul(Factor(sys, NamedDim(Head(names))), ProdNamed(sys, Tail(names)))
\* a composite dimension string, tokenised: names multiplied / names divided
CompositeFactor(sys, num, den) == TDiv(ProdNamed(sys, num), ProdNamed(sys, den))
KnownNames(names) == \A i \in 1..Len(names) : NamedDim(names[i]) # "unknown"

\* dimensional sanity of the table above: reciprocal measures are reciprocal, rates are volume over time
Recip(a, b) == Dim(a)[1] = Dim(b)[2] /\ Dim(a)[2] = Dim(b)[1]
ASSUME /\ Recip("gas_oil_ratio", "oil_gas_ratio")
       /\ Recip("gas_formation_volume_factor", "gas_inverse_formation_volume_factor")
       /\ Recip("oil_formation_volume_factor", "oil_inverse_formation_volume_factor")
       /\ Recip("water_formation_volume_factor", "water_inverse_formation_volume_factor")
       /\ \A m \in Measures : Dim(m) \in Seq({"L", "T", "P", "M", "LV", "GV", "RV", "K", "E", "MOL", "S", "CP", "MD", "GPA", "PPM"}) \X
                                          Seq({"L", "T", "P", "M", "LV", "GV", "RV", "K", "E", "MOL", "S", "CP", "MD", "GPA", "PPM"})
=============================================================================
