-------------------------- MODULE Trace_WellStatus --------------------------
(* Trace validation of the real Schedule's well / connection status and events against WellStatus. *)
EXTENDS WellStatus, Json, IOUtils
TraceLog == ndJsonDeserialize(IOEnv.TRACE)
VARIABLE l
tvars == <<vars, l>>
Ev == TraceLog[l]
IsEvent(e) == l <= Len(TraceLog) /\ TraceLog[l].e = e /\ l' = l + 1
SeqRange(s) == {s[i] : i \in DOMAIN s}
TInit == l = 1 /\ Init
TReset == IsEvent("Reset") /\ cur' = Fresh /\ prevStatus' = Fresh.status /\ step' = 0 /\ nops' = 0 /\ boundary' = TRUE
After == EndOfStep(ApplyAll(cur, Ev.ops))
ObsOk(e) == \A i \in DOMAIN Ev.wells : LET o == Ev.wells[i] w == o.well IN
              /\ o.status = e.status[w]
              /\ {<<c[1], c[2]>> : c \in SeqRange(o.conns)} = {<<k, e.conns[w][k]>> : k \in DOMAIN e.conns[w]}
              /\ SeqRange(o.evs) = {x[2] : x \in {y \in e.evs : y[1] = w}}
TStep == /\ IsEvent("Step") /\ Ev.k = step
         /\ ObsOk(After)
         /\ Ev.statusChange = (\E x \in After.evs : x[2] = "WELL_STATUS_CHANGE")
         /\ cur' = [After EXCEPT !.evs = {}] /\ prevStatus' = After.status /\ step' = step + 1 /\ boundary' = TRUE /\ UNCHANGED nops
TDiag == /\ l <= Len(TraceLog) /\ Ev.e = "Step" /\ ~ENABLED TStep
         /\ PrintT(<<"DIAG", l, [before |-> cur, expected |-> After]>>)
         /\ FALSE /\ UNCHANGED tvars
TNext == TReset \/ TStep \/ TDiag
TraceSpec == TInit /\ [][TNext]_tvars
TraceAccepted == TLCGet("stats").diameter - 1 = Len(TraceLog)
=============================================================================
