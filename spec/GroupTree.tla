------------------------------ MODULE GroupTree ------------------------------
(***************************************************************************)
(* The group tree of the schedule (GRUPTREE, WELSPECS), beyond the listed  *)
(* properties.  FIELD is the root.  GRUPTREE(c, p) makes p the parent of c *)
(* (creating either under FIELD if new); WELSPECS(w, g) puts well w into   *)
(* group g (creating g under FIELD if new), taking it out of the group it  *)
(* was in.  At every report step: every group but FIELD has exactly one    *)
(* parent and reaches FIELD, a group lists exactly the groups whose parent *)
(* it is and exactly the wells that are in it.                             *)
(***************************************************************************)
EXTENDS Integers, Sequences, FiniteSets, TLC
VARIABLES parent,   \* group -> parent group (FIELD has none)
          wgroup    \* well -> group
gvars == <<parent, wgroup>>
Put(f, k, v) == [x \in DOMAIN f \cup {k} |-> IF x = k THEN v ELSE f[x]]
GInit == parent = <<>> /\ wgroup = <<>>
WithGroup(par, g) == IF g = "FIELD" \/ g \in DOMAIN par THEN par ELSE Put(par, g, "FIELD")
ApplyKw(par, wg, k) ==
    CASE k.kw = "GRUPTREE" -> <<Put(WithGroup(par, k.parent), k.child, k.parent), wg>>
      [] k.kw = "WELSPECS" -> <<WithGroup(par, k.group), Put(wg, k.well, k.group)>>
      [] OTHER -> <<par, wg>>
RECURSIVE ApplyBlock(_, _, _)
ApplyBlock(par, wg, block) == IF block = <<>> THEN <<par, wg>>
                              ELSE LET r == ApplyKw(par, wg, Head(block)) IN ApplyBlock(r[1], r[2], Tail(block))
Groups(par) == DOMAIN par \cup {"FIELD"}
Children(par, g) == {c \in DOMAIN par : par[c] = g}
WellsIn(wg, g) == {w \in DOMAIN wg : wg[w] = g}
RECURSIVE Reaches(_, _, _)
Reaches(par, g, fuel) == g = "FIELD" \/ (fuel > 0 /\ g \in DOMAIN par /\ Reaches(par, par[g], fuel - 1))
IsTree(par) == \A g \in DOMAIN par : Reaches(par, g, Cardinality(DOMAIN par) + 1)
=============================================================================
