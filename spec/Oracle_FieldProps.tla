-------------------------- MODULE Oracle_FieldProps --------------------------
(***************************************************************************)
(* Reference interpreter for cell property arrays (property C12): the      *)
(* arrays equal the result of applying the keyword operations one after    *)
(* the other in input order - direct assignment (with defaulted entries),  *)
(* BOX / ENDBOX, EQUALS, ADD, MULTIPLY, MINVALUE, MAXVALUE, COPY, OPERATE  *)
(* and the region variants EQUALREG, ADDREG, MULTIREG, COPYREG, OPERATER.  *)
(*                                                                         *)
(* A property is an array over ALL cells of the grid with a value and a    *)
(* status per cell: "u" uninitialised, "d" keyword default, "k" given in   *)
(* the input.  Only active cells are ever read: the value in an active     *)
(* cell cannot depend on which other cells are inactive.  An operation     *)
(* that needs a value in an active cell that has none is an input error.   *)
(* TLC evaluates every program in IOEnv.CASES and prints the expected      *)
(* content of every touched array; harness/fieldprops compares the real    *)
(* EclipseState::fieldProps() with it.                                     *)
(*                                                                         *)
(* outcome per case: [id, res |-> "ok"/"error"/"unspecified", arrays]      *)
(***************************************************************************)
EXTENDS Integers, Sequences, FiniteSets, TLC, Json, IOUtils
CaseLog == ndJsonDeserialize(IOEnv.CASES)
VARIABLE i

\* keyword table: default value (or "none") ; all are dimensionless
DblKw == {"PRATIO", "BIOTCOEF", "NTG", "MULTX", "SWATINIT"}
IntKw == {"SATNUM", "FIPNUM", "EQLNUM", "MULTNUM", "OPERNUM", "FLUXNUM"}
HasDefault(kw) == kw \in {"NTG", "MULTX", "SATNUM", "FIPNUM", "EQLNUM", "MULTNUM"}
Default(kw) == 1
IsMultiplier(kw) == kw \in {"MULTX"}
RegName(r) == CASE r = "M" -> "MULTNUM" [] r = "F" -> "FLUXNUM" [] r = "O" -> "OPERNUM"

Has(s) == s \in {"d", "k"}
NewArr(nc, kw) == IF HasDefault(kw) THEN [v |-> [c \in 1..nc |-> Default(kw)], s |-> [c \in 1..nc |-> "d"]]
                  ELSE [v |-> [c \in 1..nc |-> 0], s |-> [c \in 1..nc |-> "u"]]
Put(f, k, x) == [y \in DOMAIN f \cup {k} |-> IF y = k THEN x ELSE f[y]]
\* init_get: the array exists afterwards
Touch(g, fp, kw) == IF kw \in DOMAIN fp THEN fp ELSE Put(fp, kw, NewArr(g.nc, kw))

\* cells of a box in input order (i fastest), global cell numbers 1..nc
CellNo(g, ii, jj, kk) == (kk - 1) * g.nx * g.ny + (jj - 1) * g.nx + ii
BoxCells(g, b) == [n \in 1..((b[2] - b[1] + 1) * (b[4] - b[3] + 1) * (b[6] - b[5] + 1)) |->
                     LET w == b[2] - b[1] + 1  h == b[4] - b[3] + 1
                         di == (n - 1) % w  dj == ((n - 1) \div w) % h  dk == (n - 1) \div (w * h)
                     IN CellNo(g, b[1] + di, b[3] + dj, b[5] + dk)]
Active(g, c) == g.actnum[c] = 1
ActiveIn(g, cells) == {cells[n] : n \in {m \in 1..Len(cells) : Active(g, cells[m])}}
RegionCells(g, fp, reg, val) == {c \in 1..g.nc : Active(g, c) /\ fp[reg].v[c] = val}
FullBox(g) == <<1, g.nx, 1, g.ny, 1, g.nz>>

Pow(x, n) == IF n = 0 THEN 1 ELSE IF n = 1 THEN x ELSE IF n = 2 THEN x * x ELSE x * x * x
AbsI(x) == IF x < 0 THEN -x ELSE x
MinI(a, b) == IF a < b THEN a ELSE b
MaxI(a, b) == IF a < b THEN b ELSE a
\* OPERATE functions (R = current target value, X = source value)
OpFun(f, R, X, a, b) == CASE f = "MULTA" -> a * X + b [] f = "POLY" -> R + a * Pow(X, b) [] f = "MULTIPLY" -> R * X
                          [] f = "MULTX" -> a * X [] f = "ADDX" -> a + X [] f = "COPY" -> X
                          [] f = "MAXLIM" -> MinI(a, X) [] f = "MINLIM" -> MaxI(a, X) [] f = "ABS" -> AbsI(X)
                          [] f = "MULTP" -> a * Pow(X, b)
Scal(op, x, v) == CASE op \in {"EQUALS", "EQUALREG"} -> v [] op \in {"ADD", "ADDREG"} -> x + v
                    [] op \in {"MULTIPLY", "MULTIREG"} -> x * v [] op = "MINVALUE" -> MaxI(x, v) [] op = "MAXVALUE" -> MinI(x, v)

\* state: [fp, box, res]
Err(st) == [st EXCEPT !.res = "error"]
Unspec(st) == [st EXCEPT !.res = "unspecified"]
SetCells(arr, C, NewV(_), NewS(_)) == [v |-> [c \in DOMAIN arr.v |-> IF c \in C THEN NewV(c) ELSE arr.v[c]],
                                       s |-> [c \in DOMAIN arr.s |-> IF c \in C THEN NewS(c) ELSE arr.s[c]]]

ScalarOn(g, st, kw, op, v, C) ==
    LET fp == Touch(g, st.fp, kw)  arr == fp[kw] IN
    IF op \in {"EQUALS", "EQUALREG"}
    THEN [st EXCEPT !.fp = Put(fp, kw, SetCells(arr, C, LAMBDA c : v, LAMBDA c : "k"))]
    ELSE IF \E c \in C : ~Has(arr.s[c]) THEN Err(st)
    ELSE [st EXCEPT !.fp = Put(fp, kw, SetCells(arr, C, LAMBDA c : Scal(op, arr.v[c], v), LAMBDA c : arr.s[c]))]

CopyOn(g, st, src, dst, C) ==
    IF src \notin DOMAIN st.fp THEN Err(st)
    ELSE IF \E c \in 1..g.nc : Active(g, c) /\ ~Has(st.fp[src].s[c]) THEN Err(st)     \* source array must be complete
    ELSE IF \E c \in C : st.fp[src].s[c] # "k" THEN Unspec(st)       \* copying keyword defaults: not specified here
    ELSE LET fp == Touch(g, st.fp, dst)  a == fp[src]  t == fp[dst] IN
         [st EXCEPT !.fp = Put(fp, dst, SetCells(t, C, LAMBDA c : a.v[c], LAMBDA c : "k"))]

OperateOn(g, st, dst, src, f, a, b, C) ==
    LET fp == Touch(g, Touch(g, st.fp, dst), src)  s == fp[src]  t == fp[dst]
        needT == f \in {"MULTIPLY", "POLY"} IN
    IF \E c \in C : ~Has(s.s[c]) \/ (needT /\ ~Has(t.s[c])) THEN Err(st)
    ELSE [st EXCEPT !.fp = Put(fp, dst, SetCells(t, C, LAMBDA c : OpFun(f, t.v[c], s.v[c], a, b), LAMBDA c : s.s[c]))]

\* region set array: created with its default on first use; the operation
\* addresses the active cells whose region value matches
\* (an empty region is skipped with a warning, except by COPYREG, which still requires its source array)
WithRegion(g, st, reg, val, SkipEmpty, Then(_, _)) ==
    LET st1 == [st EXCEPT !.fp = Touch(g, st.fp, RegName(reg))]
        C == RegionCells(g, st1.fp, RegName(reg), val) IN
    \* the region array must have a value in every active cell
    IF \E c \in 1..g.nc : Active(g, c) /\ ~Has(st1.fp[RegName(reg)].s[c]) THEN Err(st1)
    ELSE IF C = {} /\ SkipEmpty THEN st1 ELSE Then(st1, C)

ApplyOp(g, st, o) ==
    IF st.res # "ok" THEN st
    ELSE CASE o.op = "SECTION" -> [st EXCEPT !.box = FullBox(g)]
           [] o.op = "BOX" -> [st EXCEPT !.box = o.box]
           [] o.op = "ENDBOX" -> [st EXCEPT !.box = FullBox(g)]
           [] o.op = "ARRAY" ->
                LET cells == BoxCells(g, st.box)
                    fp == Touch(g, st.fp, o.kw)  arr == fp[o.kw]
                    \* entry n of the data: an integer, or -999 for a defaulted entry (n*)
                    Given(n) == o.vals[n] # -999
                    idx == {n \in 1..Len(cells) : Active(g, cells[n])}
                    \* a defaulted entry only matters for a keyword with a default, and then only in
                    \* cells that are still uninitialised - which such an array never has
                    newv == [c \in DOMAIN arr.v |-> IF \E n \in idx : cells[n] = c /\ Given(n)
                                                     THEN o.vals[CHOOSE n \in idx : cells[n] = c] ELSE arr.v[c]]
                    news == [c \in DOMAIN arr.s |-> IF \E n \in idx : cells[n] = c /\ Given(n) THEN "k" ELSE arr.s[c]]
                IN [st EXCEPT !.fp = Put(fp, o.kw, [v |-> newv, s |-> news])]
           [] o.op \in {"EQUALS", "ADD", "MULTIPLY", "MINVALUE", "MAXVALUE"} ->
                LET b == IF o.box = <<>> THEN st.box ELSE o.box IN
                IF o.op # "EQUALS" /\ ~IsMultiplier(o.kw) /\ o.kw \notin DOMAIN st.fp THEN Err(st)
                ELSE ScalarOn(g, st, o.kw, o.op, o.v, ActiveIn(g, BoxCells(g, b)))
           [] o.op = "COPY" -> CopyOn(g, st, o.src, o.dst, ActiveIn(g, BoxCells(g, IF o.box = <<>> THEN st.box ELSE o.box)))
           [] o.op = "OPERATE" -> OperateOn(g, st, o.dst, o.src, o.f, o.a, o.b,
                                            ActiveIn(g, BoxCells(g, IF o.box = <<>> THEN st.box ELSE o.box)))
           [] o.op \in {"EQUALREG", "ADDREG", "MULTIREG"} ->
                \* (the target array comes into existence even if the region turns out to be empty)
                WithRegion(g, [st EXCEPT !.fp = Touch(g, st.fp, o.kw)], o.reg, o.val, TRUE, LAMBDA s1, C : ScalarOn(g, s1, o.kw, o.op, o.v, C))
           [] o.op = "COPYREG" -> WithRegion(g, st, o.reg, o.val, FALSE, LAMBDA s1, C : CopyOn(g, s1, o.src, o.dst, C))
           [] o.op = "OPERATER" -> WithRegion(g, [st EXCEPT !.fp = Touch(g, st.fp, o.dst)], o.reg, o.val, TRUE, LAMBDA s1, C : OperateOn(g, s1, o.dst, o.src, o.f, o.a, o.b, C))
RECURSIVE RunOps(_, _, _)
RunOps(g, st, ops) == IF ops = <<>> THEN st ELSE RunOps(g, ApplyOp(g, st, Head(ops)), Tail(ops))

Grid(c) == [nx |-> c.dims[1], ny |-> c.dims[2], nz |-> c.dims[3], nc |-> c.dims[1] * c.dims[2] * c.dims[3], actnum |-> c.actnum]
\* content of an array as a caller sees it: values of the active cells in
\* natural order, or "incomplete" if an active cell has no value
Show(g, arr) == LET act == SelectSeq([c \in 1..g.nc |-> c], LAMBDA c : Active(g, c)) IN
                IF \E k \in 1..Len(act) : ~Has(arr.s[act[k]]) THEN [complete |-> FALSE, vals |-> <<>>, defaulted |-> <<>>]
                ELSE [complete |-> TRUE, vals |-> [k \in 1..Len(act) |-> arr.v[act[k]]],
                      defaulted |-> [k \in 1..Len(act) |-> arr.s[act[k]] = "d"]]
Outcome(c) == LET g == Grid(c)
                  st == RunOps(g, [fp |-> <<>>, box |-> FullBox(g), res |-> "ok"], c.prog) IN
              [id |-> c.id, res |-> st.res,
               arrays |-> IF st.res = "ok" THEN [kw \in DOMAIN st.fp |-> Show(g, st.fp[kw])] ELSE <<>>]
Init == i = 1
Next == i <= Len(CaseLog) /\ PrintT(<<"GEN", ToJson(Outcome(CaseLog[i]))>>) /\ i' = i + 1
Spec == Init /\ [][Next]_i
=============================================================================
