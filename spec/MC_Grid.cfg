SPECIFICATION MSpec
INVARIANTS IndexBijection PositiveVolumes Additive
