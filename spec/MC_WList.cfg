SPECIFICATION Spec
CONSTANTS
  Wells = {"P1", "P2"}
  Names = {"*L1", "*L2"}
  MaxOps = 4
INVARIANT Distinct
CHECK_DEADLOCK FALSE
