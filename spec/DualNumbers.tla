---------------------------- MODULE DualNumbers ----------------------------
(***************************************************************************)
(* Forward-mode automatic differentiation as the property C16 states it:   *)
(* every operation returns the exact function value and the partial        *)
(* derivatives given by the chain rule.                                    *)
(*                                                                         *)
(* A program is a postfix sequence of operations on a stack of dual        *)
(* numbers [v, d] (value term, sequence of N derivative terms).  Terms are *)
(* exact rationals wherever the operations are rational and symbolic       *)
(* applications  f(args)  of named real functions elsewhere (the harness   *)
(* evaluates these with <cmath>; which expression is the right answer -    *)
(* i.e. the differentiation rules - is decided here).                      *)
(*                                                                         *)
(* term:  [t |-> "q", n, d]  |  [t |-> "f", f |-> name, a |-> <<terms>>]   *)
(***************************************************************************)
EXTENDS Integers, Sequences, FiniteSets, TLC

Abs(i) == IF i < 0 THEN -i ELSE i
RECURSIVE GCD(_, _)
GCD(a, b) == IF b = 0 THEN a ELSE GCD(b, a % b)
Q(n, d) == LET g == GCD(Abs(n), Abs(d))  s == IF d < 0 THEN -1 ELSE 1 IN
           IF n = 0 THEN [t |-> "q", n |-> 0, d |-> 1] ELSE [t |-> "q", n |-> s * (n \div g), d |-> s * (d \div g)]
QI(i) == [t |-> "q", n |-> i, d |-> 1]
IsQ(x) == x.t = "q"
IsZero(x) == IsQ(x) /\ x.n = 0
IsOne(x) == IsQ(x) /\ x.n = 1 /\ x.d = 1
F(name, args) == [t |-> "f", f |-> name, a |-> args]

\* term constructors; rationals are folded, 0 and 1 simplified
TAdd(a, b) == IF IsQ(a) /\ IsQ(b) THEN Q(a.n * b.d + b.n * a.d, a.d * b.d)
              ELSE IF IsZero(a) THEN b ELSE IF IsZero(b) THEN a ELSE F("+", <<a, b>>)
TNeg(a) == IF IsQ(a) THEN Q(-a.n, a.d) ELSE F("neg", <<a>>)
TSub(a, b) == IF IsQ(a) /\ IsQ(b) THEN Q(a.n * b.d - b.n * a.d, a.d * b.d)
              ELSE IF IsZero(b) THEN a ELSE IF IsZero(a) THEN TNeg(b) ELSE F("-", <<a, b>>)
TMul(a, b) == IF IsQ(a) /\ IsQ(b) THEN Q(a.n * b.n, a.d * b.d)
              ELSE IF IsZero(a) \/ IsZero(b) THEN QI(0)
              ELSE IF IsOne(a) THEN b ELSE IF IsOne(b) THEN a ELSE F("*", <<a, b>>)
TDiv(a, b) == IF IsQ(a) /\ IsQ(b) THEN Q(a.n * b.d, a.d * b.n)
              ELSE IF IsZero(a) THEN QI(0) ELSE IF IsOne(b) THEN a ELSE F("/", <<a, b>>)
TFn(name, a) == F(name, <<a>>)
TFn2(name, a, b) == F(name, <<a, b>>)
QLt(a, b) == a.n * b.d < b.n * a.d

(* derivative of a unary function at u, as a term *)
DUnary(f, u) ==
    CASE f = "neg"   -> QI(-1)
      [] f = "sqrt"  -> TDiv(QI(1), TMul(QI(2), TFn("sqrt", u)))
      [] f = "exp"   -> TFn("exp", u)
      [] f = "log"   -> TDiv(QI(1), u)
      [] f = "log10" -> TDiv(QI(1), TMul(u, TFn("log", QI(10))))
      [] f = "sin"   -> TFn("cos", u)
      [] f = "cos"   -> TNeg(TFn("sin", u))
      [] f = "tan"   -> TAdd(QI(1), TMul(TFn("tan", u), TFn("tan", u)))
      [] f = "asin"  -> TDiv(QI(1), TFn("sqrt", TSub(QI(1), TMul(u, u))))
      [] f = "acos"  -> TNeg(TDiv(QI(1), TFn("sqrt", TSub(QI(1), TMul(u, u)))))
      [] f = "atan"  -> TDiv(QI(1), TAdd(QI(1), TMul(u, u)))
      [] f = "sinh"  -> TFn("cosh", u)
      [] f = "cosh"  -> TFn("sinh", u)
      [] f = "asinh" -> TDiv(QI(1), TFn("sqrt", TAdd(TMul(u, u), QI(1))))
      [] f = "acosh" -> TDiv(QI(1), TFn("sqrt", TSub(TMul(u, u), QI(1))))
      \* abs is only applied to rational values (the sign must be decidable here)
      [] f = "abs"   -> IF QLt(u, QI(0)) THEN QI(-1) ELSE QI(1)
VUnary(f, u) == IF f = "neg" THEN TNeg(u)
                ELSE IF f = "abs" THEN (IF QLt(u, QI(0)) THEN TNeg(u) ELSE u)
                ELSE TFn(f, u)

Map(d, Op(_)) == [j \in 1..Len(d) |-> Op(d[j])]
Map2(d, e, Op(_, _)) == [j \in 1..Len(d) |-> Op(d[j], e[j])]

Var(N, i, q) == [v |-> q, d |-> [j \in 1..N |-> IF j = i THEN QI(1) ELSE QI(0)]]
Const(N, q) == [v |-> q, d |-> [j \in 1..N |-> QI(0)]]
Unary(f, x) == LET c == DUnary(f, x.v) IN [v |-> VUnary(f, x.v), d |-> Map(x.d, LAMBDA e : TMul(c, e))]
Binary(op, x, y) ==
    CASE op = "+" -> [v |-> TAdd(x.v, y.v), d |-> Map2(x.d, y.d, TAdd)]
      [] op = "-" -> [v |-> TSub(x.v, y.v), d |-> Map2(x.d, y.d, TSub)]
      [] op = "*" -> [v |-> TMul(x.v, y.v), d |-> Map2(x.d, y.d, LAMBDA a, b : TAdd(TMul(a, y.v), TMul(x.v, b)))]
      [] op = "/" -> [v |-> TDiv(x.v, y.v),
                      d |-> Map2(x.d, y.d, LAMBDA a, b : TDiv(TSub(TMul(a, y.v), TMul(x.v, b)), TMul(y.v, y.v)))]
      \* u^w = exp(w ln u):  d = u^w * (w' ln u + w u'/u)
      [] op = "pow" -> LET p == TFn2("pow", x.v, y.v) IN
                       [v |-> p, d |-> Map2(x.d, y.d, LAMBDA a, b :
                           TMul(p, TAdd(TMul(b, TFn("log", x.v)), TDiv(TMul(y.v, a), x.v))))]
      \* atan2(y, x) with this = y (first argument), that = x
      [] op = "atan2" -> [v |-> TFn2("atan2", x.v, y.v),
                          d |-> Map2(x.d, y.d, LAMBDA a, b :
                              TDiv(TSub(TMul(y.v, a), TMul(x.v, b)), TAdd(TMul(x.v, x.v), TMul(y.v, y.v))))]
      \* min / max only between rational values; ties are never generated
      [] op = "min" -> IF QLt(x.v, y.v) THEN x ELSE y
      [] op = "max" -> IF QLt(x.v, y.v) THEN y ELSE x
\* pow with a scalar exponent / scalar base (separate overloads in Math.hpp)
PowScalarExp(x, c) == [v |-> TFn2("pow", x.v, c),
                       d |-> Map(x.d, LAMBDA a : TMul(TMul(c, TFn2("pow", x.v, TSub(c, QI(1)))), a))]
PowScalarBase(c, y) == LET p == TFn2("pow", c, y.v) IN
                       [v |-> p, d |-> Map(y.d, LAMBDA b : TMul(TMul(p, TFn("log", c)), b))]

(* the stack machine.  op records:                                        *)
(*  [o |-> "var", i, q] [o |-> "const", q] [o |-> "un", f]                *)
(*  [o |-> "bin", f]      both operands Evaluations (top = right operand) *)
(*  [o |-> "binS", f, side, q]  scalar on side "L" or "R"                 *)
(*  [o |-> "cmpd", f] / [o |-> "cmpdS", f, q]   compound assignment       *)
(*  [o |-> "binSelf", f] / [o |-> "cmpdSelf", f]  x op x,  x op= x        *)
Step(N, st, op) ==
    LET n == Len(st) IN
    CASE op.o = "var" -> Append(st, Var(N, op.i, op.q))
      [] op.o = "const" -> Append(st, Const(N, op.q))
      [] op.o = "un" -> [st EXCEPT ![n] = Unary(op.f, st[n])]
      [] op.o \in {"bin", "cmpd"} -> Append(SubSeq(st, 1, n - 2), Binary(op.f, st[n - 1], st[n]))
      \* both operands are the same object:  x op x  /  x op= x
      [] op.o \in {"binSelf", "cmpdSelf"} -> [st EXCEPT ![n] = Binary(op.f, st[n], st[n])]
      [] op.o \in {"binS", "cmpdS"} ->
            [st EXCEPT ![n] =
                IF op.f = "pow" THEN (IF op.side = "R" THEN PowScalarExp(st[n], op.q) ELSE PowScalarBase(op.q, st[n]))
                ELSE IF op.side = "R" THEN Binary(op.f, st[n], Const(N, op.q))
                ELSE Binary(op.f, Const(N, op.q), st[n])]
RECURSIVE Run(_, _, _)
Run(N, st, prog) == IF prog = <<>> THEN st ELSE Run(N, Step(N, st, Head(prog)), Tail(prog))
Result(N, prog) == LET st == Run(N, <<>>, prog) IN st[Len(st)]

(* design-level laws, checked by TLC on small programs (MC_DualNumbers):   *)
(* the mixed scalar form agrees with the all-Evaluation form, compound     *)
(* assignment with the binary form, by construction of Step; product and   *)
(* quotient rules are consistent:  (x / y) * y  has the derivative of x    *)
(* whenever everything is rational.                                        *)
=============================================================================
