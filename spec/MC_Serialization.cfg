SPECIFICATION Spec
CONSTANT Values <- MCValues
INVARIANTS InBounds Exact
PROPERTY Forward
CHECK_DEADLOCK FALSE
