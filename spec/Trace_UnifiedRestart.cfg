SPECIFICATION TraceSpec
CONSTANTS
  MaxStep = 0
  Payloads = {}
  SeekBackF = 31
  SeekBackU = 24
INVARIANTS NoJunk StepsIncreasing JustWrittenIsLast EarlierPreserved EqualsFresh
POSTCONDITION TraceAccepted
CHECK_DEADLOCK FALSE
