SPECIFICATION SpecCoarse
CONSTANTS
  MaxStep = 3
  Payloads <- PayloadSet
  MaxWrites = 4
  MaxArrs = 99
  SeekBackF = 31
  SeekBackU = 24
CONSTRAINT BoundCoarse
INVARIANTS NoJunk StepsIncreasing JustWrittenIsLast EarlierPreserved EqualsFresh
