--------------------------- MODULE Oracle_Summary ---------------------------
(* TLC as oracle for C09: runs the evaluations of each case through Summary  *)
(* and prints the vector values after every evaluation.                      *)
EXTENDS Summary, Json, IOUtils
CaseLog == ndJsonDeserialize(IOEnv.CASES)
VARIABLES i, j
Case == CaseLog[i]
Init == i = 1 /\ j = 0 /\ cum = <<>> /\ days = 0 /\ out = <<>>
Start == /\ i <= Len(CaseLog) /\ j = 0
         /\ cum' = ZeroCum(Case.model) /\ days' = 0 /\ out' = <<>> /\ j' = 1 /\ UNCHANGED i
Step == /\ i <= Len(CaseLog) /\ j >= 1 /\ j <= Len(Case.evals)
        /\ Eval(Case.model, Case.evals[j])
        /\ PrintT(<<"GEN", ToJson([id |-> Case.id * 100 + j, case |-> Case.id, eval |-> j, vec |-> out'])>>)
        /\ j' = j + 1 /\ UNCHANGED i
Finish == /\ i <= Len(CaseLog) /\ j > Len(Case.evals) /\ i' = i + 1 /\ j' = 0 /\ UNCHANGED svars
Next == Start \/ Step \/ Finish
Spec == Init /\ [][Next]_<<svars, i, j>>
=============================================================================
