SPECIFICATION Spec
CONSTANTS
  MaxSeg = 12
  MaxRecs = 5
  MaxComps = 4
  MinRecs = 3
  NCells = 8
  Dzs <- GDzs
  Areas <- GAreas
CONSTRAINT Emit
CHECK_DEADLOCK FALSE
