SPECIFICATION TraceSpec
CONSTANTS
 SeekBackF = 31
 SeekBackU = 24
POSTCONDITION TraceAccepted
CHECK_DEADLOCK FALSE
