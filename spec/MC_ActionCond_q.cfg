SPECIFICATION Spec
CONSTANTS
  Wells <- MCWells
  PatWells <- MCPat
  FQty = {"FOPR"}
  WQty = {"WOPR", "WWCT"}
  GQty = {}
  NumTok <- MCNum
  FixLevel = 2
  MaxLeaves = 2
INVARIANTS Agree RefSane
