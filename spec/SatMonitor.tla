----------------------------- MODULE SatMonitor -----------------------------
(***************************************************************************)
(* Saturation functions against their input tables (property C15).         *)
(*                                                                         *)
(* Part 1 - which models exist: input family (I: SWOF/SGOF, II: SWFN/SGFN/ *)
(* SOF3 describing the same curves), number of nodes, one or two           *)
(* saturation regions, end-point scaling off / two-point / three-point,    *)
(* with or without per-cell end-point arrays, hysteresis off / Carlson     *)
(* with the imbibition curves equal to or different from the drainage      *)
(* curves.  TLC enumerates the combinations; the driver draws monotone     *)
(* tables and consistent end-points for each.                              *)
(*                                                                         *)
(* Part 2 - relations over integer-scaled values (1e7 = the largest value  *)
(* of the curve, or 1 for saturations):                                    *)
(*   Node     the curve at a table node equals the tabulated value         *)
(*   Between  between neighbouring nodes the value lies between the node   *)
(*            values (monotone interpolation)                              *)
(*   Range    0 <= kr <= the curve's maximum                               *)
(*   Same     two models that must agree do agree (family I vs II; scaling *)
(*            with the table's own end-points vs no scaling; Carlson       *)
(*            hysteresis with identical curves vs no hysteresis; the       *)
(*            non-wetting curve before the first reversal vs drainage)     *)
(*   EndPoint a scaled end-point carries the table's end-point value       *)
(*   Scan     a scanning curve starts at the reversal point's value and is *)
(*            monotone in the saturation                                   *)
(*   Mono     a scaled curve is monotone in its saturation                 *)
(* With vertical scaling EndPoint also says: the curve carries the cell's  *)
(* KRW / KRO / KRG at its maximum end-point and KRWR / KRORW / KRGR at the *)
(* critical saturation of the displacing phase.                            *)
(***************************************************************************)
EXTENDS Integers, Sequences, FiniteSets, TLC, Json
Models == [family : {1, 2}, nodes : 3..5, regions : {1, 2}, scaling : {"none", "two", "three"}, arrays : BOOLEAN,
           hyst : {"none", "same", "other"}, vertical : BOOLEAN]
\* end-point arrays only make sense with scaling; different imbibition curves need a second region;
\* vertical scaling (KRW / KRWR, KRO / KRORW, KRG / KRGR per cell) is modelled with three-point scaling and without hysteresis
Valid(m) == /\ (m.arrays => m.scaling # "none") /\ (m.hyst = "other" => m.regions = 2)
            /\ (m.vertical => m.arrays /\ m.scaling = "three" /\ m.hyst = "none")
VARIABLE model
MInit == model \in {m \in Models : Valid(m)}
MNext == UNCHANGED model
MSpec == MInit /\ [][MNext]_model
Emit == PrintT(<<"GEN", ToJson(model)>>)
Abs(x) == IF x < 0 THEN -x ELSE x
Min(a, b) == IF a < b THEN a ELSE b
Max(a, b) == IF a > b THEN a ELSE b
Tol == 20                 \* 2e-6 of the curve's maximum
NodeOk(e) == Abs(e.got - e.exp) <= Tol
BetweenOk(e) == e.got >= Min(e.a, e.b) - Tol /\ e.got <= Max(e.a, e.b) + Tol
RangeOk(e) == e.got >= -Tol /\ e.got <= e.max + Tol
SameOk(e) == Abs(e.a - e.b) <= Tol
EndPointOk(e) == Abs(e.got - e.exp) <= Tol
ScanOk(e) == Abs(e.start - e.atrev) <= Tol /\ e.monotone = TRUE
MonoOk(e) == e.worst <= Tol
=============================================================================
