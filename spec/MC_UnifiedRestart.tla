------------------------- MODULE MC_UnifiedRestart -------------------------
EXTENDS UnifiedRestart
CONSTANTS MaxWrites, MaxArrs
A(nm, t, w, n) == [name |-> nm, t |-> t, w |-> w, n |-> n]
PayloadSet == { <<>>,
                <<A("INTEHEAD", "INTE", 0, 3)>>,
                <<A("PRESSURE", "DOUB", 0, 2), A("ZWEL", "CHAR", 8, 1), A("EMPTY", "REAL", 0, 0)>>,
                <<A("BIG", "REAL", 0, 1001), A("MSG", "MESS", 0, 0)>> }
PayloadSmall == { <<A("INTEHEAD", "INTE", 0, 3)>>, <<A("ZWEL", "CHAR", 8, 1), A("EMPTY", "REAL", 0, 0)>> }
Bound == wid <= MaxWrites /\ Len(arrs) <= MaxArrs
BoundCoarse == wid <= MaxWrites
=============================================================================
