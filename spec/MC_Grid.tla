------------------------------ MODULE MC_Grid ------------------------------
EXTENDS Grid
Sizes == {1, 2, 3}
Masks(n) == [1..n -> {0, 1}]
MCInit == GInit
MCreate == \E a \in 1..2, b \in 1..2, c \in 1..2 :
             \E x \in [1..a -> Sizes], y \in [1..b -> {1, 2}], z \in [1..c -> Sizes], act \in Masks(a * b * c) :
                ~exists /\ (\E w0 \in {0, 2, 4} : Create(a, b, c, x, y, z, 10, [q \in 1..(a * b) |-> 0], act, [q \in 1..(a + 1) |-> IF q = 1 THEN w0 ELSE 2]))
MReset == \E act \in Masks(NC) : ResetActnum(act)
MResetAll == ResetAllActive
MNext == MCreate \/ MReset \/ MResetAll
MSpec == MCInit /\ [][MNext]_gvars
=============================================================================
