-------------------------------- MODULE WList --------------------------------
(***************************************************************************)
(* Well lists (WLIST), beyond the listed properties.  A list is an ordered *)
(* collection of distinct wells; a well may be on several lists.           *)
(*   NEW  creates the list, or replaces the content of an existing one     *)
(*        (wells that stay keep nothing of their old position: the list    *)
(*        is rebuilt in the order given)                                   *)
(*   ADD  appends the wells that are not yet on the list                   *)
(*   DEL  removes the wells from this list                                 *)
(*   MOV  removes the wells from every list and appends them to this one   *)
(* ADD, DEL and MOV on a list that does not exist are input errors.        *)
(* The library also keeps, per well, slots with the names of lists and the *)
(* number of lists the well is on: every list the well is on has a slot    *)
(* (slots of lists it has left may remain).                                *)
(***************************************************************************)
EXTENDS Integers, Sequences, FiniteSets, TLC
CONSTANTS Wells, Names, MaxOps
VARIABLES lists,   \* name -> sequence of distinct wells, for the lists that exist
          nops
vars == <<lists, nops>>
Range(s) == {s[i] : i \in DOMAIN s}
Remove(s, ws) == SelectSeq(s, LAMBDA w : w \notin ws)
RECURSIVE AppendNew(_, _)
AppendNew(s, ws) == IF ws = <<>> THEN s
                    ELSE AppendNew(IF Head(ws) \in Range(s) THEN s ELSE Append(s, Head(ws)), Tail(ws))
Put(f, k, v) == [x \in DOMAIN f \cup {k} |-> IF x = k THEN v ELSE f[x]]
Exists(n) == n \in DOMAIN lists
Apply(ls, op, n, ws) ==
    CASE op = "NEW" -> Put(ls, n, AppendNew(<<>>, ws))
      [] op = "ADD" -> [ls EXCEPT ![n] = AppendNew(@, ws)]
      [] op = "DEL" -> [ls EXCEPT ![n] = Remove(@, Range(ws))]
      [] op = "MOV" -> [x \in DOMAIN ls |-> IF x = n THEN AppendNew(Remove(ls[x], Range(ws)), ws) ELSE Remove(ls[x], Range(ws))]
Legal(op, n) == op = "NEW" \/ Exists(n)
Init == lists = <<>> /\ nops = 0
WellSeqs == UNION {[1..k -> Wells] : k \in 0..2}
Next == /\ nops < MaxOps /\ nops' = nops + 1
        /\ \E op \in {"NEW", "ADD", "DEL", "MOV"}, n \in Names, ws \in WellSeqs :
              Legal(op, n) /\ lists' = Apply(lists, op, n, ws)
Spec == Init /\ [][Next]_vars
\* what the per-well index must say
ListsOf(ls, w) == {n \in DOMAIN ls : w \in Range(ls[n])}
Distinct == \A n \in DOMAIN lists : Cardinality(Range(lists[n])) = Len(lists[n])
=============================================================================
