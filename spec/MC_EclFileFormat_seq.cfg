SPECIFICATION Spec
CONSTANTS
  Lengths <- LenEdge
  CWidths = {9, 37}
  MaxArrs = 3
  SeekBackF = 31
  SeekBackU = 24
INVARIANTS Laws IndexAgrees SeekFindsHeader SizeIsSum
