SPECIFICATION MSpec
CONSTANTS
 Depth = 2
 ShutSets <- AllShut
INVARIANTS TotalsConserved RatesHierarchical Derived
PROPERTIES Monotone ShutStandsStill
CHECK_DEADLOCK FALSE
