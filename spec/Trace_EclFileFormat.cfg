SPECIFICATION TraceSpec
CONSTANTS
  SeekBackF = 31
  SeekBackU = 24
INVARIANT Agree
POSTCONDITION TraceAccepted
CHECK_DEADLOCK FALSE
