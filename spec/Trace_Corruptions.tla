-------------------------- MODULE Trace_Corruptions --------------------------
(* Trace validation for C20: the recorded outcome of every corrupted input.   *)
EXTENDS Corruptions, IOUtils
TraceLog == ndJsonDeserialize(IOEnv.TRACE)
VARIABLE l
Ev == TraceLog[l]
Ok == CASE Ev.e = "Reset" -> TRUE
        [] Ev.e = "Outcome" -> \A i \in 1..Len(Ev.stages) : OutcomeOk(Ev.stages[i].outcome)
        [] OTHER -> FALSE
TInit == l = 1 /\ kind = "deck" /\ script = <<>>
\* Thousands of independent inputs are judged in one pass: a refused outcome is printed and the validation goes on
\* (the driver reports every printed id as a violation), so the trace is always consumed to its end.
TStep == /\ l <= Len(TraceLog) /\ l' = l + 1 /\ UNCHANGED vars
         /\ (IF Ok THEN TRUE ELSE PrintT(<<"REFUSED", Ev.id>>))
TraceSpec == TInit /\ [][TStep]_<<vars, l>>
TraceAccepted == TLCGet("stats").diameter - 1 = Len(TraceLog)
=============================================================================
