------------------------- MODULE Gen_UnifiedRestart -------------------------
(* Behaviour generation: every write history of exactly MaxWrites sessions   *)
(* (prefixes are covered by the longer histories) is printed as one JSON     *)
(* line; the runner turns each into a script for harness/urst.               *)
EXTENDS MC_UnifiedRestart, Json
VARIABLE h
gvars == <<vars, h>>
GInit == Init /\ h = <<>>
GNext == \E s \in 0..MaxStep : \E p \in Payloads :
            WriteStep(s, p) /\ h' = Append(h, [step |-> s, payload |-> p])
GSpec == GInit /\ [][GNext]_gvars
Emit == IF wid = MaxWrites
        THEN PrintT(<<"GEN", ToJson([fmt |-> fmt, writes |-> h])>>) /\ FALSE
        ELSE TRUE
=============================================================================
