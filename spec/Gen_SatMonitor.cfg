SPECIFICATION MSpec
CONSTRAINT Emit
CHECK_DEADLOCK FALSE
