SPECIFICATION GSpec
CONSTANTS
  Wells <- GWells
  InputOrder <- GInput
  FreeOrder <- GFree
  FreeCells <- GFreeCells
  NK = 5
  MaxOps = 9
  MaxSteps = 4
  SmallSel <- GenSel
CONSTRAINT Emit
CONSTRAINT Useful
CHECK_DEADLOCK FALSE
