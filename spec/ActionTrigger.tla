---------------------------- MODULE ActionTrigger ----------------------------
(***************************************************************************)
(* ACTIONX triggering: run counts, minimum wait, start time, redefinition  *)
(* and restart (C18, second half).                                         *)
(*                                                                         *)
(* defs   actions in definition order (Actions::add: a redefinition keeps  *)
(*        the position and bumps the id)                                   *)
(* rs     run state keyed by (name, id) as Action::State keeps it          *)
(* now    simulation time (seconds)                                        *)
(* runs   history of runs, used only to state the properties               *)
(*                                                                         *)
(* Step(outcome) is one pass of the simulator's action loop: every pending *)
(* action whose condition evaluates to true is run.                        *)
(***************************************************************************)
EXTENDS Integers, Sequences, FiniteSets, TLC

CONSTANTS Names, MaxRuns, MinWaits, Starts, Dts

VARIABLES defs, rs, now, runs
vars == <<defs, rs, now, runs>>

Idx(a) == CHOOSE i \in 1..Len(defs) : defs[i].name = a
Defined(a) == \E i \in 1..Len(defs) : defs[i].name = a
Key(d) == <<d.name, d.id>>
Count(d) == IF Key(d) \in DOMAIN rs THEN rs[Key(d)].count ELSE 0
Last(d) == rs[Key(d)].last
\* ActionX::ready
Ready(d) == /\ Count(d) < d.max_run
            /\ now >= d.start
            /\ (Count(d) = 0 \/ d.min_wait <= 0 \/ now - Last(d) >= d.min_wait)
\* Actions::pending: ready actions in definition order
Pending == SelectSeq(defs, Ready)

Init == defs = <<>> /\ rs = <<>> /\ now = 0 /\ runs = <<>>

\* ACTIONX keyword at the current time: start time = now
Define(a, mr, mw) ==
    /\ defs' = IF Defined(a)
               THEN [defs EXCEPT ![Idx(a)] = [name |-> a, id |-> defs[Idx(a)].id + 1, max_run |-> mr,
                                              min_wait |-> mw, start |-> now]]
               ELSE Append(defs, [name |-> a, id |-> 0, max_run |-> mr, min_wait |-> mw, start |-> now])
    /\ UNCHANGED <<rs, now, runs>>

Tick(dt) == now' = now + dt /\ UNCHANGED <<defs, rs, runs>>

\* State::add_run for every pending action with a true condition
AddRun(r, d) == IF Key(d) \in DOMAIN r
                THEN [r EXCEPT ![Key(d)] = [count |-> r[Key(d)].count + 1, last |-> now]]
                ELSE [k \in DOMAIN r \cup {Key(d)} |-> IF k = Key(d) THEN [count |-> 1, last |-> now] ELSE r[k]]
RECURSIVE AddRuns(_, _)
AddRuns(r, ds) == IF ds = <<>> THEN r ELSE AddRuns(AddRun(r, Head(ds)), Tail(ds))
Step(trueSet) ==
    LET ran == SelectSeq(Pending, LAMBDA d : d.name \in trueSet) IN
    /\ rs' = AddRuns(rs, ran)
    /\ runs' = runs \o [i \in 1..Len(ran) |-> [name |-> ran[i].name, id |-> ran[i].id, t |-> now,
                                                max_run |-> ran[i].max_run, min_wait |-> ran[i].min_wait,
                                                start |-> ran[i].start]]
    /\ UNCHANGED <<defs, now>>

\* restart: the run state is rebuilt from the restart file, which holds count
\* and time of last run of the current definition of every action
Restart ==
    /\ rs' = LET live == {Key(defs[i]) : i \in 1..Len(defs)} \cap DOMAIN rs IN [k \in live |-> rs[k]]
    /\ UNCHANGED <<defs, now, runs>>

Next == \/ \E a \in Names, mr \in MaxRuns, mw \in MinWaits : Define(a, mr, mw)
        \/ \E dt \in Dts : Tick(dt)
        \/ \E S \in SUBSET Names : Step(S)
        \/ Restart
Spec == Init /\ [][Next]_vars

(* ---- properties ---- *)
RunsOf(a, i) == SelectSeq(runs, LAMBDA r : r.name = a /\ r.id = i)
NeverMoreThanMax == \A k \in 1..Len(runs) : Len(RunsOf(runs[k].name, runs[k].id)) <= runs[k].max_run
NeverBeforeStart == \A k \in 1..Len(runs) : runs[k].t >= runs[k].start
WaitRespected == \A k \in 1..Len(runs) :
                    LET q == RunsOf(runs[k].name, runs[k].id) IN
                    \A j \in 1..(Len(q) - 1) : q[j].min_wait > 0 => q[j + 1].t - q[j].t >= q[j].min_wait
CountMatchesHistory == \A i \in 1..Len(defs) : Count(defs[i]) = Len(RunsOf(defs[i].name, defs[i].id))
=============================================================================
