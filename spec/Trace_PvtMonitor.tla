-------------------------- MODULE Trace_PvtMonitor --------------------------
(* Trace validation for C14: every evaluation event of the real fluid model  *)
(* must satisfy the relation of its kind.                                    *)
EXTENDS PvtMonitor, IOUtils
TraceLog == ndJsonDeserialize(IOEnv.TRACE)
VARIABLE l
Ev == TraceLog[l]
Ok == CASE Ev.e = "Reset" -> TRUE
        [] Ev.e = "Node" -> NodeOk(Ev) [] Ev.e = "Between" -> BetweenOk(Ev) [] Ev.e = "Meet" -> MeetOk(Ev)
        [] Ev.e = "Invert" -> InvertOk(Ev) [] Ev.e = "Slope" -> SlopeOk(Ev) [] Ev.e = "Skip" -> TRUE
        [] OTHER -> FALSE
TInit == l = 1 /\ model = <<>> /\ built = FALSE
TStep == l <= Len(TraceLog) /\ Ok /\ l' = l + 1 /\ UNCHANGED mvars
TDiag == l <= Len(TraceLog) /\ ~Ok /\ PrintT(<<"DIAG", l, Ev>>) /\ FALSE /\ UNCHANGED <<mvars, l>>
TraceSpec == TInit /\ [][TStep \/ TDiag]_<<mvars, l>>
TraceAccepted == TLCGet("stats").diameter - 1 = Len(TraceLog)
=============================================================================
