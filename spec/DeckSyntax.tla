----------------------------- MODULE DeckSyntax -----------------------------
(***************************************************************************)
(* Input decks at the level of lexemes, what they mean, and the layout     *)
(* rewrites that must not change the meaning (properties C01 and C19).     *)
(*                                                                         *)
(* A text is a sequence of files; file 1 is the main file, the others are  *)
(* INCLUDE files.  A file is a sequence of lines, a line a sequence of     *)
(* lexemes: a keyword name (always first on its line), value tokens, the   *)
(* terminating slash, text after the slash, a comment, the free text of a  *)
(* TITLE, an INCLUDE directive.  How a lexeme is spelt (blanks, tabs,      *)
(* quotes, the comment text) is the renderer's business.                   *)
(*                                                                         *)
(* Meaning(text) is the deck: keywords in order, each a sequence of        *)
(* records, each a sequence of items, each a sequence of entries that are  *)
(* either a value token or "defaulted".  It follows the documented input   *)
(* rules: comments and text after the terminating slash are ignored; a     *)
(* record extends over lines up to its slash; n*v stands for n copies of   *)
(* v and n* for n defaulted entries, both running on into the following    *)
(* items; a record that ends early defaults the remaining items; how many  *)
(* records a keyword has follows from its size class (DeckSchema).         *)
(***************************************************************************)
EXTENDS Integers, Sequences, FiniteSets, TLC, DeckSchema

\* ---- lexemes
KW(n, style) == [k |-> "kw", name |-> n, style |-> style]
NoneT == [t |-> "none"]
IntT(n) == [t |-> "int", n |-> n]
DblT(id) == [t |-> "dbl", id |-> id]
StrT(s, q) == [t |-> "str", s |-> s, q |-> q]          \* q: written in quotes
RawT(s) == [t |-> "raw", s |-> s]                      \* a word of free text (UDQ expressions)
StarT(n, of) == [t |-> "star", n |-> n, of |-> of]     \* n*v, or n* when of = NoneT
V(tok) == [k |-> "tok", v |-> tok]
SL == [k |-> "slash"]
CM(id) == [k |-> "comment", id |-> id]
TR(id) == [k |-> "trail", id |-> id]
TTL(id) == [k |-> "title", id |-> id]
INC(f) == [k |-> "include", f |-> f]

\* ---- meaning
RECURSIVE FlatLines(_, _)
FlatLines(text, lines) ==
    IF lines = <<>> THEN <<>>
    ELSE LET ln == Head(lines) IN
         IF ln # <<>> /\ Head(ln).k = "include" THEN FlatLines(text, text[Head(ln).f]) \o FlatLines(text, Tail(lines))
         ELSE <<ln>> \o FlatLines(text, Tail(lines))
Significant(x) == x.k \notin {"comment", "trail"}
RECURSIVE Stream(_)
Stream(lines) == IF lines = <<>> THEN <<>> ELSE SelectSeq(Head(lines), Significant) \o Stream(Tail(lines))

Entry(tok) == [st |-> "val", tok |-> tok]
Defaulted == [st |-> "def"]
RECURSIVE Copies(_, _)
Copies(n, x) == IF n = 0 THEN <<>> ELSE <<x>> \o Copies(n - 1, x)
StarEntry(t) == IF t.of = NoneT THEN Defaulted ELSE Entry(t.of)
\* all remaining tokens of a record go to an item of size ALL
RECURSIVE ExpandAll(_, _)
ExpandAll(toks, raw) ==
    IF toks = <<>> THEN <<>>
    ELSE LET t == Head(toks) IN
         (IF t.t = "star" /\ ~raw THEN Copies(t.n, StarEntry(t)) ELSE <<Entry(t)>>) \o ExpandAll(Tail(toks), raw)
\* the items of one record
RECURSIVE Scan(_, _)
Scan(toks, items) ==
    IF items = <<>> THEN <<>>
    ELSE LET it == Head(items) IN
         IF it.all THEN <<ExpandAll(toks, it.raw)>> \o Scan(<<>>, Tail(items))
         ELSE IF toks = <<>> THEN << <<Defaulted>> >> \o Scan(<<>>, Tail(items))
         ELSE LET t == Head(toks) IN
              IF t.t = "star" /\ ~it.raw
              THEN << <<StarEntry(t)>> >> \o Scan((IF t.n > 1 THEN <<StarT(t.n - 1, t.of)>> ELSE <<>>) \o Tail(toks), Tail(items))
              ELSE << <<Entry(t)>> >> \o Scan(Tail(toks), Tail(items))

\* tokens of the first record of a lexeme stream, and the rest behind its slash
RECURSIVE UpToSlash(_)
UpToSlash(s) == IF s = <<>> \/ Head(s).k = "slash" THEN <<>> ELSE <<Head(s).v>> \o UpToSlash(Tail(s))
RECURSIVE AfterSlash(_)
AfterSlash(s) == IF s = <<>> THEN <<>> ELSE IF Head(s).k = "slash" THEN Tail(s) ELSE AfterSlash(Tail(s))

RECURSIVE FixedRecords(_, _, _)
FixedRecords(s, n, items) ==                      \* <<records, rest>>
    IF n = 0 THEN <<<<>>, s>>
    ELSE LET r == FixedRecords(AfterSlash(s), n - 1, items) IN <<<<Scan(UpToSlash(s), items)>> \o r[1], r[2]>>
RECURSIVE SlashRecords(_, _)
SlashRecords(s, items) ==                         \* records up to the empty record
    IF s = <<>> THEN <<<<>>, s>>
    ELSE IF Head(s).k = "slash" THEN <<<<>>, Tail(s)>>
    ELSE LET r == SlashRecords(AfterSlash(s), items) IN <<<<Scan(UpToSlash(s), items)>> \o r[1], r[2]>>

\* a collection of n tables: each table is a run of records closed by an empty record; the empty record that
\* separates two tables is a record of the keyword (its items defaulted / empty), the one closing the last table is not
RECURSIVE TableRecords(_, _, _)
TableRecords(s, n, items) ==
    IF n = 0 \/ s = <<>> THEN <<<<>>, s>>
    ELSE IF Head(s).k = "slash"
         THEN IF n = 1 THEN <<<<>>, Tail(s)>>
              ELSE LET r == TableRecords(Tail(s), n - 1, items) IN <<<<Scan(<<>>, items)>> \o r[1], r[2]>>
         ELSE LET r == TableRecords(AfterSlash(s), n, items) IN <<<<Scan(UpToSlash(s), items)>> \o r[1], r[2]>>

\* the integer an earlier keyword gives for the size of a later one
SizeFrom(deck, kw, item) ==
    LET found == {i \in 1..Len(deck) : deck[i].name = kw} IN
    IF found = {} THEN SizeDefault[kw]
    ELSE LET e == deck[CHOOSE i \in found : TRUE].recs[1][item][1] IN
         IF e.st = "def" THEN SizeDefault[kw] ELSE e.tok.n

RECURSIVE Keywords(_, _)
Keywords(s, deck) ==
    IF s = <<>> THEN deck
    ELSE LET name == Head(s).name
             sch == Schema[name]
             body == Tail(s)
             r == CASE sch.class = "fixed" -> FixedRecords(body, sch.n, sch.items)
                    [] sch.class = "data" -> FixedRecords(body, 1, sch.items)
                    [] sch.class = "other" -> FixedRecords(body, SizeFrom(deck, sch.szkw, sch.szitem), sch.items)
                    [] sch.class = "slash" -> SlashRecords(body, sch.items)
                    [] sch.class = "tables" -> TableRecords(body, SizeFrom(deck, sch.szkw, sch.szitem), sch.items)
                    [] sch.class = "title" -> LET item == <<[st |-> "title", id |-> Head(body).id]>>
                                                  record == <<item>>
                                              IN <<<<record>>, Tail(body)>>
         IN Keywords(r[2], Append(deck, [name |-> name, recs |-> r[1]]))
Meaning(text) == Keywords(Stream(FlatLines(text, text[1])), <<>>)

(***************************************************************************)
(* The layout rewrites of the property statement.  `text` is the current   *)
(* text, `hist` the rewrites applied (for replay).                         *)
(***************************************************************************)
VARIABLES text, hist, base
vars == <<text, hist, base>>
Main == text[1]
SetMain(f) == text' = [text EXCEPT ![1] = f]
InsertAt(f, i, ln) == SubSeq(f, 1, i - 1) \o <<ln>> \o SubSeq(f, i, Len(f))
Last(s) == s[Len(s)]
IsKwLine(ln) == ln # <<>> /\ Head(ln).k = "kw"
IsTitleKw(ln) == IsKwLine(ln) /\ Head(ln).name = "TITLE"
HasKind(ln, k) == \E j \in 1..Len(ln) : ln[j].k = k
\* the keyword a line of the main file belongs to
RECURSIVE KwOf(_, _)
KwOf(f, i) == IF i = 0 THEN "" ELSE IF IsKwLine(f[i]) THEN Head(f[i]).name ELSE KwOf(f, i - 1)
RawKw(name) == name # "" /\ \E j \in 1..Len(Schema[name].items) : Schema[name].items[j].raw
Note(r) == hist' = Append(hist, r) /\ UNCHANGED base

\* a comment at the end of a line (not on the free text of a TITLE)
CommentEnd(i, id) == /\ ~HasKind(Main[i], "comment") /\ ~HasKind(Main[i], "title") /\ ~HasKind(Main[i], "include")
                     /\ SetMain([Main EXCEPT ![i] = Append(@, CM(id))]) /\ Note(<<"CommentEnd", i, id>>)
\* a comment line or a blank line before line i (the line after TITLE is the title)
NotAfterTitle(i) == IF i = 1 THEN TRUE ELSE ~IsTitleKw(Main[i - 1])
CommentLine(i, id) == NotAfterTitle(i) /\ SetMain(InsertAt(Main, i, <<CM(id)>>)) /\ Note(<<"CommentLine", i, id>>)
BlankLine(i) == NotAfterTitle(i) /\ SetMain(InsertAt(Main, i, <<>>)) /\ Note(<<"BlankLine", i>>)
\* the case of a keyword name
Recase(i, style) == /\ IsKwLine(Main[i]) /\ Head(Main[i]).style # style
                    /\ SetMain([Main EXCEPT ![i][1].style = style]) /\ Note(<<"Recase", i, style>>)
\* a line break between the items of a record: not in free text, and the continuation must not look like a keyword
BreakOk(x) == x.k = "slash" \/ (x.k = "tok" /\ (x.v.t \in {"int", "dbl", "star"} \/ (x.v.t = "str" /\ x.v.q)))
BreakLine(i, j) == /\ ~IsKwLine(Main[i]) /\ ~HasKind(Main[i], "title") /\ ~HasKind(Main[i], "include")
                   /\ ~RawKw(KwOf(Main, i))
                   /\ j >= 1 /\ j < Len(Main[i]) /\ BreakOk(Main[i][j + 1])
                   /\ Main[i][j].k = "tok"
                   /\ SetMain(SubSeq(Main, 1, i - 1) \o <<SubSeq(Main[i], 1, j), SubSeq(Main[i], j + 1, Len(Main[i]))>> \o SubSeq(Main, i + 1, Len(Main)))
                   /\ Note(<<"BreakLine", i, j>>)
\* text after the terminating slash; trailing texts with an even id contain a slash themselves, which in the
\* free text of a raw-string keyword (where a slash may be a division) would move the end of the record
TrailHasSlash(id) == id % 2 = 0
Trail(i, id) == /\ (RawKw(KwOf(Main, i)) => ~TrailHasSlash(id))
                /\ \E j \in 1..Len(Main[i]) : /\ Main[i][j].k = "slash" /\ (IF j = Len(Main[i]) THEN TRUE ELSE Main[i][j + 1].k = "comment")
                                               /\ SetMain([Main EXCEPT ![i] = SubSeq(@, 1, j) \o <<TR(id)>> \o SubSeq(@, j + 1, Len(@))])
                /\ Note(<<"Trail", i, id>>)
\* whole keywords i..j moved to an INCLUDE file
EndsKeyword(f, j) == IF j = Len(f) THEN TRUE ELSE IsKwLine(f[j + 1])
Include(i, j) == /\ Len(text) = 1 /\ i <= j /\ IsKwLine(Main[i]) /\ EndsKeyword(Main, j)
                 /\ text' = <<SubSeq(Main, 1, i - 1) \o <<<<INC(2)>>>> \o SubSeq(Main, j + 1, Len(Main)), SubSeq(Main, i, j)>>
                 /\ Note(<<"Include", i, j>>)
\* repeat counts: two equal neighbours become (or grow) a repeat; a repeat is written out
IsVal(x) == x.k = "tok" /\ x.v.t \in {"int", "dbl", "str"}
IsStar(x) == x.k = "tok" /\ x.v.t = "star"
CountOf(x) == IF IsStar(x) THEN x.v.n ELSE 1
ValueOf(x) == IF IsStar(x) THEN x.v.of ELSE x.v
Contract(i, j) == /\ ~RawKw(KwOf(Main, i)) /\ j >= 1 /\ j < Len(Main[i])
                  /\ (IsVal(Main[i][j]) \/ IsStar(Main[i][j])) /\ (IsVal(Main[i][j + 1]) \/ IsStar(Main[i][j + 1]))
                  /\ ValueOf(Main[i][j]) = ValueOf(Main[i][j + 1])
                  /\ SetMain([Main EXCEPT ![i] = SubSeq(@, 1, j - 1) \o <<V(StarT(CountOf(@[j]) + CountOf(@[j + 1]), ValueOf(@[j])))>> \o SubSeq(@, j + 2, Len(@))])
                  /\ Note(<<"Contract", i, j>>)
Expand(i, j) == /\ ~RawKw(KwOf(Main, i)) /\ j >= 1 /\ j <= Len(Main[i]) /\ IsStar(Main[i][j])
                /\ (Main[i][j].v.n > 1 \/ Main[i][j].v.of # NoneT)
                /\ LET t == Main[i][j].v
                       one == IF t.of = NoneT THEN V(StarT(1, NoneT)) ELSE V(t.of)
                   IN SetMain([Main EXCEPT ![i] = SubSeq(@, 1, j - 1) \o Copies(t.n, one) \o SubSeq(@, j + 1, Len(@))])
                /\ Note(<<"Expand", i, j>>)
\* ending a record early: trailing n* that cover single items only may be dropped, or written
WholeRecord(f, i) == /\ ~IsKwLine(f[i]) /\ HasKind(f[i], "slash") /\ i > 1
                     /\ (IF IsKwLine(f[i - 1]) THEN TRUE ELSE HasKind(f[i - 1], "slash"))
                     /\ KwOf(f, i) # "" /\ ~RawKw(KwOf(f, i)) /\ Schema[KwOf(f, i)].class # "title"
Toks(ln) == SelectSeq(ln, LAMBDA x : x.k = "tok")
RECURSIVE Width(_)
Width(toks) == IF toks = <<>> THEN 0 ELSE CountOf(Head(toks)) + Width(Tail(toks))
Singles(name) == Cardinality({j \in 1..Len(Schema[name].items) : ~Schema[name].items[j].all})
Truncate(i) == /\ WholeRecord(Main, i)
               /\ LET ts == Toks(Main[i]) IN
                  /\ ts # <<>> /\ IsStar(Last(ts)) /\ Last(ts).v.of = NoneT
                  /\ Width(ts) <= Singles(KwOf(Main, i))
                  /\ Len(ts) > 1             \* an empty record would end a slash-terminated keyword
                  /\ SetMain([Main EXCEPT ![i] = SubSeq(@, 1, Len(ts) - 1) \o SubSeq(@, Len(ts) + 1, Len(@))])
               /\ Note(<<"Truncate", i>>)
Pad(i) == /\ WholeRecord(Main, i)
          /\ LET ts == Toks(Main[i])  room == Singles(KwOf(Main, i)) - Width(ts) IN
             /\ ts # <<>> /\ room >= 1 /\ Main[i][Len(ts) + 1].k = "slash"
             /\ \E n \in {1, room} : SetMain([Main EXCEPT ![i] = SubSeq(@, 1, Len(ts)) \o <<V(StarT(n, NoneT))>> \o SubSeq(@, Len(ts) + 1, Len(@))])
          /\ Note(<<"Pad", i>>)

CONSTANTS BaseTexts, MaxRewrites, CommentIds, TrailIds
Init == \E b \in DOMAIN BaseTexts : text = <<BaseTexts[b]>> /\ hist = <<>> /\ base = b
Lines == 1..Len(Main)
Cols(i) == 1..Len(Main[i])
Next == /\ Len(hist) < MaxRewrites
        /\ \/ \E i \in Lines, id \in CommentIds : CommentEnd(i, id) \/ CommentLine(i, id)
           \/ \E i \in Lines : BlankLine(i) \/ Truncate(i) \/ Pad(i)
           \/ \E i \in Lines, s \in {"upper", "lower", "mixed"} : Recase(i, s)
           \/ \E i \in Lines : \E j \in Cols(i) : BreakLine(i, j) \/ Contract(i, j) \/ Expand(i, j)
           \/ \E i \in Lines, id \in TrailIds : Trail(i, id)
           \/ \E i \in Lines, j \in Lines : Include(i, j)
Spec == Init /\ [][Next]_vars

(***************************************************************************)
(* Writing a deck as text (C19): one line per record, a defaulted entry as *)
(* 1*, slash-terminated keywords closed by a lone slash.                   *)
(***************************************************************************)
EntryLex(e) == IF e.st = "def" THEN V(StarT(1, NoneT)) ELSE V(e.tok)
RECURSIVE ItemLex(_)
ItemLex(item) == IF item = <<>> THEN <<>> ELSE <<EntryLex(Head(item))>> \o ItemLex(Tail(item))
RECURSIVE RecordToks(_)
RecordToks(rec) == IF rec = <<>> THEN <<>> ELSE ItemLex(Head(rec)) \o RecordToks(Tail(rec))
IsDefaultLex(x) == x.k = "tok" /\ x.v.t = "star" /\ x.v.of = NoneT
RECURSIVE StripTrailingDefaults(_)
StripTrailingDefaults(toks) == IF toks # <<>> /\ IsDefaultLex(toks[Len(toks)]) THEN StripTrailingDefaults(SubSeq(toks, 1, Len(toks) - 1)) ELSE toks
\* trailing defaulted single-valued items are implied by the end of the record and not written; the trailing
\* defaults of a multi-valued last item are part of its size and are written
RecordLex(rec) == LET toks == RecordToks(rec) IN
                  (IF rec # <<>> /\ Len(rec[Len(rec)]) > 1 THEN toks ELSE StripTrailingDefaults(toks)) \o <<SL>>
RECURSIVE RecordLines(_)
RecordLines(recs) == IF recs = <<>> THEN <<>> ELSE <<RecordLex(Head(recs))>> \o RecordLines(Tail(recs))
KeywordLines(kw) ==
    LET cls == Schema[kw.name].class IN
    <<<<KW(kw.name, "upper")>>>> \o
    (IF cls = "title" THEN <<<<TTL(kw.recs[1][1][1].id)>>>>
     ELSE RecordLines(kw.recs) \o (IF cls \in {"slash", "tables"} THEN <<<<SL>>>> ELSE <<>>))
RECURSIVE PrintDeck(_)
PrintDeck(deck) == IF deck = <<>> THEN <<>> ELSE KeywordLines(Head(deck)) \o PrintDeck(Tail(deck))
\* print . parse is the identity on decks, and print(parse(print(d))) = print(d)
PrintParse == LET d == Meaning(text)  t == PrintDeck(d) IN
              /\ Meaning(<<t>>) = d
              /\ PrintDeck(Meaning(<<t>>)) = t

\* the rule set is meaning-preserving
SameMeaning == Meaning(text) = Meaning(<<BaseTexts[base]>>)
=============================================================================
