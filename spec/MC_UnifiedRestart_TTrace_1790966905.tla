---- MODULE MC_UnifiedRestart_TTrace_1790966905 ----
EXTENDS Sequences, TLCExt, MC_UnifiedRestart, Toolbox, Naturals, TLC

_expression ==
    LET MC_UnifiedRestart_TEExpression == INSTANCE MC_UnifiedRestart_TEExpression
    IN MC_UnifiedRestart_TEExpression!expression
----

_trace ==
    LET MC_UnifiedRestart_TETrace == INSTANCE MC_UnifiedRestart_TETrace
    IN MC_UnifiedRestart_TETrace!trace
----

_inv ==
    ~(
        TLCGet("level") = Len(_TETrace)
        /\
        cur = (0)
        /\
        pre = (<<[t |-> "INTE", w |-> 0, n |-> 1, name |-> "SEQNUM", wid |-> 1, step |-> 0]>>)
        /\
        wid = (2)
        /\
        exists = (TRUE)
        /\
        fmt = (TRUE)
        /\
        open = (FALSE)
        /\
        arrs = (<<[t |-> "JUNK", w |-> 0, n |-> 1, name |-> "", wid |-> 0, step |-> -1], [t |-> "INTE", w |-> 0, n |-> 1, name |-> "SEQNUM", wid |-> 2, step |-> 0]>>)
    )
----

_init ==
    /\ fmt = _TETrace[1].fmt
    /\ cur = _TETrace[1].cur
    /\ exists = _TETrace[1].exists
    /\ wid = _TETrace[1].wid
    /\ open = _TETrace[1].open
    /\ pre = _TETrace[1].pre
    /\ arrs = _TETrace[1].arrs
----

_next ==
    /\ \E i,j \in DOMAIN _TETrace:
        /\ \/ /\ j = i + 1
              /\ i = TLCGet("level")
        /\ fmt  = _TETrace[i].fmt
        /\ fmt' = _TETrace[j].fmt
        /\ cur  = _TETrace[i].cur
        /\ cur' = _TETrace[j].cur
        /\ exists  = _TETrace[i].exists
        /\ exists' = _TETrace[j].exists
        /\ wid  = _TETrace[i].wid
        /\ wid' = _TETrace[j].wid
        /\ open  = _TETrace[i].open
        /\ open' = _TETrace[j].open
        /\ pre  = _TETrace[i].pre
        /\ pre' = _TETrace[j].pre
        /\ arrs  = _TETrace[i].arrs
        /\ arrs' = _TETrace[j].arrs

\* Uncomment the ASSUME below to write the states of the error trace
\* to the given file in Json format. Note that you can pass any tuple
\* to `JsonSerialize`. For example, a sub-sequence of _TETrace.
    \* ASSUME
    \*     LET J == INSTANCE Json
    \*         IN J!JsonSerialize("MC_UnifiedRestart_TTrace_1790966905.json", _TETrace)

=============================================================================

 Note that you can extract this module `MC_UnifiedRestart_TEExpression`
  to a dedicated file to reuse `expression` (the module in the 
  dedicated `MC_UnifiedRestart_TEExpression.tla` file takes precedence 
  over the module `MC_UnifiedRestart_TEExpression` below).

---- MODULE MC_UnifiedRestart_TEExpression ----
EXTENDS Sequences, TLCExt, MC_UnifiedRestart, Toolbox, Naturals, TLC

expression == 
    [
        \* To hide variables of the `MC_UnifiedRestart` spec from the error trace,
        \* remove the variables below.  The trace will be written in the order
        \* of the fields of this record.
        fmt |-> fmt
        ,cur |-> cur
        ,exists |-> exists
        ,wid |-> wid
        ,open |-> open
        ,pre |-> pre
        ,arrs |-> arrs
        
        \* Put additional constant-, state-, and action-level expressions here:
        \* ,_stateNumber |-> _TEPosition
        \* ,_fmtUnchanged |-> fmt = fmt'
        
        \* Format the `fmt` variable as Json value.
        \* ,_fmtJson |->
        \*     LET J == INSTANCE Json
        \*     IN J!ToJson(fmt)
        
        \* Lastly, you may build expressions over arbitrary sets of states by
        \* leveraging the _TETrace operator.  For example, this is how to
        \* count the number of times a spec variable changed up to the current
        \* state in the trace.
        \* ,_fmtModCount |->
        \*     LET F[s \in DOMAIN _TETrace] ==
        \*         IF s = 1 THEN 0
        \*         ELSE IF _TETrace[s].fmt # _TETrace[s-1].fmt
        \*             THEN 1 + F[s-1] ELSE F[s-1]
        \*     IN F[_TEPosition - 1]
    ]

=============================================================================



Parsing and semantic processing can take forever if the trace below is long.
 In this case, it is advised to uncomment the module below to deserialize the
 trace from a generated binary file.

\*
\*---- MODULE MC_UnifiedRestart_TETrace ----
\*EXTENDS IOUtils, MC_UnifiedRestart, TLC
\*
\*trace == IODeserialize("MC_UnifiedRestart_TTrace_1790966905.bin", TRUE)
\*
\*=============================================================================
\*

---- MODULE MC_UnifiedRestart_TETrace ----
EXTENDS MC_UnifiedRestart, TLC

trace == 
    <<
    ([cur |-> -1,pre |-> <<>>,wid |-> 0,exists |-> FALSE,fmt |-> TRUE,open |-> FALSE,arrs |-> <<>>]),
    ([cur |-> 0,pre |-> <<>>,wid |-> 1,exists |-> TRUE,fmt |-> TRUE,open |-> FALSE,arrs |-> <<[t |-> "INTE", w |-> 0, n |-> 1, name |-> "SEQNUM", wid |-> 1, step |-> 0]>>]),
    ([cur |-> 0,pre |-> <<[t |-> "INTE", w |-> 0, n |-> 1, name |-> "SEQNUM", wid |-> 1, step |-> 0]>>,wid |-> 2,exists |-> TRUE,fmt |-> TRUE,open |-> FALSE,arrs |-> <<[t |-> "JUNK", w |-> 0, n |-> 1, name |-> "", wid |-> 0, step |-> -1], [t |-> "INTE", w |-> 0, n |-> 1, name |-> "SEQNUM", wid |-> 2, step |-> 0]>>])
    >>
----


=============================================================================

---- CONFIG MC_UnifiedRestart_TTrace_1790966905 ----
CONSTANTS
    MaxStep = 3
    Payloads <- PayloadSet
    MaxWrites = 4
    MaxArrs = 99
    SeekBackF = 30
    SeekBackU = 24

INVARIANT
    _inv

CHECK_DEADLOCK
    \* CHECK_DEADLOCK off because of PROPERTY or INVARIANT above.
    FALSE

INIT
    _init

NEXT
    _next

CONSTANT
    _TETrace <- _trace

ALIAS
    _expression
=============================================================================
\* Generated on Fri Oct 02 18:48:27 UTC 2026