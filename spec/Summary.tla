------------------------------ MODULE Summary ------------------------------
(***************************************************************************)
(* Well, group and field summary vectors as a state machine (property C09).*)
(*                                                                         *)
(* A model is a group tree (parent of every group, root FIELD), wells with *)
(* their group, and a history of evaluations.  Each evaluation covers a    *)
(* time step of dt time units (days; hours in LAB units) and brings, per well, the simulator's signed       *)
(* surface and reservoir rates (negative = produced, positive = injected), *)
(* whether the simulator reports the well shut (or not at all), the rates  *)
(* observed in the schedule (WCONHIST / WCONINJH) and the efficiency       *)
(* factors of wells and groups in force.                                   *)
(*                                                                         *)
(* Rates at a node are the sum over the flowing wells below it, each       *)
(* weighted by the efficiency factors between the well and the node: a     *)
(* well's own rate is unweighted, a group's rate carries the factors of    *)
(* the wells and groups strictly below it, the field's rate carries all.   *)
(* Totals advance by dt times the rate weighted with ALL the factors on    *)
(* the path from the well to the field.  Production and injection are      *)
(* split by the sign of each phase rate.  Efficiency factors are multiples *)
(* of 1/4 here, so every value is an integer over a fixed denominator.     *)
(***************************************************************************)
EXTENDS Integers, Sequences, FiniteSets, TLC

MaxD == 5                       \* at most MaxD factors between a well and the field (well + 4 groups)
Den == 1024                     \* 4^MaxD
RECURSIVE Pow4(_)
Pow4(n) == IF n = 0 THEN 1 ELSE 4 * Pow4(n - 1)

\* ---- model: [parent : group -> group or "FIELD", wells : well -> [group, kind]]
RECURSIVE PathOf(_, _)
PathOf(m, g) == IF g = "FIELD" THEN <<>> ELSE <<g>> \o PathOf(m, m.parent[g])
WellPath(m, w) == PathOf(m, m.wells[w].group)            \* groups from the well's own up to (excluding) FIELD
Groups(m) == DOMAIN m.parent
WellsOf(m) == DOMAIN m.wells
InSeq(x, s) == \E i \in 1..Len(s) : s[i] = x
Below(m, node) == IF node = "FIELD" THEN WellsOf(m)
                  ELSE IF node \in WellsOf(m) THEN {node}
                  ELSE {w \in WellsOf(m) : InSeq(node, WellPath(m, w))}

\* ---- one evaluation: e = [dt, wefac : well -> 1..4, gefac : group -> 1..4, raw, hist, shut : well -> BOOLEAN]
\* numerator (over Den) of the weight of well w seen from node; total = all factors up to the field
RECURSIVE GroupFactors(_, _, _, _)
GroupFactors(e, path, node, total) ==      \* <<product, number of factors>>
    IF path = <<>> THEN <<1, 0>>
    ELSE IF ~total /\ Head(path) = node THEN <<1, 0>>
    ELSE LET r == GroupFactors(e, Tail(path), node, total) IN <<e.gefac[Head(path)] * r[1], r[2] + 1>>
Weight(m, e, w, node, total) ==
    IF node = w /\ ~total THEN Den
    ELSE LET g == GroupFactors(e, WellPath(m, w), node, total \/ node = "FIELD" \/ node = w)
         IN e.wefac[w] * g[1] * Pow4(MaxD - 1 - g[2])
Flowing(e, w) == ~e.shut[w]
Pos(x) == IF x > 0 THEN x ELSE 0
\* what one flowing well contributes to a base quantity
Contrib(e, w, q) ==
    LET r == e.raw[w]  h == e.hist[w] IN
    CASE q = "OP" -> Pos(-r.o) [] q = "WP" -> Pos(-r.w) [] q = "GP" -> Pos(-r.g)
      [] q = "VP" -> Pos(-r.ro) + Pos(-r.rw) + Pos(-r.rg)
      [] q = "OI" -> Pos(r.o) [] q = "WI" -> Pos(r.w) [] q = "GI" -> Pos(r.g)
      [] q = "VI" -> Pos(r.ro) + Pos(r.rw) + Pos(r.rg)
      [] q = "OPH" -> h.o [] q = "WPH" -> h.w [] q = "GPH" -> h.g
      [] q = "WIH" -> h.wi [] q = "GIH" -> h.gi
RECURSIVE SumFun(_, _)
SumFun(f, S) == IF S = {} THEN 0 ELSE LET x == CHOOSE y \in S : TRUE IN f[x] + SumFun(f, S \ {x})
\* numerator over Den of base quantity q at node
Base(m, e, node, q, total) ==
    LET ws == {w \in Below(m, node) : Flowing(e, w)}
        f == [w \in ws |-> Contrib(e, w, q) * Weight(m, e, w, node, total)]
    IN SumFun(f, ws)

BaseQ == {"OP", "WP", "GP", "VP", "OI", "WI", "GI", "VI", "OPH", "WPH", "GPH", "WIH", "GIH"}
\* vector mnemonic (without the W/G/F prefix) of the rate and of the total of a base quantity
RateName(q) == CASE q = "OP" -> "OPR" [] q = "WP" -> "WPR" [] q = "GP" -> "GPR" [] q = "VP" -> "VPR"
                 [] q = "OI" -> "OIR" [] q = "WI" -> "WIR" [] q = "GI" -> "GIR" [] q = "VI" -> "VIR"
                 [] q = "OPH" -> "OPRH" [] q = "WPH" -> "WPRH" [] q = "GPH" -> "GPRH" [] q = "WIH" -> "WIRH" [] q = "GIH" -> "GIRH"
TotalName(q) == CASE q = "OP" -> "OPT" [] q = "WP" -> "WPT" [] q = "GP" -> "GPT" [] q = "VP" -> "VPT"
                  [] q = "OI" -> "OIT" [] q = "WI" -> "WIT" [] q = "GI" -> "GIT" [] q = "VI" -> "VIT"
                  [] q = "OPH" -> "OPTH" [] q = "WPH" -> "WPTH" [] q = "GPH" -> "GPTH" [] q = "WIH" -> "WITH" [] q = "GIH" -> "GITH"
Nodes(m) == WellsOf(m) \cup Groups(m) \cup {"FIELD"}
Prefix(m, node) == IF node = "FIELD" THEN "F" ELSE IF node \in WellsOf(m) THEN "W" ELSE "G"
Key(m, node, name) == IF node = "FIELD" THEN "F" \o name ELSE Prefix(m, node) \o name \o ":" \o node

Ratio(a, b) == IF b = 0 THEN [n |-> 0, d |-> 1] ELSE [n |-> a, d |-> b]
Over(a) == [n |-> a, d |-> Den]

\* ---- calendar: civil date of a day number counted from 1970-01-01 (proleptic Gregorian)
DaysFromCivil(y0, mth, dd) ==
    LET y == IF mth <= 2 THEN y0 - 1 ELSE y0
        era == y \div 400
        yoe == y - era * 400
        mp == IF mth > 2 THEN mth - 3 ELSE mth + 9
        doy == (153 * mp + 2) \div 5 + dd - 1
        doe == yoe * 365 + yoe \div 4 - yoe \div 100 + doy
    IN era * 146097 + doe - 719468
CivilFromDays(z0) ==
    LET z == z0 + 719468
        era == z \div 146097
        doe == z - era * 146097
        yoe == (doe - doe \div 1460 + doe \div 36524 - doe \div 146096) \div 365
        y == yoe + era * 400
        doy == doe - (365 * yoe + yoe \div 4 - yoe \div 100)
        mp == (5 * doy + 2) \div 153
        dd == doy - (153 * mp + 2) \div 5 + 1
        mth == IF mp < 10 THEN mp + 3 ELSE mp - 9
    IN [year |-> IF mth <= 2 THEN y + 1 ELSE y, month |-> mth, day |-> dd]

(***************************************************************************)
(* State: the running totals, the elapsed days, and the vector values of   *)
(* the last evaluation.                                                    *)
(***************************************************************************)
VARIABLES cum,       \* [node, base quantity] -> numerator over Den
          days,      \* elapsed time in days
          out        \* vector key -> [n, d]
svars == <<cum, days, out>>

ZeroCum(m) == [x \in Nodes(m) \X BaseQ |-> 0]
SInit(m) == cum = ZeroCum(m) /\ days = 0 /\ out = <<>>

NewCum(m, e) == [x \in Nodes(m) \X BaseQ |-> cum[x] + e.dt * Base(m, e, x[1], x[2], TRUE)]
\* every vector of a node after the evaluation
NodeVectors(m, e, c, node) ==
    LET R(q) == Base(m, e, node, q, FALSE)
        T(q) == c[<<node, q>>]
        named ==
          [q \in BaseQ |-> <<Key(m, node, RateName(q)), Over(R(q))>>]
        pairs ==
          {named[q] : q \in BaseQ}
          \cup {<<Key(m, node, TotalName(q)), Over(T(q))>> : q \in BaseQ}
          \cup { <<Key(m, node, "LPR"), Over(R("OP") + R("WP"))>>,
                 <<Key(m, node, "LPT"), Over(T("OP") + T("WP"))>>,
                 <<Key(m, node, "LPRH"), Over(R("OPH") + R("WPH"))>>,
                 <<Key(m, node, "LPTH"), Over(T("OPH") + T("WPH"))>>,
                 <<Key(m, node, "WCT"), Ratio(R("WP"), R("WP") + R("OP"))>>,
                 <<Key(m, node, "GOR"), Ratio(R("GP"), R("OP"))>>,
                 <<Key(m, node, "GLR"), Ratio(R("GP"), R("WP") + R("OP"))>>,
                 <<Key(m, node, "WCTH"), Ratio(R("WPH"), R("WPH") + R("OPH"))>>,
                 <<Key(m, node, "GORH"), Ratio(R("GPH"), R("OPH"))>> }
    IN pairs
TimeVectors(m, d) ==
    \* d counts the deck's time units (m.perday of them in a day: 1, or 24 in LAB units)
    LET c == CivilFromDays(DaysFromCivil(m.start.year, m.start.month, m.start.day) + d \div m.perday) IN
    { <<"TIME", [n |-> d, d |-> 1]>>, <<"YEARS", [n |-> 4 * d, d |-> 1461 * m.perday]>>,
      <<"DAY", [n |-> c.day, d |-> 1]>>, <<"MONTH", [n |-> c.month, d |-> 1]>>, <<"YEAR", [n |-> c.year, d |-> 1]>> }
AllVectors(m, e, c, d) ==
    LET ps == UNION {NodeVectors(m, e, c, node) : node \in Nodes(m)} \cup TimeVectors(m, d)
    IN [k \in {p[1] : p \in ps} |-> (CHOOSE p \in ps : p[1] = k)[2]]

Eval(m, e) == /\ cum' = NewCum(m, e)
              /\ days' = days + e.dt
              /\ out' = AllVectors(m, e, NewCum(m, e), days + e.dt)
=============================================================================
