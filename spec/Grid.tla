-------------------------------- MODULE Grid --------------------------------
(***************************************************************************)
(* Grid indexing and geometry (property C13) as a state machine: a grid    *)
(* object with dimensions, integer cell sizes, a top depth and an activity *)
(* mask that can be replaced (resetACTNUM), saved to an EGRID file and      *)
(* loaded back.  The model knows the geometry in closed form:              *)
(*   - cell (i,j,k) has extents dx[i], dy[j], dz[k]; volume dx*dy*dz in    *)
(*     every input form (per-cell arrays, DXV/DYV/DZV, COORD/ZCORN), also  *)
(*     when the pillars are sheared and columns are shifted by faults      *)
(*     (both maps preserve volume);                                        *)
(*   - 2 * depth of the cell centre = 2*tops + shift(i,j) * 2 + ...        *)
(*   - (i,j,k) <-> global <-> active index maps derived from the mask.     *)
(* Every observation of the real EclipseGrid is an event checked against   *)
(* these values.                                                           *)
(***************************************************************************)
EXTENDS Integers, Sequences, FiniteSets, TLC

VARIABLES nx, ny, nz,      \* dimensions
          dx, dy, dz,      \* cell extents per index (sequences of positive integers)
          tops,            \* depth of the top of layer 1 (integer)
          shift,           \* per column (i + nx*(j-1)) vertical fault shift (integer)
          actnum,          \* activity mask over global cells 1..nx*ny*nz
          wp,              \* corner-point wedges: thickness weight of the pillar rows i = 1..nx+1 in halves (2 = the plain
                           \* layer thickness dz, 0 = the layers pinch out on that pillar row); all 2 for the other input forms
          exists
gvars == <<nx, ny, nz, dx, dy, dz, tops, shift, actnum, wp, exists>>

NC == nx * ny * nz
\* global cell number (1-based) and back
G(i, j, k) == i + nx * (j - 1) + nx * ny * (k - 1)
Iof(g) == ((g - 1) % nx) + 1
Jof(g) == (((g - 1) \div nx) % ny) + 1
Kof(g) == ((g - 1) \div (nx * ny)) + 1
Col(g) == Iof(g) + nx * (Jof(g) - 1)
RECURSIVE SumTo(_, _)
SumTo(s, n) == IF n = 0 THEN 0 ELSE s[n] + SumTo(s, n - 1)
\* active cells in natural order
ActiveSeq == SelectSeq([g \in 1..NC |-> g], LAMBDA g : actnum[g] # 0)
NumActive == Len(ActiveSeq)
\* 0-based indices as the API reports them
GlobalOfActive == [a \in 1..NumActive |-> ActiveSeq[a] - 1]
ActiveOfGlobal == [g \in 1..NC |-> IF actnum[g] = 0 THEN -1
                                   ELSE Cardinality({h \in 1..g : actnum[h] # 0}) - 1]
\* a cell between pillar rows i and i+1 has planar faces; its mean thickness is dz * W / 4
W(g) == wp[Iof(g)] + wp[Iof(g) + 1]
\* four times the volume, eight times the depth of the cell centre, four times the extents
Volume4(g) == dx[Iof(g)] * dy[Jof(g)] * dz[Kof(g)] * W(g)
Depth8(g) == 8 * (tops + shift[Col(g)]) + (2 * SumTo(dz, Kof(g) - 1) + dz[Kof(g)]) * W(g)
Dims4(g) == <<4 * dx[Iof(g)], 4 * dy[Jof(g)], dz[Kof(g)] * W(g)>>
Plain == \A i \in DOMAIN wp : wp[i] = 2

GInit == /\ exists = FALSE /\ nx = 0 /\ ny = 0 /\ nz = 0 /\ dx = <<>> /\ dy = <<>> /\ dz = <<>>
         /\ tops = 0 /\ shift = <<>> /\ actnum = <<>> /\ wp = <<>>
Create(a, b, c, x, y, z, t, sh, act, w) ==
    /\ nx' = a /\ ny' = b /\ nz' = c /\ dx' = x /\ dy' = y /\ dz' = z /\ tops' = t /\ shift' = sh
    /\ actnum' = act /\ wp' = w /\ exists' = TRUE
ResetActnum(act) == exists /\ actnum' = act /\ UNCHANGED <<nx, ny, nz, dx, dy, dz, tops, shift, wp, exists>>
ResetAllActive == exists /\ actnum' = [g \in 1..NC |-> 1] /\ UNCHANGED <<nx, ny, nz, dx, dy, dz, tops, shift, wp, exists>>
\* saving and loading an EGRID file, copying the grid: the abstract grid is unchanged
SaveLoad == exists /\ UNCHANGED gvars

\* ---- laws (checked on the bounded model MC_Grid and on every trace state)
IndexBijection == exists =>
    /\ \A a \in 1..NumActive : ActiveOfGlobal[GlobalOfActive[a] + 1] = a - 1
    /\ \A g \in 1..NC : (actnum[g] # 0) => GlobalOfActive[ActiveOfGlobal[g] + 1] = g - 1
    /\ \A g \in 1..NC : G(Iof(g), Jof(g), Kof(g)) = g
    /\ NumActive = Cardinality({g \in 1..NC : actnum[g] # 0})
PositiveVolumes == exists => \A g \in 1..NC : Volume4(g) > 0
\* additivity under subdivision: the volumes of the cells of a column segment add up
Additive == exists => \A i \in 1..nx, j \in 1..ny :
               SumTo([k \in 1..nz |-> Volume4(G(i, j, k))], nz) = dx[i] * dy[j] * SumTo(dz, nz) * (wp[i] + wp[i + 1])
=============================================================================
