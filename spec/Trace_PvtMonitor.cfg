SPECIFICATION TraceSpec
CONSTANTS
 MaxNodes = 4
 MaxRegions = 2
POSTCONDITION TraceAccepted
CHECK_DEADLOCK FALSE
