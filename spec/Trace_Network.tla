---------------------------- MODULE Trace_Network ----------------------------
(* Trace validation of the real network keyword handlers / ExtNetwork against Network. *)
EXTENDS Network, Json, IOUtils
TraceLog == ndJsonDeserialize(IOEnv.TRACE)
VARIABLE l
tvars == <<vars, l>>
Ev == TraceLog[l]
IsEvent(e) == l <= Len(TraceLog) /\ TraceLog[l].e = e /\ l' = l + 1
TInit == l = 1 /\ Init
TReset == /\ IsEvent("Reset") /\ branches' = <<>> /\ nodes' = [n \in {} |-> 0] /\ order' = <<>> /\ standard' = FALSE /\ lastRes' = "ok" /\ UNCHANGED nops
          /\ netKw' = Ev.netkw /\ seenBran' = FALSE /\ seenGrup' = FALSE
Act == LET o == Ev.op IN
       CASE o.kw = "BRANPROP" -> Branprop(o.down, o.up, o.vfp)
         [] o.kw = "NODEPROP" -> Nodeprop(o.name, o.p, o.lift)
         [] o.kw = "GRUPNET" -> Grupnet(o.name, o.p, o.vfp, o.lift)
ObsOk == LET x == Ev.obs IN
         /\ Len(x.branches) = Len(branches')
         /\ \A i \in DOMAIN x.branches : x.branches[i] = <<branches'[i].down, branches'[i].up, branches'[i].vfp>>
         /\ {<<r[1], r[2], r[3]>> : r \in SeqRange(x.nodes)} = {<<n, nodes'[n].p, nodes'[n].lift>> : n \in DOMAIN nodes'}
         /\ x.order = order'
         /\ x.active = (branches' # <<>> /\ DOMAIN nodes' # {})
         /\ x.standard = standard'
         /\ LET idx == {j \in DOMAIN branches' : nodes'[branches'[j].up].p # None}
            IN /\ Len(x.roots) = Cardinality(idx)
               /\ \A r \in SeqRange(x.roots) : \E j \in idx : branches'[j].up = r
               /\ \A j \in idx : branches'[j].up \in SeqRange(x.roots)
TOp == /\ IsEvent("Op") /\ Act /\ Ev.res = lastRes'
       /\ (Ev.res = "ok" => ObsOk)
       /\ UNCHANGED <<nops, netKw>>
TDiag == /\ l <= Len(TraceLog) /\ Ev.e = "Op" /\ ~ENABLED TOp
         /\ PrintT(<<"DIAG", l, [before |-> [branches |-> branches, nodes |-> nodes, order |-> order, standard |-> standard, netKw |-> netKw, seenBran |-> seenBran, seenGrup |-> seenGrup]]>>)
         /\ FALSE /\ UNCHANGED tvars
TNext == TReset \/ TOp \/ TDiag
TraceSpec == TInit /\ [][TNext]_tvars
TraceAccepted == TLCGet("stats").diameter - 1 = Len(TraceLog)
=============================================================================
