SPECIFICATION TraceSpec
CONSTANTS
  Wells = {"P1", "P2", "P3"}
  Names = {"*L1", "*L2", "*L3"}
  MaxOps = 100000
POSTCONDITION TraceAccepted
CHECK_DEADLOCK FALSE
