SPECIFICATION SpecCoarse
CONSTANTS
  MaxStep = 1
  Payloads <- PayloadSet
  MaxWrites = 2
  MaxArrs = 99
  SeekBackF = 31
  SeekBackU = 24
CONSTRAINT BoundCoarse
INVARIANTS NeverWrong
