SPECIFICATION Spec
CONSTANTS
  MaxSeg = 5
  MaxRecs = 3
  MaxComps = 1
  MinRecs = 1
  NCells = 1
  Dzs <- MCDzs
  Areas <- MCAreas
  Vols <- MCVols
  Starts <- DStarts
  Widths <- DWidths
  Dls <- DDls
INVARIANTS BuiltValid AbsSame Monotone CompsOk
CHECK_DEADLOCK FALSE
