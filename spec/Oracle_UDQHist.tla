--------------------------- MODULE Oracle_UDQHist ---------------------------
(***************************************************************************)
(* Reference meaning of a history of UDQ ASSIGN / DEFINE / UPDATE records  *)
(* over report steps (C17, last clause): at every report step the          *)
(* quantities are evaluated in input order of first appearance; an ASSIGN  *)
(* gives the quantity the assigned value from that step on, a DEFINE makes *)
(* it the value of its expression at every later step, UPDATE OFF freezes  *)
(* it, UPDATE NEXT evaluates it once more, UPDATE ON resumes; a reference  *)
(* to another UDQ sees that quantity's current value.                      *)
(* TLC computes, for every script in IOEnv.CASES, the values of all        *)
(* quantities after every report step; harness/udqhist compares the real   *)
(* Schedule / UDQConfig::eval / UDQState with them.                        *)
(*                                                                         *)
(* script: [id, steps : seq of [recs : seq of record, ctx : context]]      *)
(* record: <<"ASSIGN", name, sel, int>>  sel = "" (all) or a well name     *)
(*         <<"DEFINE", name, tokens>>    <<"UPDATE", name, "ON"/"OFF"/"NEXT">> *)
(***************************************************************************)
EXTENDS UDQEval, Json, IOUtils
CaseLog == ndJsonDeserialize(IOEnv.CASES)
VARIABLE i
OWells == <<"P1", "P2", "P3", "I1">>
OGroups == <<"G1", "G2">>
ONum == [x \in {"0", "1", "2", "3", "4", "5", "6", "10"} |->
           CASE x = "0" -> 0 [] x = "1" -> 1 [] x = "2" -> 2 [] x = "3" -> 3 [] x = "4" -> 4 [] x = "5" -> 5
             [] x = "6" -> 6 [] x = "10" -> 10]
OPat == [x \in {"'P*'", "'*'", "'I*'"} |-> CASE x = "'P*'" -> {"P1", "P2", "P3"} [] x = "'*'" -> {"P1", "P2", "P3", "I1"} [] x = "'I*'" -> {"I1"}]

KindOf(name) == IF name \in {"FU1", "FU2", "FU3"} THEN "s" ELSE IF name \in {"WU1", "WU2", "WU3"} THEN "w" ELSE "g"
Members(k) == IF k = "w" THEN ToSetS(Wells) ELSE ToSetS(Groups)
UndefVal(k) == IF k = "s" THEN Scalar(Undef) ELSE [k |-> k, v |-> [m \in Members(k) |-> Undef]]
\* state of the fold: order of first appearance, per-name action / tokens / status / assign records, values
S0 == [order |-> <<>>, action |-> <<>>, toks |-> <<>>, status |-> <<>>, asg |-> <<>>, vals |-> <<>>, pending |-> {}]
Put(f, k, v) == [x \in DOMAIN f \cup {k} |-> IF x = k THEN v ELSE f[x]]
Known(s, n) == n \in DOMAIN s.action
Touch(s, n) == IF Known(s, n) THEN s ELSE [s EXCEPT !.order = Append(s.order, n), !.vals = Put(s.vals, n, UndefVal(KindOf(n))),
                                                   !.asg = Put(s.asg, n, <<>>)]
ApplyRec(s0, r) ==
    LET n == r[2]  s == Touch(s0, n) IN
    IF r[1] = "ASSIGN"
    THEN [s EXCEPT !.action = Put(s.action, n, "ASSIGN"), !.asg = Put(s.asg, n, Append(s.asg[n], <<r[3], r[4]>>)),
                   !.pending = s.pending \cup {n}]
    ELSE IF r[1] = "DEFINE"
    THEN [s EXCEPT !.action = Put(s.action, n, "DEFINE"), !.toks = Put(s.toks, n, r[3]), !.status = Put(s.status, n, "ON")]
    ELSE [s EXCEPT !.status = Put(s.status, n, r[3])]
RECURSIVE ApplyRecs(_, _)
ApplyRecs(s, rs) == IF rs = <<>> THEN s ELSE ApplyRecs(ApplyRec(s, Head(rs)), Tail(rs))
\* value of all ASSIGN records of a quantity, applied in order
RECURSIVE AsgVal(_, _, _)
AsgVal(k, recs, acc) ==
    IF recs = <<>> THEN acc
    ELSE LET sel == Head(recs)[1]  v == Q(Head(recs)[2]) IN
         AsgVal(k, Tail(recs),
                IF k = "s" THEN Scalar(v)
                ELSE [k |-> k, v |-> [m \in DOMAIN acc.v |-> IF sel = "" \/ sel = m THEN v ELSE acc.v[m]]])
\* evaluation context: summary quantities of the step plus current UDQ values
Ctx(ctx, vals) ==
    [f |-> [q \in DOMAIN ctx.f \cup {n \in DOMAIN vals : KindOf(n) = "s"} |-> IF q \in DOMAIN ctx.f THEN ctx.f[q] ELSE vals[q].v],
     w |-> [q \in DOMAIN ctx.w \cup {n \in DOMAIN vals : KindOf(n) = "w"} |-> IF q \in DOMAIN ctx.w THEN ctx.w[q] ELSE vals[q].v],
     g |-> [q \in DOMAIN ctx.g \cup {n \in DOMAIN vals : KindOf(n) = "g"} |-> IF q \in DOMAIN ctx.g THEN ctx.g[q] ELSE vals[q].v]]
RECURSIVE EvalAssigns(_, _)
EvalAssigns(s, P) == IF P = {} THEN s
                     ELSE LET n == CHOOSE n \in P : TRUE IN
                          EvalAssigns([s EXCEPT !.vals = Put(s.vals, n, AsgVal(KindOf(n), s.asg[n], UndefVal(KindOf(n))))], P \ {n})
RECURSIVE EvalDefines(_, _, _)
EvalDefines(s, ctx, k) ==
    IF k > Len(s.order) THEN s
    ELSE LET n == s.order[k] IN
         IF s.action[n] = "DEFINE" /\ s.status[n] \in {"ON", "NEXT"}
         THEN EvalDefines([s EXCEPT !.vals = Put(s.vals, n, Define(KindOf(n), Ctx(ctx, s.vals), s.toks[n])),
                                    !.status = Put(s.status, n, IF s.status[n] = "NEXT" THEN "OFF" ELSE "ON")], ctx, k + 1)
         ELSE EvalDefines(s, ctx, k + 1)
StepEval(s, st) == LET a == ApplyRecs(s, st.recs)
                       \* every ASSIGN entered at this step takes effect before the definitions are
                       \* evaluated, also when a DEFINE of the same quantity follows in the same step
                       b == EvalAssigns(a, a.pending)
                   IN [EvalDefines(b, st.ctx, 1) EXCEPT !.pending = {}]
RECURSIVE Run(_, _, _)
Run(s, steps, out) == IF steps = <<>> THEN out
                      ELSE LET s2 == StepEval(s, Head(steps)) IN Run(s2, Tail(steps), Append(out, s2.vals))
ShowV(x) == IF x.k = "s" THEN [k |-> "s", v |-> [s |-> x.v]] ELSE x
ShowVals(vs) == [n \in DOMAIN vs |-> ShowV(vs[n])]
Init == i = 1
Next == /\ i <= Len(CaseLog)
        /\ LET out == Run(S0, CaseLog[i].steps, <<>>) IN
           PrintT(<<"GEN", ToJson([id |-> CaseLog[i].id, exp |-> [k \in 1..Len(out) |-> ShowVals(out[k])]])>>)
        /\ i' = i + 1
Spec == Init /\ [][Next]_i
=============================================================================
