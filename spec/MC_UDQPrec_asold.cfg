SPECIFICATION Spec
CONSTANT PowRhs = "mul"
INVARIANT Agree
