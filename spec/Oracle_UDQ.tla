----------------------------- MODULE Oracle_UDQ -----------------------------
(* TLC as oracle: computes, for every case in the ndjson file IOEnv.CASES,   *)
(* the value the reference meaning (UDQEval) gives to the DEFINE and prints  *)
(* it; harness/udqeval compares the real UDQDefine::eval with it.            *)
EXTENDS UDQEval, Json, IOUtils
CaseLog == ndJsonDeserialize(IOEnv.CASES)
VARIABLE i
OWells == <<"P1", "P2", "P3", "I1">>
OGroups == <<"G1", "G2">>
ONum == [x \in {"0", "1", "2", "3", "4", "5", "6", "10"} |->
           CASE x = "0" -> 0 [] x = "1" -> 1 [] x = "2" -> 2 [] x = "3" -> 3 [] x = "4" -> 4 [] x = "5" -> 5
             [] x = "6" -> 6 [] x = "10" -> 10]
OPat == [x \in {"'P*'", "'*'", "'I*'"} |-> CASE x = "'P*'" -> {"P1", "P2", "P3"} [] x = "'*'" -> {"P1", "P2", "P3", "I1"} [] x = "'I*'" -> {"I1"}]
Init == i = 1
Show(x) == IF x.k = "s" THEN [k |-> "s", v |-> [s |-> x.v]] ELSE x
Next == /\ i <= Len(CaseLog)
        /\ PrintT(<<"GEN", ToJson([id |-> CaseLog[i].id,
                                   exp |-> Show(Define(CaseLog[i].kind, CaseLog[i].ctx, CaseLog[i].toks))])>>)
        /\ i' = i + 1
Spec == Init /\ [][Next]_i
=============================================================================
