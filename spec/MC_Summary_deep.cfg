SPECIFICATION MSpec
CONSTANTS
 Depth = 3
 ShutSets <- SomeShut
INVARIANTS TotalsConserved RatesHierarchical Derived
PROPERTIES Monotone ShutStandsStill
CHECK_DEADLOCK FALSE
