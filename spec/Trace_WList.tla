----------------------------- MODULE Trace_WList -----------------------------
(* Trace validation of the real WLIST handler / WListManager against WList.   *)
EXTENDS WList, Json, IOUtils
TraceLog == ndJsonDeserialize(IOEnv.TRACE)
VARIABLE l
tvars == <<vars, l>>
Ev == TraceLog[l]
IsEvent(e) == l <= Len(TraceLog) /\ TraceLog[l].e = e /\ l' = l + 1
TInit == l = 1 /\ Init
TReset == IsEvent("Reset") /\ lists' = <<>> /\ UNCHANGED nops
\* the observation after the report step that applied the operation
ObsOk == /\ \A n \in Names : IF n \in DOMAIN lists' THEN Ev.lists[n] = lists'[n] ELSE Ev.lists[n] = <<"<none>">>
         \* the per-well index keeps the slot of a list the well has left (the restart output relies on slot positions),
         \* so it may name more lists than the well is on.  (The number of lists kept beside the slots is not checked:
         \*  it is not incremented when a well returns to a list whose slot it still has - see DESIGN.md 12.4 - and
         \*  an existing test of the restart output pins the resulting slot contents.)
         /\ \A w \in Wells : ListsOf(lists', w) \subseteq Range(Ev.index[w])
TOp == /\ IsEvent("Op") /\ UNCHANGED nops
       /\ IF Legal(Ev.op, Ev.name)
          THEN Ev.res = "ok" /\ lists' = Apply(lists, Ev.op, Ev.name, Ev.wells) /\ ObsOk
          ELSE Ev.res = "error" /\ UNCHANGED lists
TDiag == /\ l <= Len(TraceLog) /\ Ev.e = "Op" /\ ~ENABLED TOp
         /\ PrintT(<<"DIAG", l, [before |-> lists, expected |-> IF Legal(Ev.op, Ev.name) THEN Apply(lists, Ev.op, Ev.name, Ev.wells) ELSE lists]>>)
         /\ FALSE /\ UNCHANGED tvars
TNext == TReset \/ TOp \/ TDiag
TraceSpec == TInit /\ [][TNext]_tvars
TraceAccepted == TLCGet("stats").diameter - 1 = Len(TraceLog)
=============================================================================
