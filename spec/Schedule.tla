------------------------------ MODULE Schedule ------------------------------
(***************************************************************************)
(* The SCHEDULE section as a sequence of blocks (one per report step) of   *)
(* abstract keywords, and what "the schedule state at report step k" is    *)
(* allowed to depend on (properties C03 and C04).                          *)
(*                                                                         *)
(* Part 1 - input.  `blocks` is the input written so far; a keyword is a   *)
(* record [kw, ...].  The actions only append keywords whose prerequisites *)
(* exist (a well before its connections and controls, a group before its   *)
(* children), so that every behaviour is a deck the real parser accepts.   *)
(* `st` is the little abstract state needed for those prerequisites.       *)
(*                                                                         *)
(* Part 2 - observations.  The schedule object built from a prefix of the  *)
(* input, from the whole input, or from the prefix with a different tail,  *)
(* is observed snapshot by snapshot.  Causality (C03): the observation of  *)
(* step k is a function of blocks 1..k only.  The trace specification      *)
(* (Trace_Schedule) states this over recorded observations.                *)
(***************************************************************************)
EXTENDS Integers, Sequences, FiniteSets, TLC

CONSTANTS WellNames, GroupNames, MaxSteps, MaxKw

VARIABLES blocks,      \* sequence of blocks; a block is a sequence of keywords
          st,          \* [wells : name -> [group, conns : set of <<i,j,k>>, inj : BOOLEAN], groups : set]
          nkw
svars == <<blocks, st, nkw>>

Cells == {<<1, 1, 1>>, <<1, 1, 2>>, <<2, 1, 1>>, <<2, 2, 2>>, <<3, 3, 1>>, <<3, 3, 2>>}
Last == Len(blocks)
Put(f, k, v) == [x \in DOMAIN f \cup {k} |-> IF x = k THEN v ELSE f[x]]
AddKw(k) == blocks' = [blocks EXCEPT ![Last] = Append(@, k)] /\ nkw' = nkw + 1
HasWell(w) == w \in DOMAIN st.wells

SInit == blocks = << <<>> >> /\ st = [wells |-> <<>>, groups |-> {"FIELD"}, parent |-> <<>>, gwells |-> {}, lists |-> {}] /\ nkw = 0

\* the group tree stays a tree: the new parent is not the child or one of its descendants
RECURSIVE IsAncestor(_, _, _)
IsAncestor(a, g, par) == IF g = "FIELD" \/ g \notin DOMAIN par THEN FALSE
                         ELSE par[g] = a \/ IsAncestor(a, par[g], par)
\* (a group holds either wells or groups)
Gruptree(c, p) == /\ p \in st.groups /\ c # p /\ c \notin {"FIELD"} /\ ~IsAncestor(c, p, st.parent)
                  /\ p \notin st.gwells
                  /\ AddKw([kw |-> "GRUPTREE", child |-> c, parent |-> p])
                  /\ st' = [st EXCEPT !.groups = @ \cup {c}, !.parent = Put(@, c, p)]
\* a well that is specified again keeps its head position (it may move to another group)
Welspecs(w, g, i, j) == /\ g # "FIELD" /\ g \notin {st.parent[c] : c \in DOMAIN st.parent}
                        /\ HasWell(w) => (i = st.wells[w].i /\ j = st.wells[w].j)
                        /\ AddKw([kw |-> "WELSPECS", well |-> w, group |-> g, i |-> i, j |-> j])
                        /\ st' = [st EXCEPT !.wells = Put(@, w, IF HasWell(w) THEN [@[w] EXCEPT !.group = g]
                                                                 ELSE [group |-> g, conns |-> {}, inj |-> FALSE, i |-> i, j |-> j]),
                                             !.groups = @ \cup {g}, !.gwells = @ \cup {g}]
Compdat(w, c, state) == /\ HasWell(w)
                        /\ AddKw([kw |-> "COMPDAT", well |-> w, i |-> c[1], j |-> c[2], k1 |-> c[3], k2 |-> c[3], state |-> state])
                        /\ st' = [st EXCEPT !.wells[w].conns = @ \cup {c}]
CompdatRange(w, i, j, state) == /\ HasWell(w)
                        /\ AddKw([kw |-> "COMPDAT", well |-> w, i |-> i, j |-> j, k1 |-> 1, k2 |-> 2, state |-> state])
                        /\ st' = [st EXCEPT !.wells[w].conns = @ \cup {<<i, j, 1>>, <<i, j, 2>>}]
Wconprod(w, status, cmode, orat, bhp) ==
    /\ HasWell(w) /\ st.wells[w].conns # {}
    /\ AddKw([kw |-> "WCONPROD", well |-> w, status |-> status, cmode |-> cmode, orat |-> orat, bhp |-> bhp])
    /\ st' = [st EXCEPT !.wells[w].inj = FALSE]
Wconinje(w, status, rate, bhp) ==
    /\ HasWell(w) /\ st.wells[w].conns # {}
    /\ AddKw([kw |-> "WCONINJE", well |-> w, status |-> status, rate |-> rate, bhp |-> bhp])
    /\ st' = [st EXCEPT !.wells[w].inj = TRUE]
Wconhist(w, status, orat) ==
    /\ HasWell(w) /\ st.wells[w].conns # {}
    /\ AddKw([kw |-> "WCONHIST", well |-> w, status |-> status, orat |-> orat])
    /\ st' = [st EXCEPT !.wells[w].inj = FALSE]
Welopen(w, status) == HasWell(w) /\ AddKw([kw |-> "WELOPEN", well |-> w, status |-> status, conn |-> <<>>]) /\ UNCHANGED st
WelopenConn(w, status, c) == /\ HasWell(w) /\ c \in st.wells[w].conns
                             /\ AddKw([kw |-> "WELOPEN", well |-> w, status |-> status, conn |-> c]) /\ UNCHANGED st
Weltarg(w, which, v) == /\ HasWell(w) /\ st.wells[w].conns # {}
                        /\ AddKw([kw |-> "WELTARG", well |-> w, which |-> which, v |-> v]) /\ UNCHANGED st
Wefac(w, f) == HasWell(w) /\ AddKw([kw |-> "WEFAC", well |-> w, f |-> f]) /\ UNCHANGED st
Gefac(g, f) == g \in st.groups \ {"FIELD"} /\ AddKw([kw |-> "GEFAC", group |-> g, f |-> f]) /\ UNCHANGED st
Wpimult(w, f) == /\ HasWell(w) /\ st.wells[w].conns # {}
                 /\ AddKw([kw |-> "WPIMULT", well |-> w, f |-> f]) /\ UNCHANGED st
Welpi(w, v) == /\ HasWell(w) /\ st.wells[w].conns # {} /\ ~st.wells[w].inj
               /\ AddKw([kw |-> "WELPI", well |-> w, v |-> v]) /\ UNCHANGED st
Wtest(w, days, n) == HasWell(w) /\ AddKw([kw |-> "WTEST", well |-> w, days |-> days, n |-> n]) /\ UNCHANGED st
Wecon(w, orat) == HasWell(w) /\ AddKw([kw |-> "WECON", well |-> w, orat |-> orat]) /\ UNCHANGED st
Wgrupcon(w, avail) == HasWell(w) /\ AddKw([kw |-> "WGRUPCON", well |-> w, avail |-> avail]) /\ UNCHANGED st
Complump(w, k1, k2, n) == /\ HasWell(w) /\ st.wells[w].conns # {} /\ k1 <= k2
                          /\ AddKw([kw |-> "COMPLUMP", well |-> w, k1 |-> k1, k2 |-> k2, n |-> n]) /\ UNCHANGED st
Gconinje(g, rate) == g \in st.groups \ {"FIELD"} /\ AddKw([kw |-> "GCONINJE", group |-> g, rate |-> rate]) /\ UNCHANGED st
Gconprod(g, orat) == g \in st.groups \ {"FIELD"} /\ AddKw([kw |-> "GCONPROD", group |-> g, orat |-> orat]) /\ UNCHANGED st
\* a well list exists after NEW
Wlist(name, op, w) == /\ HasWell(w) /\ (op # "NEW" => name \in st.lists)
                      /\ AddKw([kw |-> "WLIST", name |-> name, op |-> op, well |-> w])
                      /\ st' = [st EXCEPT !.lists = @ \cup {name}]
UdqAssign(q, v) == AddKw([kw |-> "UDQ", q |-> q, v |-> v]) /\ UNCHANGED st
Tuning(v) == AddKw([kw |-> "TUNING", v |-> v]) /\ UNCHANGED st
Nextstep(v) == AddKw([kw |-> "NEXTSTEP", v |-> v]) /\ UNCHANGED st
Rptrst(v) == AddKw([kw |-> "RPTRST", v |-> v]) /\ UNCHANGED st
\* further keywords with a handler in the library (rendered from the table in checks/schedgen.py, two variants each):
\* they need no more than an existing well / group
MiscWellKw == {"COMPORD", "CSKIN", "WDFAC", "WDFACCOR", "WINJCLN", "WLIFTOPT", "WPAVEDEP", "WRFT", "WRFTPLT", "WVFPDP", "WVFPEXP", "WWPAVE"}
MiscGroupKw == {"BRANPROP", "GCONINJG", "GCONPRDG", "GCONSALE", "GCONSUMP", "GECON", "GLIFTOPT", "GPMAINT"}
MiscGlobalKw == {"DRSDT", "DRSDTR", "DRVDT", "FBHPDEF", "GUIDERAT", "MESSAGES", "MULTPV", "MULTZ", "NETBALAN", "NUPCOL", "RPTONLY", "RPTSCHED", "SAVE", "SOURCE", "SUMTHIN", "UDQDEF", "UDQDEFW", "VAPPARS", "VFPPROD", "WHISTCTL", "WPAVE", "WSEGITER"}
MiscWell(n, w, v) == HasWell(w) /\ AddKw([kw |-> "MISC", name |-> n, well |-> w, v |-> v]) /\ UNCHANGED st
MiscGroup(n, g, v) == g \in st.groups \ {"FIELD"} /\ AddKw([kw |-> "MISC", name |-> n, group |-> g, v |-> v]) /\ UNCHANGED st
MiscGlobal(n, v) == AddKw([kw |-> "MISC", name |-> n, v |-> v]) /\ UNCHANGED st
\* a well whose connections are exactly the two layers of one column becomes a multi-segment well
\* (WELSEGS + COMPSEGS; the second variant adds a valve)
Msw(w, v) == /\ HasWell(w)
             /\ \E i \in {1, 3} : /\ st.wells[w].conns = {<<i, i, 1>>, <<i, i, 2>>}
                                 /\ AddKw([kw |-> "MSW", well |-> w, i |-> i, v |-> v])
             /\ UNCHANGED st
\* ACTIONX definition: the body is a sequence of keywords from the alphabet in which the well may be "?"
\* (the wells matched by the condition); bodies only address existing wells / the match set
ActionBodies(ws) ==
    LET W == ws \cup {"?"} IN
    { <<[kw |-> "WELOPEN", well |-> w, status |-> s, conn |-> <<>>]>> : w \in W, s \in {"OPEN", "SHUT", "STOP"} }
    \cup { <<[kw |-> "WELTARG", well |-> w, which |-> "ORAT", v |-> v]>> : w \in W, v \in {70, 90} }
    \cup { <<[kw |-> "WEFAC", well |-> w, f |-> 2], [kw |-> "WELOPEN", well |-> w2, status |-> "SHUT", conn |-> <<>>]>> : w \in W, w2 \in W }
    \cup { <<[kw |-> "WCONPROD", well |-> w, status |-> "OPEN", cmode |-> "ORAT", orat |-> 120, bhp |-> 60]>> : w \in ws }
    \cup { <<[kw |-> "GCONPROD", group |-> "G1", orat |-> 700]>>, <<[kw |-> "NEXTSTEP", v |-> 3]>> }
    \cup { <<[kw |-> "WELPI", well |-> w, v |-> v]>> : w \in W, v \in {5, 9} }
    \* WPIMULT for the whole well is collected over the body and applied when the body has been read: with a later
    \* COMPDAT or a second WPIMULT in the same body (applied only at report steps without a WPIMULT of their own)
    \cup { <<[kw |-> "WPIMULT", well |-> w, f |-> f]>> : w \in W, f \in {2, 3} }
    \cup { <<[kw |-> "WPIMULT", well |-> w, f |-> 2], [kw |-> "COMPDAT", well |-> w2, i |-> c[1], j |-> c[2], k1 |-> c[3], k2 |-> c[3], state |-> "OPEN"]>> :
               w \in W, w2 \in ws, c \in {<<1, 1, 1>>, <<2, 2, 2>>} }
    \cup { <<[kw |-> "WPIMULT", well |-> w, f |-> 2], [kw |-> "WPIMULT", well |-> w2, f |-> 3]>> : w \in W, w2 \in W }       \* (applied with the simulator's current PI of the well)
Actionx(name, body) ==
    /\ \A n \in 1..Len(body) : ("well" \in DOMAIN body[n] /\ body[n].well # "?") =>
            (HasWell(body[n].well) /\ st.wells[body[n].well].conns # {})
    /\ AddKw([kw |-> "ACTIONX", name |-> name, body |-> body]) /\ UNCHANGED st
\* close the report step
Tstep == /\ Last < MaxSteps /\ blocks' = Append(blocks, <<>>) /\ UNCHANGED <<st, nkw>>

Status == {"OPEN", "SHUT"}
WStatus == {"OPEN", "SHUT", "STOP"}
SNext ==
    \/ Tstep
    \/ nkw < MaxKw /\
       ( \/ \E c \in GroupNames, p \in GroupNames \cup {"FIELD"} : Gruptree(c, p)
         \/ \E w \in WellNames, g \in GroupNames, i \in {1, 2, 3}, j \in {1, 3} : Welspecs(w, g, i, j)
         \/ \E w \in WellNames, c \in Cells, s \in Status : Compdat(w, c, s)
         \/ \E w \in WellNames, i \in {1, 3}, s \in Status : CompdatRange(w, i, i, s)
         \/ \E w \in WellNames, s \in WStatus, m \in {"ORAT", "BHP"}, o \in {100, 200}, b \in {50, 80} : Wconprod(w, s, m, o, b)
         \/ \E w \in WellNames, s \in WStatus, r \in {300, 400}, b \in {300, 350} : Wconinje(w, s, r, b)
         \/ \E w \in WellNames, s \in WStatus, o \in {110, 220} : Wconhist(w, s, o)
         \/ \E w \in WellNames, s \in WStatus : Welopen(w, s)
         \/ \E w \in WellNames, s \in Status, c \in Cells : WelopenConn(w, s, c)
         \/ \E w \in WellNames, t \in {"ORAT", "BHP"}, v \in {60, 150} : Weltarg(w, t, v)
         \/ \E w \in WellNames, f \in {1, 2, 4} : Wefac(w, f)          \* efficiency factor 1 / f
         \/ \E g \in GroupNames, f \in {1, 2, 4} : Gefac(g, f)
         \/ \E w \in WellNames, f \in {2, 3} : Wpimult(w, f)
         \/ \E g \in GroupNames, o \in {500, 900} : Gconprod(g, o)
         \/ \E g \in GroupNames, r \in {600, 800} : Gconinje(g, r)
         \/ \E w \in WellNames, v \in {5, 9} : Welpi(w, v)
         \/ \E w \in WellNames, d \in {10, 30}, n \in {0, 2} : Wtest(w, d, n)
         \/ \E w \in WellNames, o \in {5, 20} : Wecon(w, o)
         \/ \E w \in WellNames, a \in {"YES", "NO"} : Wgrupcon(w, a)
         \/ \E w \in WellNames, k1, k2 \in {1, 2}, n \in {1, 2} : Complump(w, k1, k2, n)
         \/ \E w \in WellNames, n \in {"*L1", "*L2"}, op \in {"NEW", "ADD", "DEL"} : Wlist(n, op, w)
         \/ \E q \in {"FU1", "WU1"}, v \in {1, 2} : UdqAssign(q, v)
         \/ \E v \in {1, 2} : Tuning(v)
         \/ \E v \in {3, 5} : Nextstep(v)
         \/ \E v \in {1, 2} : Rptrst(v)
         \/ \E n \in MiscWellKw, w \in WellNames, v \in {1, 2} : MiscWell(n, w, v)
         \/ \E n \in MiscGroupKw, g \in GroupNames, v \in {1, 2} : MiscGroup(n, g, v)
         \/ \E n \in MiscGlobalKw, v \in {1, 2} : MiscGlobal(n, v)
         \/ \E w \in WellNames, v \in {1, 2} : Msw(w, v)
         \/ \E a \in {"ACT1", "ACT2"} : \E b \in ActionBodies(DOMAIN st.wells) : Actionx(a, b) )
SSpec == SInit /\ [][SNext]_svars
\* design-level sanity of the generator: connections and controls only for existing wells
WellFormed == \A b \in 1..Len(blocks) : \A n \in 1..Len(blocks[b]) :
                 LET k == blocks[b][n] IN
                 ("well" \in DOMAIN k /\ k.kw # "WELSPECS") =>
                    \E b2 \in 1..b : \E n2 \in 1..Len(blocks[b2]) :
                        blocks[b2][n2].kw = "WELSPECS" /\ blocks[b2][n2].well = k.well /\ (b2 < b \/ n2 < n)
=============================================================================
