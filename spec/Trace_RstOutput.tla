--------------------------- MODULE Trace_RstOutput ---------------------------
(* Trace validation of the real RSTConfig / Schedule restart-output record against RstOutput. *)
EXTENDS RstOutput, Json, IOUtils
TraceLog == ndJsonDeserialize(IOEnv.TRACE)
VARIABLE l
tvars == <<vars, l>>
Ev == TraceLog[l]
IsEvent(e) == l <= Len(TraceLog) /\ TraceLog[l].e = e /\ l' = l + 1
Range(f) == {f[x] : x \in DOMAIN f}
FnOf(ps) == [n \in {ps[i][1] : i \in DOMAIN ps} |-> ps[CHOOSE i \in DOMAIN ps : ps[i][1] = n][2]]
PairsOf(f) == {<<n, f[n]>> : n \in DOMAIN f}
OpOf(o) == IF o.op \in {"SAVE", "RPTRSTI", "RPTSCHEDI"} THEN o ELSE [o EXCEPT !.mn = FnOf(o.mn)]
Ops(os) == [i \in DOMAIN os |-> OpOf(os[i])]
TInit == l = 1 /\ k = 0 /\ cfg = Cfg0 /\ events = {} /\ saves = {} /\ ym = <<0>> /\ decided = Empty /\ nkw = 0 /\ hist = [blocks |-> <<>>, cur |-> <<>>]
TReset == IsEvent("Reset") /\ UNCHANGED vars
TSol == /\ IsEvent("Sol")
        /\ LET s == SolAll(Cfg0, Ops(Ev.ops)) IN
           /\ cfg' = First(s)
           /\ events' = IF s.write = "yes" THEN {0} ELSE {}
           /\ Range(Ev.kw0) = PairsOf(s.kw)              \* Schedule::rst_keywords(0)
        /\ ym' = <<2020 * 12 + Ev.m0>> /\ k' = 0 /\ saves' = {} /\ decided' = Empty /\ nkw' = 0 /\ hist' = [blocks |-> <<>>, cur |-> <<>>]
TBlock == /\ IsEvent("Block") /\ Ev.k = k
          /\ LET ops == Ops(Ev.ops) c == ApplyAll(cfg, ops) IN
             /\ cfg' = c
             /\ saves' = IF HasSave(ops) THEN saves \cup {k} ELSE saves
             /\ Ev.cfg.basic = c.basic /\ Ev.cfg.freq = c.freq /\ Ev.cfg.write = c.write
             /\ Range(Ev.cfg.kw) = PairsOf(c.kw)
          /\ Ev.w = (k \in events \/ k \in saves')       \* Schedule::write_rst_file(k)
          /\ UNCHANGED <<k, events, ym, decided, nkw, hist>>
TAdvance == /\ IsEvent("Advance") /\ Advance(Ev.dm)
            /\ Ev.fm = (Ev.dm > 0)
            /\ Ev.fy = (Year(ym[k + 1] + Ev.dm) > Year(ym[k + 1]))
TDiag == /\ l <= Len(TraceLog) /\ Ev.e \in {"Sol", "Block", "Advance"} /\ ~ENABLED (TSol \/ TBlock \/ TAdvance)
         /\ PrintT(<<"DIAG", l, [step |-> k, configBefore |-> cfg, events |-> events, saves |-> saves,
                                 expectedAfterBlock |-> IF Ev.e = "Block" THEN ApplyAll(cfg, Ops(Ev.ops)) ELSE cfg]>>)
         /\ FALSE /\ UNCHANGED tvars
TNext == TReset \/ TSol \/ TBlock \/ TAdvance \/ TDiag
TraceSpec == TInit /\ [][TNext]_tvars
TraceAccepted == TLCGet("stats").diameter - 1 = Len(TraceLog)
=============================================================================
