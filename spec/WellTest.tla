------------------------------ MODULE WellTest ------------------------------
(***************************************************************************)
(* Periodic testing of wells that were closed (WTEST), beyond the listed   *)
(* properties: WellTestConfig + WellTestState as one state machine.        *)
(*                                                                         *)
(* A well is closed for a reason at some time.  While its test             *)
(* configuration names that reason it is proposed for reopening whenever   *)
(* at least the test interval has passed since it was closed or last       *)
(* tested, at most num_test times (0 = no limit) per configuration: a new  *)
(* WTEST keyword for the well (a later report step) starts the count       *)
(* again.  Closing a well again restarts the interval but - as the code    *)
(* does - keeps the number of attempts.  Opening takes it off the list.    *)
(***************************************************************************)
EXTENDS Integers, Sequences, FiniteSets, TLC
CONSTANTS Wells, Reasons, MaxTime, MaxOps
NoCfg == [on |-> FALSE]
NoSt == [known |-> FALSE]
VARIABLES cfg,     \* well -> NoCfg or [on, reasons, interval, num, step]
          wst,     \* well -> NoSt or [known, closed, reason, last, attempts, wstep]   (wstep = -1: not yet seen by a test)
          now, nops, lastOut
vars == <<cfg, wst, now, nops, lastOut>>
Init == cfg = [w \in Wells |-> NoCfg] /\ wst = [w \in Wells |-> NoSt] /\ now = 0 /\ nops = 0 /\ lastOut = {}
Configure(w, rs, interval, num, step) ==
    /\ cfg' = [cfg EXCEPT ![w] = [on |-> TRUE, reasons |-> rs, interval |-> interval, num |-> num, step |-> step]]
    /\ UNCHANGED <<wst, now, lastOut>>
Drop(w) == cfg' = [cfg EXCEPT ![w] = NoCfg] /\ UNCHANGED <<wst, now, lastOut>>
Close(w, r) ==
    /\ wst' = [wst EXCEPT ![w] = IF @.known THEN [@ EXCEPT !.closed = TRUE, !.reason = r, !.last = now]
                                 ELSE [known |-> TRUE, closed |-> TRUE, reason |-> r, last |-> now, attempts |-> 0, wstep |-> -1]]
    /\ UNCHANGED <<cfg, now, lastOut>>
Open(w) == wst[w].known /\ wst' = [wst EXCEPT ![w].closed = FALSE] /\ UNCHANGED <<cfg, now, lastOut>>
\* one call of test_wells at the current time
Applies(w) == wst[w].known /\ wst[w].closed /\ cfg[w].on /\ wst[w].reason \in cfg[w].reasons
Step1(w) == \* the state of w after the configuration generation has been noted
    LET s == wst[w] IN
    IF ~Applies(w) THEN s
    ELSE IF s.wstep = -1 THEN [s EXCEPT !.wstep = cfg[w].step]
    ELSE IF cfg[w].step > s.wstep THEN [s EXCEPT !.wstep = cfg[w].step, !.attempts = 0]
    ELSE s
Due(w) == Applies(w) /\ LET s == Step1(w) IN
             /\ ~(cfg[w].num # 0 /\ s.attempts >= cfg[w].num)
             /\ now - s.last >= cfg[w].interval
TestResult == {w \in Wells : Due(w)}
Test == /\ lastOut' = TestResult
        /\ wst' = [w \in Wells |-> IF Due(w) THEN [Step1(w) EXCEPT !.last = now, !.attempts = @ + 1] ELSE Step1(w)]
        /\ UNCHANGED <<cfg, now>>
Tick(d) == now + d <= MaxTime /\ now' = now + d /\ UNCHANGED <<cfg, wst, lastOut>>
Next == /\ nops < MaxOps /\ nops' = nops + 1
        /\ \/ \E w \in Wells, rs \in (SUBSET Reasons) \ {{}}, i \in {1, 3}, n \in {0, 1, 2}, st \in {0, 1, 2} : Configure(w, rs, i, n, st)
           \/ \E w \in Wells : Drop(w) \/ Open(w)
           \/ \E w \in Wells, r \in Reasons : Close(w, r)
           \/ Test
           \/ \E d \in {1, 2} : Tick(d)
Spec == Init /\ [][Next]_vars
\* a test is only ever counted for a well that is closed for a configured reason, had waited the interval,
\* and had attempts left in the current configuration generation
Counted(w) == wst[w].known /\ wst'[w].known /\ wst'[w].attempts > wst[w].attempts
TestsJustified == [][\A w \in Wells : Counted(w) =>
                        /\ wst[w].closed /\ cfg[w].on /\ wst[w].reason \in cfg[w].reasons
                        /\ now - wst[w].last >= cfg[w].interval
                        /\ (cfg[w].num = 0 \/ wst'[w].attempts <= cfg[w].num)
                        /\ w \in lastOut']_vars
\* the attempts only start again from zero with a configuration of a later report step
ResetOnlyByNewConfig == [][\A w \in Wells : (wst[w].known /\ wst'[w].known /\ wst'[w].attempts < wst[w].attempts) =>
                              (cfg[w].on /\ wst[w].wstep # -1 /\ cfg[w].step > wst[w].wstep)]_vars
=============================================================================
