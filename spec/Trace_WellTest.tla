---------------------------- MODULE Trace_WellTest ----------------------------
(* Trace validation of the real WellTestConfig / WellTestState against WellTest. *)
EXTENDS WellTest, Json, IOUtils
TraceLog == ndJsonDeserialize(IOEnv.TRACE)
VARIABLE l
tvars == <<vars, l>>
Ev == TraceLog[l]
IsEvent(e) == l <= Len(TraceLog) /\ TraceLog[l].e = e /\ l' = l + 1
TInit == l = 1 /\ Init
TReset == IsEvent("Reset") /\ cfg' = [w \in Wells |-> NoCfg] /\ wst' = [w \in Wells |-> NoSt] /\ now' = 0 /\ lastOut' = {} /\ UNCHANGED nops
ReasonSet(s) == {r \in Reasons : \E i \in 1..Len(s) : SubSeq(s, i, i) = r}
Range(f) == {f[x] : x \in DOMAIN f}
ClosedNow == {w \in Wells : wst'[w].known /\ wst'[w].closed}
Act == CASE Ev.op = "config" -> Configure(Ev.well, ReasonSet(Ev.reasons), Ev.interval, Ev.num, Ev.step)
         [] Ev.op = "drop" -> Drop(Ev.well)
         [] Ev.op = "close" -> Close(Ev.well, Ev.reason)
         [] Ev.op = "open" -> IF wst[Ev.well].known THEN Open(Ev.well) ELSE UNCHANGED <<cfg, wst, now, lastOut>>
         [] Ev.op = "test" -> Test /\ Range(Ev.out) = TestResult
         [] Ev.op = "tick" -> now' = now + Ev.d /\ UNCHANGED <<cfg, wst, lastOut>>
\* opening a well the state has never seen is an error in the code (map::at); otherwise operations succeed
ResOk == Ev.res = (IF Ev.op = "open" /\ ~wst[Ev.well].known THEN "error" ELSE "ok")
TOp == IsEvent("Op") /\ ResOk /\ Act /\ Range(Ev.closed) = ClosedNow /\ Ev.now = now' /\ UNCHANGED nops
TDiag == /\ l <= Len(TraceLog) /\ Ev.e = "Op" /\ ~ENABLED TOp
         /\ PrintT(<<"DIAG", l, [expectedIfTest |-> TestResult, state |-> wst, config |-> cfg, now |-> now]>>)
         /\ FALSE /\ UNCHANGED tvars
TNext == TReset \/ TOp \/ TDiag
TraceSpec == TInit /\ [][TNext]_tvars
TraceAccepted == TLCGet("stats").diameter - 1 = Len(TraceLog)
=============================================================================
