------------------------------ MODULE Network ------------------------------
(***************************************************************************)
(* The production network - beyond the listed properties: ExtNetwork under *)
(* BRANPROP / NODEPROP (extended network) and GRUPNET (standard network,   *)
(* branches along the group tree) as one state machine.                    *)
(*                                                                         *)
(* A network is a list of branches (downtree node, uptree node, VFP table; *)
(* 9999 = no pressure loss), a set of nodes (optional fixed pressure, lift *)
(* gas flag) and the order in which node names first appeared.  Defining a *)
(* branch replaces the branch that led up from its downtree node, so a     *)
(* node never has two uptree branches; VFP table 0 removes a branch.  The  *)
(* two kinds of network exclude each other: the handlers refuse to mix     *)
(* them once one is in use, and the parser already refuses the keyword     *)
(* combinations (BRANPROP / NODEPROP need NETWORK in RUNSPEC and no        *)
(* earlier GRUPNET, NODEPROP an earlier BRANPROP, GRUPNET none of them).   *)
(* Nothing prevents a cycle (see Acyclic below).                           *)
(***************************************************************************)
EXTENDS Integers, Sequences, FiniteSets, TLC
CONSTANTS Names, MaxOps
None == -1
NoVfp == 9999
Parent(g) == CASE g = "FIELD" -> "" [] g = "G1" -> "FIELD" [] OTHER -> "G1"      \* the group tree of the test model
VARIABLES branches,   \* sequence of [down, up, vfp]
          nodes,      \* name -> [p, lift]   (p = None: no fixed pressure)
          order,      \* node names in order of first appearance in a branch
          standard, nops, lastRes,
          netKw,      \* the deck has NETWORK in RUNSPEC
          seenBran, seenGrup   \* an earlier BRANPROP / GRUPNET keyword in the deck
vars == <<branches, nodes, order, standard, nops, lastRes, netKw, seenBran, seenGrup>>
Init == /\ branches = <<>> /\ nodes = [n \in {} |-> 0] /\ order = <<>> /\ standard = FALSE /\ nops = 0 /\ lastRes = "ok"
        /\ netKw \in BOOLEAN /\ seenBran = FALSE /\ seenGrup = FALSE
Active == branches # <<>> /\ DOMAIN nodes # {}
SeqRange(s) == {s[i] : i \in DOMAIN s}
FreshNode == [p |-> None, lift |-> FALSE]
WithNodes(ns, names) == [n \in DOMAIN ns \cup names |-> IF n \in DOMAIN ns THEN ns[n] ELSE FreshNode]
RECURSIVE AppendNew(_, _)
AppendNew(s, names) == IF names = <<>> THEN s ELSE AppendNew(IF Head(names) \in SeqRange(s) THEN s ELSE Append(s, Head(names)), Tail(names))
DropFirst(bs, up, down) == LET hits == {i \in DOMAIN bs : bs[i].up = up /\ bs[i].down = down} IN
                           IF hits = {} THEN bs
                           ELSE LET i == CHOOSE x \in hits : \A y \in hits : x <= y IN SubSeq(bs, 1, i - 1) \o SubSeq(bs, i + 1, Len(bs))
Uptree(bs, n) == {i \in DOMAIN bs : bs[i].down = n}
\* ExtNetwork::add_or_replace_branch on (branches, nodes, order) given as a record
AddOrReplace(st, down, up, vfp) ==
    LET ns == WithNodes(st.nodes, {down, up})
        od == AppendNew(st.order, <<down, up>>)
        old == Uptree(st.branches, down)
        bs == IF old = {} THEN st.branches ELSE LET i == CHOOSE x \in old : TRUE IN DropFirst(st.branches, st.branches[i].up, down)
    IN [branches |-> Append(bs, [down |-> down, up |-> up, vfp |-> vfp]), nodes |-> ns, order |-> od]
Cur == [branches |-> branches, nodes |-> nodes, order |-> order]
Set(st) == branches' = st.branches /\ nodes' = st.nodes /\ order' = st.order
Fail == lastRes' = "error" /\ UNCHANGED <<branches, nodes, order, standard, seenBran, seenGrup>>
\* BRANPROP, one record
Branprop(down, up, vfp) ==
    IF ~netKw \/ seenGrup \/ (Active /\ standard) THEN Fail
    ELSE /\ standard' = FALSE /\ lastRes' = "ok" /\ seenBran' = TRUE /\ UNCHANGED seenGrup
         /\ IF vfp = 0 THEN Set([Cur EXCEPT !.branches = DropFirst(branches, up, down)])
            ELSE Set(AddOrReplace(Cur, down, up, vfp))
\* NODEPROP, one record (the node need not have been named by a branch; it is then not in the ordered list)
Nodeprop(n, p, lift) ==
    IF ~netKw \/ ~seenBran \/ seenGrup \/ (Active /\ standard) THEN Fail
    ELSE /\ lastRes' = "ok" /\ UNCHANGED <<branches, order, standard, seenBran, seenGrup>>
         /\ nodes' = [m \in DOMAIN nodes \cup {n} |-> IF m = n THEN [p |-> IF p > 0 THEN p ELSE None, lift |-> lift] ELSE nodes[m]]
\* GRUPNET, one record for group g: p >= 0 makes it a fixed-pressure node joined to its parent without pressure loss;
\* otherwise a positive VFP table joins it to its parent and table <= 0 takes it out of the network
Grupnet(g, p, vfp, lift) ==
    IF netKw \/ seenBran \/ (Active /\ ~standard) THEN Fail
    ELSE /\ standard' = TRUE /\ lastRes' = "ok" /\ seenGrup' = TRUE /\ UNCHANGED seenBran
         /\ LET node == [p |-> IF p >= 0 THEN p ELSE None, lift |-> lift]
                upd(st) == [st EXCEPT !.nodes = [m \in DOMAIN st.nodes \cup {g} |-> IF m = g THEN node ELSE st.nodes[m]]]
            IN IF p >= 0
               THEN Set(upd(IF Parent(g) # "" THEN AddOrReplace(Cur, g, Parent(g), NoVfp) ELSE Cur))
               ELSE IF vfp <= 0
                    THEN Set(IF g \in DOMAIN nodes /\ Parent(g) \in DOMAIN nodes THEN [Cur EXCEPT !.branches = DropFirst(branches, Parent(g), g)] ELSE Cur)
                    ELSE Set(upd(IF Parent(g) # "" THEN AddOrReplace(Cur, g, Parent(g), vfp) ELSE Cur))
Next == /\ nops < MaxOps /\ nops' = nops + 1 /\ UNCHANGED netKw
        /\ \/ \E d \in Names, u \in Names, v \in {0, 1, 2} : d # u /\ Branprop(d, u, v)
           \/ \E n \in Names, p \in {None, 50}, lift \in BOOLEAN : Nodeprop(n, p, lift)
           \/ \E g \in Names, p \in {None, 0, 60}, v \in {0, 3}, lift \in BOOLEAN : Grupnet(g, p, v, lift)
Spec == Init /\ [][Next]_vars
\* ---- what the library reports
Roots == [i \in {j \in DOMAIN branches : nodes[branches[j].up].p # None} |-> branches[i].up]     \* one entry per branch below a fixed-pressure node
\* ---- design properties
OneUptree == \A n \in DOMAIN nodes : Cardinality(Uptree(branches, n)) <= 1
EndsExist == \A i \in DOMAIN branches : branches[i].down \in DOMAIN nodes /\ branches[i].up \in DOMAIN nodes
OrderOk == /\ \A i, j \in DOMAIN order : i # j => order[i] # order[j]
           /\ \A i \in DOMAIN branches : branches[i].down \in SeqRange(order) /\ branches[i].up \in SeqRange(order)
           /\ SeqRange(order) \subseteq DOMAIN nodes
NoSelfLoop == \A i \in DOMAIN branches : branches[i].down # branches[i].up
StandardFollowsTree == standard => \A i \in DOMAIN branches : branches[i].up = Parent(branches[i].down)
\* NOT an invariant of the design as implemented: two BRANPROP records make a cycle (MC_Network_cycle.cfg shows it)
RECURSIVE Climbs(_, _, _)
Climbs(n, target, fuel) == IF fuel = 0 THEN FALSE
                           ELSE \E i \in Uptree(branches, n) : branches[i].up = target \/ Climbs(branches[i].up, target, fuel - 1)
Acyclic == \A n \in DOMAIN nodes : ~Climbs(n, n, Cardinality(DOMAIN nodes))
=============================================================================
