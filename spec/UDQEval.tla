------------------------------ MODULE UDQEval ------------------------------
(***************************************************************************)
(* Reference meaning of a UDQ expression (property C17): parentheses and   *)
(* functions first, then ^, then * /, then + -, then comparisons, then the *)
(* set-union operators; equal-rank * / + - evaluate left to right;         *)
(* operations act element-wise over well/group sets with scalar            *)
(* broadcasting; undefined elements propagate; reductions run over the     *)
(* defined elements.  Values are exact rationals <<n, d>>.                 *)
(*                                                                         *)
(* A value is [k |-> "s", v |-> x]            scalar, x a rational or Undef *)
(*         or [k |-> "w" / "g", v |-> f]      f : members -> rational/Undef *)
(***************************************************************************)
EXTENDS Integers, Sequences, FiniteSets, TLC

CONSTANTS Wells,        \* sequence of well names (context order)
          Groups,       \* sequence of group names
          NumTok,       \* number token -> integer
          PatWells      \* well-name pattern token (with quotes) -> set of wells

Undef == <<0, 0>>
IsDef(x) == x[2] # 0
Abs(i) == IF i < 0 THEN -i ELSE i
RECURSIVE GCD(_, _)
GCD(a, b) == IF b = 0 THEN a ELSE GCD(b, a % b)
Norm(n, d) == IF d = 0 THEN Undef
              ELSE LET g == GCD(Abs(n), Abs(d))
                       s == IF d < 0 THEN -1 ELSE 1
                   IN IF n = 0 THEN <<0, 1>> ELSE <<s * (n \div g), s * (d \div g)>>
Q(i) == <<i, 1>>
RAdd(a, b) == Norm(a[1] * b[2] + b[1] * a[2], a[2] * b[2])
RSub(a, b) == Norm(a[1] * b[2] - b[1] * a[2], a[2] * b[2])
RMul(a, b) == Norm(a[1] * b[1], a[2] * b[2])
RDiv(a, b) == IF b[1] = 0 THEN Undef ELSE Norm(a[1] * b[2], a[2] * b[1])
RLt(a, b) == a[1] * b[2] < b[1] * a[2]
REq(a, b) == a[1] * b[2] = b[1] * a[2]
RECURSIVE IPow(_, _)
IPow(a, e) == IF e = 0 THEN Q(1) ELSE RMul(a, IPow(a, e - 1))
\* integer exponents only (the generators only write small literal exponents)
RPow(a, b) == IF b[2] # 1 THEN Undef
              ELSE IF b[1] >= 0 THEN IPow(a, b[1])
              ELSE IF a[1] = 0 THEN Undef ELSE IPow(RDiv(Q(1), a), -b[1])
RAbs(a) == <<Abs(a[1]), a[2]>>
RMin(a, b) == IF RLt(b, a) THEN b ELSE a
RMax(a, b) == IF RLt(a, b) THEN b ELSE a
B2Q(b) == IF b THEN Q(1) ELSE Q(0)
\* |a - b| <= 1e-4 |a|   (exact when a = 0)
Near(a, b) == LET d == RSub(a, b) IN REq(a, b) \/ (a[1] # 0 /\ ~RLt(RMul(RAbs(a), <<1, 10000>>), RAbs(d)))

ArithOps == {"+", "-", "*", "/", "^"}
CmpOps == {"==", "!=", ">=", "<=", "<", ">"}
SetOps == {"UADD", "UMUL", "UMIN", "UMAX"}
Reductions == {"SUM", "AVEA", "AVEH", "MAX", "MIN", "NORM1", "NORMI", "PROD"}
Elementals == {"ABS", "DEF", "UNDEF", "IDV", "SORTA", "SORTD"}
Funcs == Reductions \cup Elementals

\* element-wise binary operation on defined rationals
Bin(op, a, b) == CASE op = "+" -> RAdd(a, b) [] op = "-" -> RSub(a, b) [] op = "*" -> RMul(a, b)
                   [] op = "/" -> RDiv(a, b) [] op = "^" -> RPow(a, b)
                   \* ==, !=, <=, >= compare within the relative tolerance of UDQPARAM (1e-4 of the
                   \* left-hand side); < and > are exact
                   [] op = "==" -> B2Q(Near(a, b)) [] op = "!=" -> B2Q(~Near(a, b))
                   [] op = "<" -> B2Q(RLt(a, b)) [] op = ">" -> B2Q(RLt(b, a))
                   [] op = "<=" -> B2Q(RLt(a, b) \/ Near(a, b)) [] op = ">=" -> B2Q(RLt(b, a) \/ Near(a, b))
                   [] op = "UADD" -> RAdd(a, b) [] op = "UMUL" -> RMul(a, b)
                   [] op = "UMIN" -> RMin(a, b) [] op = "UMAX" -> RMax(a, b)
\* undefined propagates - except for the union operators, where one defined side suffices
Elem(op, a, b) == IF op \in SetOps
                  THEN IF IsDef(a) /\ IsDef(b) THEN Bin(op, a, b) ELSE IF IsDef(a) THEN a ELSE b
                  ELSE IF IsDef(a) /\ IsDef(b) THEN Bin(op, a, b) ELSE Undef
Scalar(x) == [k |-> "s", v |-> x]
Apply(op, x, y) ==
    IF x.k = "s" /\ y.k = "s" THEN Scalar(Elem(op, x.v, y.v))
    ELSE IF x.k = "s" THEN [k |-> y.k, v |-> [m \in DOMAIN y.v |-> Elem(op, x.v, y.v[m])]]
    ELSE IF y.k = "s" THEN [k |-> x.k, v |-> [m \in DOMAIN x.v |-> Elem(op, x.v[m], y.v)]]
    ELSE [k |-> x.k, v |-> [m \in DOMAIN x.v |-> Elem(op, x.v[m], y.v[m])]]

\* ---- functions
DefVals(x) == IF x.k = "s" THEN (IF IsDef(x.v) THEN {<<"", x.v>>} ELSE {})
              ELSE {<<m, x.v[m]>> : m \in {mm \in DOMAIN x.v : IsDef(x.v[mm])}}
RECURSIVE FoldSet(_, _, _)
FoldSet(f(_, _), acc, S) == IF S = {} THEN acc
                            ELSE LET e == CHOOSE e \in S : TRUE IN FoldSet(f, f(acc, e[2]), S \ {e})
Reduce(fn, x) ==
    LET D == DefVals(x)  n == Cardinality(D) IN
    IF D = {} THEN Scalar(Undef)
    ELSE Scalar(CASE fn = "SUM" -> FoldSet(RAdd, Q(0), D)
                  [] fn = "PROD" -> FoldSet(RMul, Q(1), D)
                  [] fn = "AVEA" -> RDiv(FoldSet(RAdd, Q(0), D), Q(n))
                  [] fn = "AVEH" -> RDiv(Q(n), FoldSet(LAMBDA a, b : IF IsDef(a) THEN RAdd(a, RDiv(Q(1), b)) ELSE Undef, Q(0), D))
                  [] fn = "MAX" -> FoldSet(RMax, (CHOOSE e \in D : TRUE)[2], D)
                  [] fn = "MIN" -> FoldSet(RMin, (CHOOSE e \in D : TRUE)[2], D)
                  [] fn = "NORM1" -> FoldSet(LAMBDA a, b : RAdd(a, RAbs(b)), Q(0), D)
                  [] fn = "NORMI" -> FoldSet(LAMBDA a, b : RMax(a, RAbs(b)), Q(0), D))
\* rank among the defined elements (ties are never generated)
Rank(x, m, desc) == 1 + Cardinality({mm \in DOMAIN x.v : IsDef(x.v[mm]) /\ mm # m /\
                                        (IF desc THEN RLt(x.v[m], x.v[mm]) ELSE RLt(x.v[mm], x.v[m]))})
MapDef(f(_), x) == IF x.k = "s" THEN Scalar(IF IsDef(x.v) THEN f(x.v) ELSE Undef)
                   ELSE [k |-> x.k, v |-> [m \in DOMAIN x.v |-> IF IsDef(x.v[m]) THEN f(x.v[m]) ELSE Undef]]
Elemental(fn, x) ==
    CASE fn = "ABS" -> MapDef(RAbs, x)
      [] fn = "DEF" -> MapDef(LAMBDA a : Q(1), x)
      [] fn = "IDV" -> IF x.k = "s" THEN Scalar(B2Q(IsDef(x.v)))
                       ELSE [k |-> x.k, v |-> [m \in DOMAIN x.v |-> B2Q(IsDef(x.v[m]))]]
      [] fn = "UNDEF" -> IF x.k = "s" THEN Scalar(IF IsDef(x.v) THEN Undef ELSE Q(1))
                         ELSE [k |-> x.k, v |-> [m \in DOMAIN x.v |-> IF IsDef(x.v[m]) THEN Undef ELSE Q(1)]]
      [] fn = "SORTA" -> IF x.k = "s" THEN MapDef(LAMBDA a : Q(1), x)
                         ELSE [k |-> x.k, v |-> [m \in DOMAIN x.v |-> IF IsDef(x.v[m]) THEN Q(Rank(x, m, FALSE)) ELSE Undef]]
      [] fn = "SORTD" -> IF x.k = "s" THEN MapDef(LAMBDA a : Q(1), x)
                         ELSE [k |-> x.k, v |-> [m \in DOMAIN x.v |-> IF IsDef(x.v[m]) THEN Q(Rank(x, m, TRUE)) ELSE Undef]]
Func(fn, x) == IF fn \in Reductions THEN Reduce(fn, x) ELSE Elemental(fn, x)

\* ---- atoms.  ctx = [f : name -> rational, w : name -> [well -> rational], g : name -> [group -> rational]]
ToSetS(s) == {s[i] : i \in 1..Len(s)}
IsSel(t, p) == p <= Len(t) /\ (t[p] \in DOMAIN PatWells \/ t[p] \in ToSetS(Wells) \/ t[p] \in ToSetS(Groups))
\* <<value, next position>>
Atom(ctx, t, p) ==
    LET q == t[p] IN
    IF q \in DOMAIN NumTok THEN <<Scalar(Q(NumTok[q])), p + 1>>
    ELSE IF q \in DOMAIN ctx.f THEN <<Scalar(ctx.f[q]), p + 1>>
    ELSE IF q \in DOMAIN ctx.w THEN
        IF IsSel(t, p + 1)
        THEN IF t[p + 1] \in DOMAIN PatWells
             THEN <<[k |-> "w", v |-> [m \in ToSetS(Wells) |-> IF m \in PatWells[t[p + 1]] THEN ctx.w[q][m] ELSE Undef]], p + 2>>
             ELSE <<Scalar(ctx.w[q][t[p + 1]]), p + 2>>
        ELSE <<[k |-> "w", v |-> ctx.w[q]], p + 1>>
    ELSE IF IsSel(t, p + 1) THEN <<Scalar(ctx.g[q][t[p + 1]]), p + 2>>
         ELSE <<[k |-> "g", v |-> ctx.g[q]], p + 1>>

\* ---- precedence climbing
Prec(o) == IF o \in SetOps THEN 1 ELSE IF o \in CmpOps THEN 2 ELSE IF o \in {"+", "-"} THEN 3
           ELSE IF o \in {"*", "/"} THEN 4 ELSE 5
IsBinOp(o) == o \in ArithOps \cup CmpOps \cup SetOps
RECURSIVE Climb(_, _, _, _), ClimbLoop(_, _, _, _, _), Primary(_, _, _)
Primary(ctx, t, p) ==
    IF t[p] = "(" THEN LET r == Climb(ctx, t, p + 1, 1) IN <<r[1], r[2] + 1>>
    ELSE IF t[p] \in Funcs THEN LET r == Climb(ctx, t, p + 2, 1) IN <<Func(t[p], r[1]), r[2] + 1>>
    ELSE Atom(ctx, t, p)
ClimbLoop(ctx, t, lhs, p, minp) ==
    IF p <= Len(t) /\ IsBinOp(t[p]) /\ Prec(t[p]) >= minp
    THEN LET o == t[p]
             \* left-associative: the right operand binds strictly tighter
             r == Climb(ctx, t, p + 1, Prec(o) + 1)
         IN ClimbLoop(ctx, t, Apply(o, lhs, r[1]), r[2], minp)
    ELSE <<lhs, p>>
Climb(ctx, t, p, minp) == LET a == Primary(ctx, t, p) IN ClimbLoop(ctx, t, a[1], a[2], minp)
Eval(ctx, t) == Climb(ctx, t, 1, 1)[1]

\* value of a DEFINE of a quantity of kind "s" (field), "w" or "g": a scalar
\* result is scattered over the set
Define(kind, ctx, t) ==
    LET r == Eval(ctx, t) IN
    IF kind = "s" \/ r.k # "s" THEN r
    ELSE [k |-> kind, v |-> [m \in (IF kind = "w" THEN ToSetS(Wells) ELSE ToSetS(Groups)) |-> r.v]]
=============================================================================
