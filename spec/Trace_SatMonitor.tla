-------------------------- MODULE Trace_SatMonitor --------------------------
(* Trace validation for C15: every evaluation event of the real material law *)
(* manager must satisfy the relation of its kind.                            *)
EXTENDS SatMonitor, IOUtils
TraceLog == ndJsonDeserialize(IOEnv.TRACE)
VARIABLE l
Ev == TraceLog[l]
Ok == CASE Ev.e = "Reset" -> TRUE [] Ev.e = "Skip" -> TRUE
        [] Ev.e = "Node" -> NodeOk(Ev) [] Ev.e = "Between" -> BetweenOk(Ev) [] Ev.e = "Range" -> RangeOk(Ev)
        [] Ev.e = "Same" -> SameOk(Ev) [] Ev.e = "EndPoint" -> EndPointOk(Ev) [] Ev.e = "Scan" -> ScanOk(Ev) [] Ev.e = "Mono" -> MonoOk(Ev)
        [] OTHER -> FALSE
TInit == l = 1 /\ model = [family |-> 1, nodes |-> 3, regions |-> 1, scaling |-> "none", arrays |-> FALSE, hyst |-> "none", vertical |-> FALSE]
TStep == l <= Len(TraceLog) /\ Ok /\ l' = l + 1 /\ UNCHANGED model
TDiag == l <= Len(TraceLog) /\ ~Ok /\ PrintT(<<"DIAG", l, Ev>>) /\ FALSE /\ UNCHANGED <<model, l>>
TraceSpec == TInit /\ [][TStep \/ TDiag]_<<model, l>>
TraceAccepted == TLCGet("stats").diameter - 1 = Len(TraceLog)
=============================================================================
