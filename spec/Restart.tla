------------------------------ MODULE Restart ------------------------------
(***************************************************************************)
(* Saving and restoring the dynamic state of a run (property C05).         *)
(*                                                                         *)
(* A run advances report step by report step; at a step it may save its    *)
(* dynamic state - solution arrays, well / connection / segment results,   *)
(* cumulative totals, UDQ values, ACTIONX run records.  A unified file     *)
(* holds the steps saved so far, in increasing order, and saving step n    *)
(* discards what it held for steps >= n (cf. UnifiedRestart for the file   *)
(* level); separate files hold one step each.  Loading step m gives back   *)
(* exactly what was saved for m (all generated values are exact in single  *)
(* precision, so this holds for both output precisions).  A restarted run  *)
(* builds its schedule from the file and the deck; from the restart step   *)
(* onwards that schedule agrees with the original one on everything a      *)
(* simulator acts on.                                                      *)
(***************************************************************************)
EXTENDS Integers, Sequences, FiniteSets, TLC

CONSTANTS States, MaxStep        \* abstract dynamic states (model values or records)
VARIABLES unified,   \* BOOLEAN: one file for all steps
          disk,      \* step -> saved state (the steps present on disk)
          now        \* last report step reached by the run
vars == <<unified, disk, now>>
Put(f, k, v) == [x \in DOMAIN f \cup {k} |-> IF x = k THEN v ELSE f[x]]
Restrict(f, S) == [x \in S |-> f[x]]
Init == unified \in BOOLEAN /\ disk = <<>> /\ now = 0
Advance == now < MaxStep /\ now' = now + 1 /\ UNCHANGED <<unified, disk>>
\* save the state of the current step
Save(s) == /\ now >= 1
           /\ disk' = Put(IF unified THEN Restrict(disk, {k \in DOMAIN disk : k < now}) ELSE disk, now, s)
           /\ UNCHANGED <<unified, now>>
\* a restarted run that re-computes from step m and saves again truncates a unified file
Rewind(m) == m \in DOMAIN disk /\ now' = m /\ UNCHANGED <<unified, disk>>
Next == Advance \/ (\E s \in States : Save(s)) \/ (\E m \in 1..MaxStep : Rewind(m))
Spec == Init /\ [][Next]_vars
Loaded(m) == disk[m]            \* what loading step m returns (defined for m \in DOMAIN disk)

\* after a save, a unified file holds no step beyond the one saved: a rewound run never finds stale future state
NoStaleFuture == [][(disk' # disk /\ unified) => \A k \in DOMAIN disk' : k <= now]_vars
\* saving changes only the step saved (and, in a unified file, later ones)
EarlierKept == [][\A k \in DOMAIN disk : k < now' /\ k \in DOMAIN disk' => disk'[k] = disk[k]]_vars
=============================================================================
