SPECIFICATION Spec
CONSTANTS
  MaxSteps = 3
  MaxKw = 1
  RstOps <- MCRstOps
  SchedOps <- MCSchedOps
  SolOps <- MCSolOps
  StartMonths <- MCStart
  IntOps <- MCIntOps
VIEW View
INVARIANTS AlwaysNever Nth Spaced NoneSkipped
PROPERTY EventsGrow
CHECK_DEADLOCK FALSE
