SPECIFICATION Spec
CONSTANTS
  States <- MCStates
  MaxStep = 3
PROPERTIES EarlierKept NoStaleFuture
CHECK_DEADLOCK FALSE
