SPECIFICATION Spec
CONSTANTS
 SeekBackF = 31
 SeekBackU = 24
INVARIANT Agree
