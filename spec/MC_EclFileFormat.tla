------------------------- MODULE MC_EclFileFormat -------------------------
(* Exhaustive design-level check of EclFileFormat: every type x every length *)
(* in Lengths as single arrays and as sequences of up to MaxArrs arrays.     *)
EXTENDS EclFileFormat
CONSTANTS Lengths, CWidths, MaxArrs
VARIABLES fmt, arrs
vars == <<fmt, arrs>>
LenAll == 0..2002
LenEdge == {0, 1, 105, 106, 1000, 1001}
LenDense == (0..12) \cup (102..108) \cup (207..213) \cup (997..1003) \cup (1997..2003)

WOf(t) == IF t = "C0NN" THEN CWidths ELSE IF t = "CHAR" THEN {8} ELSE {0}
Init == fmt \in BOOLEAN /\ arrs = <<>>
WriteArray(t, w, n) == /\ Len(arrs) < MaxArrs
                       /\ arrs' = Append(arrs, [t |-> t, w |-> w, n |-> n])
                       /\ UNCHANGED fmt
WriteMessage == /\ Len(arrs) < MaxArrs
                /\ arrs' = Append(arrs, [t |-> "MESS", w |-> 0, n |-> 0])
                /\ UNCHANGED fmt
Next == \/ \E t \in Types \ {"MESS"} : \E w \in WOf(t) : \E n \in Lengths : WriteArray(t, w, n)
        \/ WriteMessage
Spec == Init /\ [][Next]_vars

Laws == \A i \in 1..Len(arrs) : LayoutLaws(fmt, arrs[i].t, arrs[i].w, arrs[i].n)
FormsAgree == \A i \in 1..Len(arrs) : FormLaws(fmt, arrs[i].t, arrs[i].w, arrs[i].n)
IndexAgrees == \A i \in 1..Len(arrs) : ImplDataPos(fmt, arrs, i) = DataPos(fmt, arrs, i)
SeekFindsHeader == \A i \in 1..Len(arrs) : ImplSeekPos(fmt, arrs, i) = StartOf(fmt, arrs, i)
SizeIsSum == FileBytes(fmt, arrs) =
             SumSeq([i \in 1..Len(arrs) |-> ArrayBytes(fmt, arrs[i])])
=============================================================================
