-------------------------- MODULE Trace_ActionCond --------------------------
(* Trace validation, condition layer of C18: every evaluation of a real      *)
(* Action::AST / ActionX recorded by harness/actcond must return the truth   *)
(* value and matching-well set the reference meaning (ActionCond, part R)    *)
(* assigns to the logged tokens and summary values; the transcription of the *)
(* implementation (part I) must agree as well.                               *)
EXTENDS ActionCond, Json, IOUtils
TraceLog == ndJsonDeserialize(IOEnv.TRACE)
VARIABLE l
Ev == TraceLog[l]
IsEvent(e) == l <= Len(TraceLog) /\ TraceLog[l].e = e /\ l' = l + 1
ToSet(s) == {s[i] : i \in 1..Len(s)}

TWells == {"P1", "P2", "P3", "I1"}
\* well-name patterns used by the drivers; "*LST" / "*EMP" are well lists whose
\* content is fixed per run by the drivers ({P1, I1} and {})
\* a leading "*" followed by more characters names a well list; a pattern
\* that starts with "*" is written with a backslash
TPat == [x \in {"*", "P*", "I*", "\\*1", "*LST", "*EMP", "*NOL"} |->
           CASE x = "*" -> TWells [] x = "P*" -> {"P1", "P2", "P3"} [] x = "I*" -> {"I1"}
             [] x = "\\*1" -> {"P1", "I1"} [] x = "*NOL" -> {} [] x = "*LST" -> {"P1", "I1"} [] x = "*EMP" -> {}]
TNum == [x \in {"0", "1", "2", "3", "4", "5", "6", "7", "12", "2020", "2021", "-1"} |->
           CASE x = "0" -> 0 [] x = "1" -> 1 [] x = "2" -> 2 [] x = "3" -> 3 [] x = "4" -> 4 [] x = "5" -> 5
             [] x = "6" -> 6 [] x = "7" -> 7 [] x = "12" -> 12 [] x = "2020" -> 2020 [] x = "2021" -> 2021 [] x = "-1" -> -1]
\* pattern table of the logged case: fixed patterns over the harness' wells plus the logged well lists
TInit == l = 1
TReset == IsEvent("Reset")
Expected == Obs(REval(Ev.sv, Ev.toks))
EvalOk == /\ Ev.ok = TRUE
          /\ Ev.res = Expected.b
          /\ ToSet(Ev.wells) = Expected.wells
          /\ Ev.hasWellOk = TRUE
          /\ Obs(IEval(Ev.sv, Ev.toks)) = Expected
TEval == IsEvent("Eval") /\ EvalOk
TDiag == /\ l <= Len(TraceLog) /\ Ev.e = "Eval" /\ ~EvalOk
         /\ PrintT(<<"DIAG", l, [expected |-> Expected, impl |-> Obs(IEval(Ev.sv, Ev.toks)),
                                 got |-> <<Ev.res, Ev.wells>>]>>)
         /\ FALSE /\ UNCHANGED l
TNext == TReset \/ TEval \/ TDiag
TraceSpec == TInit /\ [][TNext]_l
TraceAccepted == TLCGet("stats").diameter - 1 = Len(TraceLog)
=============================================================================
