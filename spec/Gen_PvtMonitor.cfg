SPECIFICATION MSpec
CONSTANTS
 MaxNodes = 4
 MaxRegions = 2
INVARIANT WellFormed
CONSTRAINT Emit
CHECK_DEADLOCK FALSE
