----------------------------- MODULE WellStatus -----------------------------
(***************************************************************************)
(* Well and connection status - beyond the listed properties: WCONPROD /   *)
(* WCONINJE status, WELOPEN on the well and on connections, COMPDAT, the   *)
(* automatic shut-in at the end of a report step, and the events raised.   *)
(*                                                                         *)
(* A well starts SHUT without connections.  A request to OPEN a well that  *)
(* has no connections is ignored (STOP and AUTO are not).  WELOPEN with    *)
(* connection items only changes connections.  At the end of every report  *)
(* step a well that is not SHUT but whose connections are all SHUT is      *)
(* shut.  Every change of a well's status raises WELL_STATUS_CHANGE for    *)
(* the well in that step; a request to open (WELOPEN OPEN, or a control    *)
(* keyword leaving the well OPEN) raises REQUEST_OPEN_WELL; COMPDAT raises *)
(* COMPLETION_CHANGE for the well.                                         *)
(***************************************************************************)
EXTENDS Integers, Sequences, FiniteSets, TLC
CONSTANTS Wells, Layers, MaxOps, MaxSteps
Statuses == {"OPEN", "SHUT", "STOP", "AUTO"}
Empty == [k \in {} |-> "SHUT"]
\* ---- functional form: a state is [status, conns, evs]; evs = set of <<well, event>>
Fresh == [status |-> [w \in Wells |-> "SHUT"], conns |-> [w \in Wells |-> Empty], evs |-> {}]
SetStatus(st, w, s) ==
    IF DOMAIN st.conns[w] = {} /\ s = "OPEN" THEN st
    ELSE [st EXCEPT !.status[w] = s, !.evs = IF st.status[w] # s THEN @ \cup {<<w, "WELL_STATUS_CHANGE">>} ELSE @]
ApplyOp(st, o) ==
    CASE o.kw = "COMPDAT" ->
            [st EXCEPT !.conns[o.well] = [k \in DOMAIN @ \cup {o.k} |-> IF k = o.k THEN o.state ELSE @[k]],
                       !.evs = @ \cup {<<o.well, "COMPLETION_CHANGE">>}]
      [] o.kw = "WCON" ->
            LET s1 == SetStatus(st, o.well, o.status) IN
            [s1 EXCEPT !.evs = IF s1.status[o.well] = "OPEN" THEN @ \cup {<<o.well, "REQUEST_OPEN_WELL">>} ELSE @]
      [] o.kw = "WELOPEN" /\ o.k = -1 ->            \* no connection items: the well itself
            LET s1 == SetStatus(st, o.well, o.status) IN
            [s1 EXCEPT !.evs = IF o.status = "OPEN" THEN @ \cup {<<o.well, "REQUEST_OPEN_WELL">>} ELSE @]
      [] o.kw = "WELOPEN" ->                         \* k = 0: every connection, otherwise the connection in layer k
            [st EXCEPT !.conns[o.well] = [k \in DOMAIN @ |-> IF o.k = 0 \/ k = o.k THEN o.status ELSE @[k]]]
AllShut(c) == DOMAIN c # {} /\ \A k \in DOMAIN c : c[k] = "SHUT"
RECURSIVE ShutAll(_, _)
ShutAll(st, ws) == IF ws = {} THEN st
                   ELSE LET w == CHOOSE x \in ws : TRUE IN
                        ShutAll(IF AllShut(st.conns[w]) /\ st.status[w] # "SHUT" THEN SetStatus(st, w, "SHUT") ELSE st, ws \ {w})
EndOfStep(st) == ShutAll(st, Wells)
RECURSIVE ApplyAll(_, _)
ApplyAll(st, ops) == IF ops = <<>> THEN st ELSE ApplyAll(ApplyOp(st, Head(ops)), Tail(ops))
\* ---- the state machine
VARIABLES cur, prevStatus, step, nops, boundary
vars == <<cur, prevStatus, step, nops, boundary>>
Init == cur = Fresh /\ prevStatus = Fresh.status /\ step = 0 /\ nops = 0 /\ boundary = TRUE
Ops == [kw : {"COMPDAT"}, well : Wells, k : Layers, state : {"OPEN", "SHUT"}]
       \cup [kw : {"WCON"}, well : Wells, status : Statuses]
       \cup [kw : {"WELOPEN"}, well : Wells, k : {-1}, status : Statuses]
       \cup [kw : {"WELOPEN"}, well : Wells, k : {0} \cup Layers, status : {"OPEN", "SHUT"}]
Do(o) == /\ nops < MaxOps /\ nops' = nops + 1 /\ cur' = ApplyOp(cur, o) /\ boundary' = FALSE /\ UNCHANGED <<prevStatus, step>>
EndStep == /\ step < MaxSteps /\ step' = step + 1 /\ nops' = 0
           /\ LET e == EndOfStep(cur) IN
              /\ cur' = [e EXCEPT !.evs = {}]
              /\ prevStatus' = e.status
           /\ boundary' = TRUE
Next == (\E o \in Ops : Do(o)) \/ EndStep
Spec == Init /\ [][Next]_vars
\* ---- design properties
\* between report steps an OPEN well has a connection that is not shut
OpenMeansConnected == boundary => \A w \in Wells : cur.status[w] = "OPEN" => \E k \in DOMAIN cur.conns[w] : cur.conns[w][k] # "SHUT"
\* a status that differs from the one at the end of the previous step has been announced in this step
ChangeAnnounced == [][\A w \in Wells : (step' = step + 1 /\ EndOfStep(cur).status[w] # prevStatus[w]) => <<w, "WELL_STATUS_CHANGE">> \in EndOfStep(cur).evs]_vars
\* connections are never removed, and only the keywords naming them change them
ConnsGrow == [][\A w \in Wells : DOMAIN cur.conns[w] \subseteq DOMAIN cur'.conns[w]]_vars
=============================================================================
