SPECIFICATION Spec
CONSTANTS
  Lengths <- LenDense
  CWidths = {9, 16, 37, 77}
  MaxArrs = 1
  SeekBackF = 31
  SeekBackU = 24
INVARIANTS FormsAgree Laws IndexAgrees SeekFindsHeader SizeIsSum
