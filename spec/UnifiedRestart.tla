--------------------------- MODULE UnifiedRestart ---------------------------
(***************************************************************************)
(* A unified restart file (UNRST / FUNRST) under report-step writes with   *)
(* rewinds, and under truncation at an arbitrary byte ("crash").           *)
(*                                                                         *)
(* The file is modelled at array level on top of EclFileFormat: a sequence *)
(* of arrays, each carrying the ordinal `wid` of the write session that    *)
(* produced it (so two writes of the same report step are different data). *)
(* OpenWrite follows the steps of OutputStream::Restart::openUnified /     *)
(* openExisting: read the index of the existing file, lower_bound on the   *)
(* SEQNUM value, seekPosition of that SEQNUM array, resize_file to that    *)
(* position, append.  If the seek position is not an array boundary the    *)
(* cut-off remainder stays in the file as JUNK bytes - the model keeps     *)
(* them so that the invariants can see them.                               *)
(***************************************************************************)
EXTENDS EclFileFormat

CONSTANTS MaxStep,      \* report steps 0..MaxStep
          Payloads      \* set of payloads; a payload is a sequence of [name, t, w, n]

VARIABLES fmt,          \* formatted file?
          exists,       \* file exists on disk
          arrs,         \* content: sequence of [name, t, w, n, step, wid]  (t = "JUNK": n stray bytes)
          open,         \* a write session is open
          cur,          \* report step of the open / last session
          wid,          \* ordinal of the open / last session
          pre           \* content when the open / last session was opened
vars == <<fmt, exists, arrs, open, cur, wid, pre>>

Seqnum(s, k) == [name |-> "SEQNUM", t |-> "INTE", w |-> 0, n |-> 1, step |-> s, wid |-> k]
IsSeq(a) == a.name = "SEQNUM" /\ a.t = "INTE"
Junk(b) == [name |-> "", t |-> "JUNK", w |-> 0, n |-> b, step |-> -1, wid |-> 0]

ABytes(a) == IF a.t = "JUNK" THEN a.n ELSE ArrayBytes(fmt, a)
RECURSIVE AStart(_, _)
AStart(f, i) == IF i = 1 THEN 0 ELSE AStart(f, i - 1) + ABytes(f[i - 1])
AEnd(f, i) == AStart(f, i) + ABytes(f[i])
Bytes(f) == IF f = <<>> THEN 0 ELSE AEnd(f, Len(f))
HasJunk(f) == \E i \in 1..Len(f) : f[i].t = "JUNK"

\* report steps in file order
StepsOf(f) == LET idx == SelectSeq([i \in 1..Len(f) |-> i], LAMBDA i : IsSeq(f[i]))
              IN [k \in 1..Len(idx) |-> f[idx[k]].step]

\* ---- the reader's view used by the writer (ERst::restartStepWritePosition)
\* valid only for junk-free files, which is all the writer ever sees while
\* the invariants hold
SeekPos(f, i) == LET d == AStart(f, i) + Header(fmt)
                 IN IF d <= ImplSeekBack(fmt) THEN 0 ELSE d - ImplSeekBack(fmt)
Cands(f, s) == {i \in 1..Len(f) : IsSeq(f[i]) /\ f[i].step >= s}
LowerBound(f, s) == CHOOSE i \in Cands(f, s) : \A j \in Cands(f, s) : f[i].step <= f[j].step

\* resize_file(p): arrays that end at or before p survive; a cut-off remainder is junk
Truncate(f, p) ==
    LET keep == SelectSeq([i \in 1..Len(f) |-> i], LAMBDA i : AEnd(f, i) <= p)
        kept == [k \in 1..Len(keep) |-> f[keep[k]]]
        kb   == Bytes(kept)
    IN IF p > kb THEN Append(kept, Junk(p - kb)) ELSE kept

Init == /\ fmt \in BOOLEAN
        /\ exists = FALSE /\ arrs = <<>> /\ open = FALSE /\ cur = -1 /\ wid = 0 /\ pre = <<>>

OpenWrite(s) ==
    /\ ~open
    /\ open' = TRUE /\ cur' = s /\ wid' = wid + 1 /\ pre' = arrs /\ exists' = TRUE
    /\ LET base == IF ~exists THEN <<>>
                   ELSE IF Cands(arrs, s) = {} THEN arrs
                   ELSE Truncate(arrs, SeekPos(arrs, LowerBound(arrs, s)))
       IN arrs' = Append(base, Seqnum(s, wid + 1))
    /\ UNCHANGED fmt

WriteArray(a) ==
    /\ open
    /\ arrs' = Append(arrs, [name |-> a.name, t |-> a.t, w |-> a.w, n |-> a.n, step |-> -1, wid |-> wid])
    /\ UNCHANGED <<fmt, exists, open, cur, wid, pre>>

Close == /\ open /\ open' = FALSE /\ UNCHANGED <<fmt, exists, arrs, cur, wid, pre>>

\* one write session with a whole payload (used by the bounded model; the
\* trace specification uses the three fine-grained actions above)
RECURSIVE AppendAll(_, _, _)
AppendAll(f, p, k) == IF p = <<>> THEN f
                      ELSE AppendAll(Append(f, [name |-> Head(p).name, t |-> Head(p).t, w |-> Head(p).w,
                                                n |-> Head(p).n, step |-> -1, wid |-> k]), Tail(p), k)
WriteStep(s, p) ==
    /\ ~open
    /\ cur' = s /\ wid' = wid + 1 /\ pre' = arrs /\ exists' = TRUE
    /\ LET base == IF ~exists THEN <<>>
                   ELSE IF Cands(arrs, s) = {} THEN arrs
                   ELSE Truncate(arrs, SeekPos(arrs, LowerBound(arrs, s)))
       IN arrs' = AppendAll(Append(base, Seqnum(s, wid + 1)), p, wid + 1)
    /\ UNCHANGED <<fmt, open>>

Next == \/ \E s \in 0..MaxStep : OpenWrite(s)
        \/ \E p \in Payloads : \E i \in 1..Len(p) : WriteArray(p[i])
        \/ Close
Spec == Init /\ [][Next]_vars
NextCoarse == \E s \in 0..MaxStep : \E p \in Payloads : WriteStep(s, p)
SpecCoarse == Init /\ [][NextCoarse]_vars

(* ----------------------------------------------------------------------- *)
(* Properties (C08), evaluated whenever no session is open                 *)
(* ----------------------------------------------------------------------- *)
Increasing(q) == \A i \in 1..(Len(q) - 1) : q[i] < q[i + 1]
\* arrays belonging to report steps smaller than s, in file order
RECURSIVE Below(_, _, _)
Below(f, s, inStep) ==
    IF f = <<>> THEN <<>>
    ELSE LET a == Head(f)
             st == IF IsSeq(a) THEN a.step ELSE inStep
         IN IF st < s /\ a.t # "JUNK" THEN <<a>> \o Below(Tail(f), s, st) ELSE <<>>

NoJunk == ~HasJunk(arrs)
StepsIncreasing == ~open => Increasing(StepsOf(arrs))
JustWrittenIsLast == (~open /\ exists) => LET q == StepsOf(arrs) IN q # <<>> /\ q[Len(q)] = cur
EarlierPreserved == (~open /\ exists) => Below(pre, cur, -1) = SubSeq(arrs, 1, Len(Below(pre, cur, -1)))
\* "equals a fresh file holding the surviving steps": nothing but the kept
\* arrays of smaller steps followed by the session just written
EqualsFresh == (~open /\ exists) =>
    /\ NoJunk
    /\ LET k == Len(Below(pre, cur, -1)) IN
         /\ k < Len(arrs) /\ IsSeq(arrs[k + 1]) /\ arrs[k + 1].step = cur
         /\ \A i \in (k + 1)..Len(arrs) : arrs[i].wid = wid

(* ----------------------------------------------------------------------- *)
(* Reading a file truncated at byte b (unformatted), as the reader does it *)
(* ----------------------------------------------------------------------- *)
\* EclFile::load walks the headers: at an array boundary with fewer than 4
\* bytes left it sees end of file; with 4..Header-1 bytes left the header
\* record is incomplete and the constructor throws.
OpenFails(f, b) == \E i \in 1..Len(f) :
                      LET r == b - AStart(f, i) IN r >= 4 /\ r < Header(fmt)
\* arrays whose header is wholly inside the first b bytes are in the index
Indexed(f, b, i) == AStart(f, i) + Header(fmt) <= b
Whole(f, b, i) == AEnd(f, i) <= b
\* ERst's constructor loads every indexed SEQNUM array
CtorFails(f, b) == OpenFails(f, b)
                   \/ \E i \in 1..Len(f) : IsSeq(f[i]) /\ Indexed(f, b, i) /\ ~Whole(f, b, i)
\* outcome of reading array i of the original file from the truncated copy
ReadOutcome(f, b, i) == IF CtorFails(f, b) THEN "error"
                        ELSE IF ~Indexed(f, b, i) THEN "error"
                        ELSE IF Whole(f, b, i) THEN "exact"
                        ELSE IF f[i].n = 0 THEN "exact" ELSE "error"
\* crash classes: offsets around every array start, header end and array end
CrashPoints(f) == UNION { { AStart(f, i) + d : d \in {0, 1, 3, 4, 5, Header(fmt) - 1, Header(fmt), Header(fmt) + 1} }
                          \cup { AEnd(f, i) - d : d \in {0, 1, 4, 5} } : i \in 1..Len(f) }
NeverWrong == \A b \in CrashPoints(arrs) : \A i \in 1..Len(arrs) :
                 /\ ReadOutcome(arrs, b, i) \in {"exact", "error"}
                 \* an array that reads back exactly lies wholly inside the surviving bytes
                 /\ (ReadOutcome(arrs, b, i) = "exact" /\ arrs[i].n > 0) => AEnd(arrs, i) <= b
=============================================================================
