SPECIFICATION TraceSpec
CONSTANTS
  Wells = {"W1", "W2"}
  Layers = {1, 2, 3}
  MaxOps = 100000
  MaxSteps = 100000
POSTCONDITION TraceAccepted
CHECK_DEADLOCK FALSE
