---------------------------- MODULE SummaryFile ----------------------------
(***************************************************************************)
(* Summary result files (property C10).                                    *)
(*                                                                         *)
(* Part 1 (design level): the legacy reader addresses single values inside *)
(* a PARAMS array by offset arithmetic (ESmry::loadData(vectList)); the    *)
(* formulas are transcribed here and checked against the published layout  *)
(* of a REAL array (EclFileFormat) for every vector count and index.       *)
(*                                                                         *)
(* Part 2 (state machine): runs are written as sequences of ministeps      *)
(* (report step, cumulative time); a run may continue a base run from a    *)
(* restart step.  Readers present a time axis: the base run's ministeps up *)
(* to the restart step followed by the run's own ministeps; the base run   *)
(* may itself continue an earlier run (a chain of three), in which case    *)
(* the earlier run contributes up to the base run's restart step.          *)
(***************************************************************************)
EXTENDS EclFileFormat

(* ---- part 1 ---- *)
\* offset of element i (0-based) of a REAL array of n elements relative to the start of its data
LayoutPosU(i) == LET b == i \div 1000 IN 4 + b * (4000 + 8) + 4 * (i % 1000)
LayoutPosF(i) == LET b == i \div 1000  r == i % 1000 IN b * (1000 * 17 + 250) + 17 * r + r \div 4
\* as the reader computes it (unformatted: record markers counted per 1000 elements;
\* formatted: "blocks" of 4000 elements of 69000 characters)
ImplPosU(i) == LET nFull == i \div (4000 \div 4) IN (2 * nFull + 1) * 4 + i * 4
ImplPosF(i) == LET nBlocks == i \div 4000  rest == i % 4000
                   blockSize == 1000 * 4 * 17 + (4000 \div 4)
               IN (IF nBlocks > 0 THEN nBlocks * blockSize ELSE 0) + rest * 17 + rest \div 4
OffsetsAgree(i) == ImplPosU(i) = LayoutPosU(i) /\ ImplPosF(i) = LayoutPosF(i)

(* ---- part 2 ---- *)
\* a run: [n vectors, steps : seq of [rs, t], restart : [has, step]]
VARIABLES base, run, haveBase,
          base0         \* the run the base run continues, or NoRun
svars == <<base, run, haveBase, base0>>
NoRun == [n |-> 0, steps |-> <<>>]
SInit == base = NoRun /\ run = NoRun /\ haveBase = FALSE /\ base0 = NoRun
WriteBase0(n, steps) == base0' = [n |-> n, steps |-> steps] /\ UNCHANGED <<base, run, haveBase>>
\* (rstep0: the report step of base0 the base run continues from; 0 without base0)
WriteBase(n, steps, rstep0) == base' = [n |-> n, steps |-> steps, rstep0 |-> rstep0] /\ haveBase' = TRUE /\ UNCHANGED <<run, base0>>
WriteRun(n, steps, rstep) == run' = [n |-> n, steps |-> steps, rstep |-> rstep] /\ UNCHANGED <<base, haveBase, base0>>
\* time axis a reader presents
Axis(withBase) == IF withBase /\ haveBase
                  THEN (IF base0 = NoRun THEN <<>> ELSE SelectSeq(base0.steps, LAMBDA s : s.rs <= base.rstep0))
                       \o SelectSeq(base.steps, LAMBDA s : s.rs <= run.rstep) \o run.steps
                  ELSE run.steps
Times(ax) == [k \in 1..Len(ax) |-> ax[k].t]
\* positions (1-based) of the last ministep of every report step
RstepPos(ax) == SelectSeq([k \in 1..Len(ax) |-> k], LAMBDA k : k = Len(ax) \/ ax[k + 1].rs # ax[k].rs)
=============================================================================
