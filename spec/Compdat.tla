------------------------------ MODULE Compdat ------------------------------
(***************************************************************************)
(* The connection created by one COMPDAT record (property C06): which of   *)
(* the transmissibility factor CF, the permeability-thickness Kh and the   *)
(* pressure-equivalent radius r0 is taken from the record and which is     *)
(* derived from the others and from the cell by Peaceman's formula         *)
(*        CF (ln(r0 / rw) + S) = 2 pi Kh .                                 *)
(* Values are terms over named inputs (cell size dx dy dz, permeabilities  *)
(* kx ky kz, net-to-gross ntg, skin, diam, and the explicit record entries *)
(* cf_in kh_in r0_in), evaluated numerically by the harness.               *)
(***************************************************************************)
EXTENDS DualNumbers

V(name) == [t |-> "v", name |-> name]
TwoPi == F("twopi", <<>>)
Half == Q(1, 2)
Quarter == Q(1, 4)
\* direction permutation: the first two entries are perpendicular to the completion, the third along it
PermOf(dir) == CASE dir = "X" -> <<2, 3, 1>> [] dir = "Y" -> <<3, 1, 2>> [] dir = "Z" -> <<1, 2, 3>>
\* net-to-gross scales the vertical extent of the cell
Extent(dir) == LET e == <<V("dx"), V("dy"), TMul(V("dz"), V("ntg"))>>  p == PermOf(dir) IN <<e[p[1]], e[p[2]], e[p[3]]>>
Perms(dir) == LET k == <<V("kx"), V("ky"), V("kz")>>  p == PermOf(dir) IN <<k[p[1]], k[p[2]], k[p[3]]>>
Ke(dir) == LET K == Perms(dir) IN TFn("sqrt", TMul(K[1], K[2]))
\* Peaceman's equivalent radius of the cell for an anisotropic medium
R0Cell(dir) ==
    LET K == Perms(dir)  D == Extent(dir)
        k12 == TDiv(K[1], K[2])  k21 == TDiv(K[2], K[1])
        num == TFn("sqrt", TAdd(TMul(TFn("sqrt", k21), TMul(D[1], D[1])), TMul(TFn("sqrt", k12), TMul(D[2], D[2]))))
        den == TAdd(TFn2("pow", k12, Quarter), TFn2("pow", k21, Quarter))
    IN TMul(Q(28, 100), TDiv(num, den))
Rw(rec) == IF rec.diam = "explicit" THEN TMul(Half, V("diam")) ELSE V("half_foot")
Skin == V("skin")
Denom(r0, rw) == TAdd(TFn("log", TDiv(r0, TFn2("min", rw, r0))), Skin)
\* r0 such that the relation holds for given CF and Kh
R0From(cf, kh, rw) == TMul(rw, TFn("exp", TSub(TDiv(TMul(TwoPi, kh), cf), Skin)))

\* rec: [cf : "explicit" | "default", kh : "explicit" | "default" | "zero", r0 : "explicit" | "default",
\*       diam : "explicit" | "default", dir : "X" | "Y" | "Z"]
Connection(rec) ==
    LET rw == Rw(rec)
        r0geo == IF rec.r0 = "explicit" THEN V("r0_in") ELSE R0Cell(rec.dir)
        khgeo == TMul(Ke(rec.dir), Extent(rec.dir)[3])
    IN
    IF rec.cf = "explicit" /\ rec.kh = "explicit"
    THEN \* both given: r0 is what makes the relation hold (an r0 entered in the record is not used)
         [cf |-> V("cf_in"), kh |-> V("kh_in"), rw |-> rw, r0 |-> R0From(V("cf_in"), V("kh_in"), rw)]
    ELSE IF rec.kh = "explicit"
    THEN [cf |-> TDiv(TMul(TwoPi, V("kh_in")), Denom(r0geo, rw)), kh |-> V("kh_in"), rw |-> rw, r0 |-> r0geo]
    ELSE IF rec.cf = "explicit"
    THEN IF rec.kh = "default"
         THEN \* Kh compatible with the given factor and radius
              [cf |-> V("cf_in"), kh |-> TDiv(TMul(V("cf_in"), Denom(r0geo, rw)), TwoPi), rw |-> rw, r0 |-> r0geo]
         ELSE \* Kh = 0 entered: Kh from the cell, r0 compatible with CF and that Kh
              [cf |-> V("cf_in"), kh |-> khgeo, rw |-> rw, r0 |-> R0From(V("cf_in"), khgeo, rw)]
    ELSE [cf |-> TDiv(TMul(TwoPi, khgeo), Denom(r0geo, rw)), kh |-> khgeo, rw |-> rw, r0 |-> r0geo]

\* the Peaceman relation as a pair of terms that must evaluate to the same number
Relation(c) == <<TMul(c.cf, TAdd(TFn("log", TDiv(c.r0, c.rw)), Skin)), TMul(TwoPi, c.kh)>>
Records == [cf : {"explicit", "default"}, kh : {"explicit", "default", "zero"}, r0 : {"explicit", "default"},
            diam : {"explicit", "default"}, dir : {"X", "Y", "Z"}]
\* where CF, Kh and r0 are all entered, the record over-determines the relation: CF and Kh win
OverDetermined(rec) == rec.cf = "explicit" /\ rec.kh = "explicit" /\ rec.r0 = "explicit"
=============================================================================
