SPECIFICATION Spec
CONSTANTS
  Names = {"FIELD", "G1", "G2"}
  MaxOps = 6
INVARIANTS OneUptree EndsExist OrderOk NoSelfLoop StandardFollowsTree
CHECK_DEADLOCK FALSE
