------------------------- MODULE Trace_Serialization -------------------------
(* Trace validation for C11: the field logs of the four traversals of a real  *)
(* object, zipped by position and run-length compressed, must be a behaviour  *)
(* in which every position carries the same field in the first three passes,  *)
(* the End event must report the exact buffer use, equality and equal meaning.*)
EXTENDS Integers, Sequences, TLC, Json, IOUtils
TraceLog == ndJsonDeserialize(IOEnv.TRACE)
VARIABLES l, off, roff, nfields
tvars == <<l, off, roff, nfields>>
Ev == TraceLog[l]
IsEvent(e) == l <= Len(TraceLog) /\ TraceLog[l].e = e /\ l' = l + 1
TInit == l = 1 /\ off = 0 /\ roff = 0 /\ nfields = 0
TReset == IsEvent("Reset") /\ off' = 0 /\ roff' = 0 /\ nfields' = 0
\* size, pack and unpack pass run over the same object state in the same order; the unpacked object may hold its
\* unordered containers in another order, so its pack pass is only required to produce the same fields as a
\* multiset (sameFields in the End event) and the same number of bytes
FieldOk == Ev.size = Ev.pack /\ Ev.pack = Ev.unpack /\ Ev.pack[1] \in 1..5 /\ Ev.repack[1] \in 1..5
TField == IsEvent("Field") /\ FieldOk /\ off' = off + Ev.c * Ev.pack[2] /\ roff' = roff + Ev.c * Ev.repack[2] /\ nfields' = nfields + Ev.c
EndOk == \/ Ev.res = "skipped"
         \/ /\ Ev.res = "ok" /\ Ev.packLen = off /\ Ev.consumed = off /\ Ev.repackLen = off /\ roff = off /\ Ev.fields = nfields
            /\ Ev.equal = TRUE /\ Ev.sameFields = TRUE /\ Ev.queriesSame = TRUE
TEnd == IsEvent("End") /\ EndOk /\ UNCHANGED <<off, roff, nfields>>
TDiag == /\ l <= Len(TraceLog) /\ ((Ev.e = "Field" /\ ~FieldOk) \/ (Ev.e = "End" /\ ~EndOk))
         /\ PrintT(<<"DIAG", l, [offset |-> off, fields |-> nfields]>>)
         /\ FALSE /\ UNCHANGED tvars
TNext == TReset \/ TField \/ TEnd \/ TDiag
TraceSpec == TInit /\ [][TNext]_tvars
TraceAccepted == TLCGet("stats").diameter - 1 = Len(TraceLog)
=============================================================================
