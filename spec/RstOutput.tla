------------------------------ MODULE RstOutput ------------------------------
(***************************************************************************)
(* Which report steps get restart output, and with which extra arrays -    *)
(* beyond the listed properties: RSTConfig (RPTRST / RPTSCHED / RPTSOL),   *)
(* the SAVE keyword, ScheduleState::rst_file and the Schedule's record of  *)
(* output events as one state machine.                                     *)
(*                                                                         *)
(* The configuration is (BASIC, FREQ, a three-valued "write" decision and  *)
(* the requested arrays).  BASIC 0 = never, 1 / 2 = every report step,     *)
(* 3 = every FREQ-th report step, 4 / 5 = the first report step of a year  *)
(* / month when at least FREQ years / months have passed since the last    *)
(* output (the start of the run when there was none).  Output at report    *)
(* step k >= 1 is decided by the configuration at the end of block k - 1   *)
(* (the keywords in force during the time step that ends at k); output at  *)
(* step 0 by the SOLUTION section.  SAVE in block k writes at step k        *)
(* whatever the configuration, and does not count as an output event.      *)
(***************************************************************************)
EXTENDS Integers, Sequences, FiniteSets, TLC
CONSTANTS MaxSteps, MaxKw
None == -1                         \* an optional integer that is not set
AllProps == {"BG", "BO", "BW", "KRG", "KRO", "KRW", "VOIL", "VGAS", "VWAT", "DEN"}
Over(f, g) == [n \in DOMAIN f \cup DOMAIN g |-> IF n \in DOMAIN g THEN g[n] ELSE f[n]]
Without(f, S) == [n \in DOMAIN f \ S |-> f[n]]
Empty == [n \in {} |-> 0]
Expand(m) == IF "ALLPROPS" \in DOMAIN m THEN Over(Without(m, {"ALLPROPS"}), [n \in AllProps |-> m["ALLPROPS"]]) ELSE m
Min2(a, b) == IF a < b THEN a ELSE b
WriteFor(b, old) == IF b = None THEN old ELSE IF b = 0 THEN "no" ELSE IF b \in {1, 2} THEN "yes" ELSE "none"
\* RSTConfig::update_schedule
US(c, b, f) == LET nb == IF b # None THEN b ELSE c.basic
                   nf == IF f # None THEN f ELSE c.freq
               IN [c EXCEPT !.basic = nb, !.freq = nf, !.write = WriteFor(nb, c.write)]
\* ---- the positional integer style: RPTRST i1 i2 ... / and RPTSCHED i1 i2 ... /  (fewer than 26 integers)
RstIntNames == <<"BASIC", "FLOWS", "FIP", "POT", "PBPD", "FREQ", "PRES", "VISC", "DEN">>
SchedIntNames == <<"PRES", "SOIL", "SWAT", "SGAS", "RS", "RV", "RESTART", "FIP", "WELLS">>
\* RPTRST: a zero in the first position means "leave BASIC alone"; every other position is taken as it is, zeros included
RstIntMn(ints) == [n \in {RstIntNames[i] : i \in {j \in DOMAIN ints : j > 1 \/ ints[j] # 0}} |->
                      ints[CHOOSE i \in DOMAIN ints : RstIntNames[i] = n]]
SchedIntMn(ints) == [n \in {SchedIntNames[i] : i \in DOMAIN ints} |-> ints[CHOOSE i \in DOMAIN ints : SchedIntNames[i] = n]]
Get(m, n) == IF n \in DOMAIN m THEN m[n] ELSE None
Norm(o) == CASE o.op = "RPTRSTI" -> LET m == RstIntMn(o.ints) IN
                                    [op |-> "RPTRST", basic |-> Get(m, "BASIC"), freq |-> Get(m, "FREQ"), mn |-> Without(m, {"BASIC", "FREQ"})]
             [] o.op = "RPTSCHEDI" -> LET m == SchedIntMn(o.ints) IN
                                      [op |-> "RPTSCHED", nothing |-> FALSE, restart |-> Get(m, "RESTART"), mn |-> Without(m, {"RESTART"})]
             [] OTHER -> o
Cfg0 == [basic |-> None, freq |-> None, write |-> "no", kw |-> Empty, solonly |-> {}]
\* ---- SOLUTION section
SolApply(c, oo) ==
    LET o == Norm(oo) IN
    IF o.op = "RPTRST"
    THEN LET m == Expand(o.mn) c1 == US(c, o.basic, o.freq)
         IN [c1 EXCEPT !.kw = Over(c.kw, m), !.solonly = c.solonly \ DOMAIN m, !.write = "yes"]
    ELSE \* RPTSOL: only RESTART > 1 asks for output at time zero, and only then are its other mnemonics kept
         LET req == o.restart # None /\ o.restart > 1
         IN IF req THEN [c EXCEPT !.write = "yes", !.kw = Over(c.kw, o.mn), !.solonly = c.solonly \cup DOMAIN o.mn]
            ELSE c
RECURSIVE SolAll(_, _)
SolAll(c, ops) == IF ops = <<>> THEN c ELSE SolAll(SolApply(c, Head(ops)), Tail(ops))
\* RSTConfig::first: what the SCHEDULE section starts from
First(c) == [basic |-> c.basic, freq |-> c.freq, write |-> WriteFor(c.basic, "no"), kw |-> Without(c.kw, c.solonly), solonly |-> {}]
\* ---- SCHEDULE section keywords
Apply(c, oo) ==
    LET o == Norm(oo) IN
    CASE o.op = "RPTRST" -> [US(c, o.basic, o.freq) EXCEPT !.kw = Over(c.kw, Expand(o.mn))]
      [] o.op = "RPTSCHED" ->
            LET c1 == IF o.nothing THEN [c EXCEPT !.basic = None, !.kw = Empty] ELSE c      \* (the write decision stays as it was)
                low == (IF c1.basic = None THEN 2 ELSE c1.basic) <= 2
                c2 == IF low /\ o.restart # None THEN US(c1, Min2(2, o.restart), 1) ELSE c1
                extra == IF ~low /\ o.restart # None THEN [n \in {"RESTART"} |-> o.restart] ELSE Empty
            IN [c2 EXCEPT !.kw = Over(Over(c1.kw, o.mn), extra)]
      [] OTHER -> c              \* SAVE does not touch the configuration
RECURSIVE ApplyAll(_, _)
ApplyAll(c, ops) == IF ops = <<>> THEN c ELSE ApplyAll(Apply(c, Head(ops)), Tail(ops))
HasSave(ops) == \E i \in 1..Len(ops) : ops[i].op = "SAVE"
\* ---- the decision for report step k (ScheduleState::rst_file)
Year(m) == m \div 12
Decide(c, k, ymK, ymPrevStep, ymLastOut) ==
    IF c.write # "none" THEN c.write = "yes"
    ELSE LET f == IF c.freq = None \/ c.freq < 1 THEN 1 ELSE c.freq
             b == IF c.basic = None THEN 0 ELSE c.basic
         IN CASE b = 0 -> FALSE
              [] b = 3 -> k % f = 0
              [] b = 4 -> Year(ymK) > Year(ymPrevStep) /\ Year(ymK) - Year(ymLastOut) >= f
              [] b = 5 -> ymK > ymPrevStep /\ ymK - ymLastOut >= f
              [] OTHER -> FALSE          \* (BASIC > 5 is refused when the schedule is built; never generated)
EffFreq(c) == IF c.freq = None \/ c.freq < 1 THEN 1 ELSE c.freq
Mode(c) == IF c.write = "yes" THEN "always" ELSE IF c.write = "no" THEN "never"
           ELSE IF c.basic = None THEN "never" ELSE CASE c.basic = 0 -> "never" [] c.basic = 3 -> "nth" [] c.basic = 4 -> "yearly" [] c.basic = 5 -> "monthly" [] OTHER -> "never"
VARIABLES k,        \* the report step whose block is being read
          cfg,      \* configuration of snapshot k so far
          events,   \* report steps with a restart output event
          saves,    \* report steps with SAVE
          ym,       \* sequence: month index (12 * year + month - 1) of report steps 0..k
          decided,  \* report step -> the mode and frequency that decided it (for the properties below)
          nkw, hist
vars == <<k, cfg, events, saves, ym, decided, nkw, hist>>
Max(S) == CHOOSE x \in S : \A y \in S : y <= x
LastOutBefore(ev, j) == IF {e \in ev : e < j} = {} THEN 0 ELSE Max({e \in ev : e < j})
Names == {"FIP", "KRO", "RSSAT"}
MnChoices == {Empty} \cup {[n \in {a} |-> v] : a \in Names, v \in {1, 2}} \cup {[n \in {"FIP", "KRO"} |-> 2]}
RstOps == [op : {"RPTRST"}, basic : {None, 0, 1, 2, 3, 4, 5}, freq : {None, 0, 1, 2, 3}, mn : MnChoices \cup {[n \in {"ALLPROPS"} |-> 2]}]
SchedOps == [op : {"RPTSCHED"}, nothing : BOOLEAN, restart : {None, 0, 1, 2, 3}, mn : MnChoices]
SolOps == [op : {"RPTSOL"}, restart : {None, 1, 2}, mn : MnChoices]
IntOps == [op : {"RPTRSTI"}, ints : {<<2>>, <<0>>, <<3, 0, 1>>, <<0, 1, 1, 0, 0, 2>>, <<4, 0, 0, 0, 0, 0, 1>>}]
          \cup [op : {"RPTSCHEDI"}, ints : {<<1, 1>>, <<0, 0, 0, 0, 0, 0, 2>>, <<0, 0, 0, 0, 0, 0, 0, 1, 1>>, <<0, 0, 0, 0, 0, 0, 1, 2>>}]
SaveOp == [op |-> "SAVE"]
StartMonths == {0, 10, 11}
Dms == {0, 1, 2, 7, 12, 14, 25}       \* months from one report step to the next (0: later in the same month)
Init == /\ k = 0 /\ nkw = 0 /\ saves = {} /\ decided = Empty
        /\ \E sol \in {<<>>} \cup {<<o>> : o \in RstOps \cup SolOps} \cup {<<a, b>> : a \in SolOps, b \in RstOps} \cup {<<b, a>> : a \in SolOps, b \in RstOps},
              m0 \in StartMonths :
              LET s == SolAll(Cfg0, sol) IN
              /\ cfg = First(s)
              /\ events = IF s.write = "yes" THEN {0} ELSE {}
              /\ ym = <<2020 * 12 + m0>>
              /\ hist = [sol |-> sol, m0 |-> m0, blocks |-> <<>>, cur |-> <<>>, kw0 |-> s.kw]
Kw(o) == /\ nkw < MaxKw /\ nkw' = nkw + 1
         /\ cfg' = Apply(cfg, o)
         /\ saves' = IF o.op = "SAVE" THEN saves \cup {k} ELSE saves
         /\ hist' = [hist EXCEPT !.cur = Append(@, o)]
         /\ UNCHANGED <<k, events, ym, decided>>
Advance(dm) ==
    /\ k < MaxSteps
    /\ LET ymK == ym[k + 1] + dm
           d == Decide(cfg, k + 1, ymK, ym[k + 1], ym[LastOutBefore(events, k + 1) + 1])
       IN /\ events' = IF d THEN events \cup {k + 1} ELSE events
          /\ ym' = Append(ym, ymK)
    /\ decided' = [j \in DOMAIN decided \cup {k + 1} |-> IF j = k + 1 THEN [mode |-> Mode(cfg), f |-> EffFreq(cfg)] ELSE decided[j]]
    /\ k' = k + 1 /\ nkw' = 0
    /\ hist' = [hist EXCEPT !.blocks = Append(@, [ops |-> hist.cur, dm |-> dm]), !.cur = <<>>]
    /\ UNCHANGED <<cfg, saves>>
Next == \/ \E o \in RstOps \cup SchedOps \cup IntOps \cup {SaveOp} : Kw(o)
        \/ \E dm \in Dms : Advance(dm)
Spec == Init /\ [][Next]_vars
\* what a simulator asks (Schedule::write_rst_file)
Writes(j) == j \in events \/ j \in saves
\* ---- design properties
Steps == {j \in 1..k : j \in DOMAIN decided}
\* every step decided by "always" is written, none decided by "never" has an event
AlwaysNever == \A j \in Steps : (decided[j].mode = "always" => j \in events) /\ (decided[j].mode = "never" => j \notin events)
\* BASIC=3: exactly the multiples of FREQ
Nth == \A j \in Steps : decided[j].mode = "nth" => (j \in events <=> j % decided[j].f = 0)
\* BASIC=4 / 5: only first steps of a year / month, spaced by at least FREQ years / months from the previous output event
Spaced == \A j \in Steps \cap events :
            /\ decided[j].mode = "yearly" => Year(ym[j + 1]) > Year(ym[j]) /\ Year(ym[j + 1]) - Year(ym[LastOutBefore(events, j) + 1]) >= decided[j].f
            /\ decided[j].mode = "monthly" => ym[j + 1] > ym[j] /\ ym[j + 1] - ym[LastOutBefore(events, j) + 1] >= decided[j].f
\* with FREQ <= 1 no year / month that has a first report step is skipped
NoneSkipped == \A j \in Steps :
            /\ decided[j].mode = "yearly" /\ decided[j].f = 1 /\ Year(ym[j + 1]) > Year(ym[j]) => j \in events
            /\ decided[j].mode = "monthly" /\ decided[j].f = 1 /\ ym[j + 1] > ym[j] => j \in events
\* an output event, once recorded, stays: later input never changes earlier decisions
EventsGrow == [][events \subseteq events' /\ saves \subseteq saves']_vars
=============================================================================
