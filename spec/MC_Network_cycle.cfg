SPECIFICATION Spec
CONSTANTS
  Names = {"FIELD", "G1", "G2"}
  MaxOps = 3
INVARIANTS Acyclic
CHECK_DEADLOCK FALSE
