SPECIFICATION Spec
CONSTANTS
  Lengths <- LenEdge
  CWidths = {9, 37}
  MaxArrs = 2
  SeekBackF = 31
  SeekBackU = 24
CONSTRAINT Emit
