SPECIFICATION Spec
CONSTANTS
  Wells <- MCWells
  InputOrder <- MCInput
  FreeOrder <- NoWells
  FreeCells <- NoWells
  NK = 2
  MaxOps = 3
  MaxSteps = 2
INVARIANTS Numbering Ordered
PROPERTIES OnlyTargeted MultOnlyGrows
CHECK_DEADLOCK FALSE
