------------------------ MODULE Trace_UnifiedRestart ------------------------
(* Trace validation: executions of the real OutputStream::Restart / ERst      *)
(* recorded by harness/urst are behaviours of UnifiedRestart.                 *)
EXTENDS UnifiedRestart, Json, IOUtils
TraceLog == ndJsonDeserialize(IOEnv.TRACE)
VARIABLE l
tvars == <<vars, l>>
Ev == TraceLog[l]
IsEvent(e) == l <= Len(TraceLog) /\ TraceLog[l].e = e /\ l' = l + 1

TInit == /\ l = 1 /\ fmt = FALSE
         /\ exists = FALSE /\ arrs = <<>> /\ open = FALSE /\ cur = -1 /\ wid = 0 /\ pre = <<>>
TReset == /\ IsEvent("Reset") /\ fmt' = Ev.fmt
          /\ exists' = FALSE /\ arrs' = <<>> /\ open' = FALSE /\ cur' = -1 /\ wid' = 0 /\ pre' = <<>>
TOpen == IsEvent("Open") /\ Ev.res = "ok" /\ OpenWrite(Ev.step)
TWrite == /\ IsEvent("Write") /\ Ev.res = "ok"
          /\ WriteArray([name |-> Ev.name, t |-> Ev.t, w |-> Ev.w, n |-> Ev.n])
ObsMatches(obs, f) == /\ Len(obs) = Len(f)
                      /\ \A i \in 1..Len(f) : /\ obs[i].name = f[i].name /\ obs[i].t = f[i].t
                                              /\ obs[i].w = f[i].w /\ obs[i].n = f[i].n
                                              /\ obs[i].step = f[i].step
TClose == /\ IsEvent("Close") /\ Close
          /\ Ev.scan = "ok" /\ Ev.eqFresh = TRUE
          /\ Ev.len = Bytes(arrs)
          /\ ObsMatches(Ev.obs, arrs)
          /\ Ev.steps = StepsOf(arrs)
TCrash == /\ IsEvent("CrashRead") /\ UNCHANGED vars
          /\ Len(Ev.reads) = Len(arrs)
          /\ \A i \in 1..Len(arrs) : Ev.reads[i] = ReadOutcome(arrs, Ev.at, i)
TNext == TReset \/ TOpen \/ TWrite \/ TClose \/ TCrash
TraceSpec == TInit /\ [][TNext]_tvars
TraceAccepted == TLCGet("stats").diameter - 1 = Len(TraceLog)
=============================================================================
