--------------------------- MODULE EclFileFormat ---------------------------
(***************************************************************************)
(* On-disk layout of Eclipse array files (restart, summary, init, grid).   *)
(*                                                                         *)
(* Part 1 is the PUBLISHED layout (reference): big-endian Fortran records  *)
(* with equal head and tail byte counts, a 16-byte header record per       *)
(* array, data in sub-blocks of at most 1000 numeric / 105 string          *)
(* elements; formatted files: a 30 character header line plus newline and  *)
(* fixed-width columns.  Nothing in part 1 is taken from opm-common.       *)
(*                                                                         *)
(* Part 2 transcribes the size arithmetic the IMPLEMENTATION uses for      *)
(* seeking (EclUtil.cpp sizeOnDiskBinary / sizeOnDiskFormatted,            *)
(* EclFile::seekPosition), so that TLC can check the two against each      *)
(* other for every type and length (design level).                         *)
(*                                                                         *)
(* Part 3 is the state machine: a file is the sequence of arrays written   *)
(* so far; the reader's index is a function of it.                         *)
(***************************************************************************)
EXTENDS Integers, Sequences, FiniteSets, TLC

Types == {"INTE", "REAL", "DOUB", "LOGI", "CHAR", "C0NN", "MESS"}

Min2(a, b) == IF a < b THEN a ELSE b
CeilDiv(a, b) == (a + b - 1) \div b

RECURSIVE SumSeq(_)
SumSeq(s) == IF s = <<>> THEN 0 ELSE Head(s) + SumSeq(Tail(s))

(* ----------------------------------------------------------------------- *)
(* Part 1: published layout                                                *)
(* ----------------------------------------------------------------------- *)
\* bytes per element in an unformatted file; w = element width of C0nn
ElemBytes(t, w) == CASE t \in {"INTE", "REAL", "LOGI"} -> 4
                     [] t = "DOUB" -> 8
                     [] t = "CHAR" -> 8
                     [] t = "C0NN" -> w
                     [] t = "MESS" -> 0
BlockElems(t) == IF t \in {"CHAR", "C0NN"} THEN 105 ELSE 1000

\* element counts of the sub-blocks of an array of n elements
RECURSIVE Blocks(_, _)
Blocks(t, n) == IF n = 0 \/ t = "MESS" THEN <<>>
                ELSE LET k == Min2(n, BlockElems(t)) IN <<k>> \o Blocks(t, n - k)

\* unformatted: payload byte count of every data record
FramesU(t, w, n) == LET b == Blocks(t, n) IN [i \in 1..Len(b) |-> b[i] * ElemBytes(t, w)]
HeaderU == 4 + 16 + 4
\* constructive definition (sum over the records) ...
DataBytesU_sum(t, w, n) == LET f == FramesU(t, w, n) IN SumSeq([i \in 1..Len(f) |-> f[i] + 8])

\* formatted: columns per line and characters per column
Cols(t, w) == CASE t = "INTE" -> 6 [] t = "REAL" -> 4 [] t = "DOUB" -> 3 [] t = "LOGI" -> 25
                [] t = "CHAR" -> 7 [] t = "C0NN" -> 80 \div (w + 3) [] t = "MESS" -> 1
Width(t, w) == CASE t = "INTE" -> 12 [] t = "REAL" -> 17 [] t = "DOUB" -> 23 [] t = "LOGI" -> 3
                 [] t = "CHAR" -> 11 [] t = "C0NN" -> w + 3 [] t = "MESS" -> 0
\* one block of k elements: k columns and a newline after every (possibly partial) row
BlockCharsF(t, w, k) == k * Width(t, w) + CeilDiv(k, Cols(t, w))
\* number of elements on each line of the data part (the harness' scanner reports exactly this)
LinesOfBlock(k, c) == [j \in 1..CeilDiv(k, c) |-> IF j * c <= k THEN c ELSE k - (j - 1) * c]
HeaderF == 30 + 1
DataBytesF_sum(t, w, n) == LET b == Blocks(t, n) IN SumSeq([i \in 1..Len(b) |-> BlockCharsF(t, w, b[i])])

\* closed forms, by index, of what a scan of the data part must find:
\* unformatted - payload bytes of record j; formatted - elements on line j
NumBlocks(t, n) == IF t = "MESS" THEN 0 ELSE CeilDiv(n, BlockElems(t))
ElemsInBlock(t, n, q) == IF q * BlockElems(t) <= n THEN BlockElems(t) ELSE n - (q - 1) * BlockElems(t)
NumFramesU(t, n) == NumBlocks(t, n)
FrameAtU(t, w, n, j) == ElemsInBlock(t, n, j) * ElemBytes(t, w)
LinesPerFullBlock(t, w) == CeilDiv(BlockElems(t), Cols(t, w))
NumLinesF(t, w, n) == IF t = "MESS" \/ n = 0 THEN 0
                      ELSE (n \div BlockElems(t)) * LinesPerFullBlock(t, w)
                           + CeilDiv(n % BlockElems(t), Cols(t, w))
LineAtF(t, w, n, j) == LET q == (j - 1) \div LinesPerFullBlock(t, w) + 1      \* block of line j
                           r == (j - 1) % LinesPerFullBlock(t, w)               \* lines before it in the block
                           k == ElemsInBlock(t, n, q)
                       IN IF (r + 1) * Cols(t, w) <= k THEN Cols(t, w) ELSE k - r * Cols(t, w)

\* ... and closed forms (no recursion, usable for arrays of any length);
\* LayoutLaws states that the two agree
DataBytesU(t, w, n) == IF t = "MESS" THEN 0 ELSE n * ElemBytes(t, w) + 8 * NumBlocks(t, n)
DataBytesF(t, w, n) == IF t = "MESS" THEN 0 ELSE n * Width(t, w) + NumLinesF(t, w, n)

Header(fmt) == IF fmt THEN HeaderF ELSE HeaderU
DataBytes(fmt, t, w, n) == IF fmt THEN DataBytesF(t, w, n) ELSE DataBytesU(t, w, n)
ArrayBytes(fmt, a) == Header(fmt) + DataBytes(fmt, a.t, a.w, a.n)

(* ----------------------------------------------------------------------- *)
(* Part 2: the implementation's seek arithmetic, transcribed                *)
(* ----------------------------------------------------------------------- *)
\* EclUtil.cpp block_size_data_binary: (sizeOfElement, maxBlockSize in bytes)
ImplElem(t, w)  == IF t = "C0NN" THEN w ELSE IF t = "DOUB" THEN 8 ELSE IF t = "CHAR" THEN 8 ELSE 4
ImplMaxBlk(t, w) == CASE t = "DOUB" -> 8000
                      [] t = "CHAR" -> 840
                      [] t = "C0NN" -> (840 \div 8) * w
                      [] OTHER -> 4000
ImplSizeU(t, w, n) ==
    IF t = "MESS" \/ n = 0 THEN 0
    ELSE LET se == ImplElem(t, w)
             mb == ImplMaxBlk(t, w)
             me == mb \div se
             nb == n \div me
             rest == n - nb * me
         IN nb * (mb + 8) + (IF rest > 0 THEN rest * se + 8 ELSE 0)
\* block_size_data_formatted: (maxBlockSize, nColumns, columnWidth)
ImplSizeF(t, w, n) ==
    IF t = "MESS" THEN 0
    ELSE LET mb == IF t \in {"CHAR", "C0NN"} THEN 105 ELSE 1000
             cw == IF t = "C0NN" THEN w + 3 ELSE Width(t, w)
             nc == IF t = "C0NN" THEN 80 \div cw ELSE Cols(t, w)
             nBlocks == n \div mb
             last == n % mb
             nLinesBlock == (mb \div nc) + (IF mb % nc > 0 THEN 1 ELSE 0)
             full == IF nBlocks > 0 THEN nBlocks * (mb * cw + nLinesBlock) ELSE 0
         IN full + last * cw + (last \div nc) + (IF last % nc > 0 THEN 1 ELSE 0)
ImplSize(fmt, t, w, n) == IF fmt THEN ImplSizeF(t, w, n) ELSE ImplSizeU(t, w, n)

\* EclFile::seekPosition subtracts this from the data position to find the
\* start of an array's header.  CONSTANT so that the model can be run with
\* the value as committed and with a changed value.
CONSTANT SeekBackF, SeekBackU
ImplSeekBack(fmt) == IF fmt THEN SeekBackF ELSE SeekBackU

(* ----------------------------------------------------------------------- *)
(* Part 3: file = sequence of arrays                                       *)
(* ----------------------------------------------------------------------- *)
\* start offset of array i (1-based) in a file holding `arrs`
RECURSIVE StartOf(_, _, _)
StartOf(fmt, arrs, i) == IF i = 1 THEN 0
                         ELSE StartOf(fmt, arrs, i - 1) + ArrayBytes(fmt, arrs[i - 1])
DataPos(fmt, arrs, i) == StartOf(fmt, arrs, i) + Header(fmt)
FileBytes(fmt, arrs) == IF arrs = <<>> THEN 0
                        ELSE StartOf(fmt, arrs, Len(arrs)) + ArrayBytes(fmt, arrs[Len(arrs)])

\* the reader's index: it reads a header, records the stream position and
\* seeks over ImplSize bytes.
RECURSIVE ImplDataPos(_, _, _)
ImplDataPos(fmt, arrs, i) ==
    IF i = 1 THEN Header(fmt)
    ELSE ImplDataPos(fmt, arrs, i - 1)
         + ImplSize(fmt, arrs[i - 1].t, arrs[i - 1].w, arrs[i - 1].n) + Header(fmt)
ImplSeekPos(fmt, arrs, i) ==
    LET d == ImplDataPos(fmt, arrs, i) IN IF d <= ImplSeekBack(fmt) THEN 0 ELSE d - ImplSeekBack(fmt)

(* design-level laws for one array *)
LayoutLaws(fmt, t, w, n) ==
    /\ SumSeq(Blocks(t, n)) = (IF t = "MESS" THEN 0 ELSE n)
    /\ \A i \in 1..Len(Blocks(t, n)) : Blocks(t, n)[i] \in 1..BlockElems(t)
    /\ \A i \in 1..(Len(Blocks(t, n)) - 1) : Blocks(t, n)[i] = BlockElems(t)
    /\ ImplSize(fmt, t, w, n) = DataBytes(fmt, t, w, n)
    /\ DataBytesU(t, w, n) = DataBytesU_sum(t, w, n)
    /\ DataBytesF(t, w, n) = DataBytesF_sum(t, w, n)
\* the by-index closed forms agree with the constructive layout
FormLaws(fmt, t, w, n) ==
    /\ FramesU(t, w, n) = [j \in 1..NumFramesU(t, n) |-> FrameAtU(t, w, n, j)]
    /\ LET b == Blocks(t, n)
           lines == [i \in 1..Len(b) |-> LinesOfBlock(b[i], Cols(t, w))]
       IN /\ SumSeq([i \in 1..Len(b) |-> Len(lines[i])]) = NumLinesF(t, w, n)
          /\ \A i \in 1..Len(b) : \A jj \in 1..Len(lines[i]) :
                lines[i][jj] = LineAtF(t, w, n, (i - 1) * LinesPerFullBlock(t, w) + jj)
=============================================================================
