SPECIFICATION TraceSpec
CONSTANTS
  Wells = {"W1", "W2", "W3"}
  Reasons = {"P", "E", "G"}
  MaxTime = 100000
  MaxOps = 100000
POSTCONDITION TraceAccepted
CHECK_DEADLOCK FALSE
