SPECIFICATION Spec
CONSTANTS
  BaseTexts <- MCBases
  MaxRewrites = 2
  CommentIds <- MCComments
  TrailIds <- MCTrails
INVARIANTS SameMeaning PrintParse
CHECK_DEADLOCK FALSE
