----------------------------- MODULE MC_Summary -----------------------------
(* Model checking Summary on a small tree: conservation and hierarchy laws.  *)
EXTENDS Summary
M == [parent |-> [G1 |-> "FIELD", G2 |-> "G1", G3 |-> "G1", G4 |-> "FIELD"],
      wells |-> [P1 |-> [group |-> "G2", kind |-> "prod"], P2 |-> [group |-> "G3", kind |-> "prod"],
                 I1 |-> [group |-> "G3", kind |-> "winj"], P3 |-> [group |-> "G4", kind |-> "prod"]],
      start |-> [year |-> 2024, month |-> 2, day |-> 27], perday |-> 1]
W == WellsOf(M)
G == Groups(M)
CONSTANTS Depth, ShutSets
VARIABLES n, lastE
mvars == <<svars, n, lastE>>
RawPatterns ==
  { [P1 |-> [o |-> -3, w |-> -1, g |-> -5, ro |-> -4, rw |-> -1, rg |-> -2], P2 |-> [o |-> -2, w |-> -2, g |-> 0, ro |-> -2, rw |-> -2, rg |-> 0],
     I1 |-> [o |-> 0, w |-> 7, g |-> 0, ro |-> 0, rw |-> 6, rg |-> 0], P3 |-> [o |-> -1, w |-> -4, g |-> -2, ro |-> -1, rw |-> -4, rg |-> -1]],
    \* cross flow: P2 takes in water, P3 produces nothing
    [P1 |-> [o |-> -1, w |-> 0, g |-> -1, ro |-> -1, rw |-> 0, rg |-> -1], P2 |-> [o |-> -5, w |-> 2, g |-> -3, ro |-> -6, rw |-> 2, rg |-> -1],
     I1 |-> [o |-> 0, w |-> 3, g |-> 0, ro |-> 0, rw |-> 3, rg |-> 0], P3 |-> [o |-> 0, w |-> 0, g |-> 0, ro |-> 0, rw |-> 0, rg |-> 0]] }
Hist == [P1 |-> [o |-> 3, w |-> 1, g |-> 6, wi |-> 0, gi |-> 0], P2 |-> [o |-> 2, w |-> 3, g |-> 1, wi |-> 0, gi |-> 0],
         I1 |-> [o |-> 0, w |-> 0, g |-> 0, wi |-> 8, gi |-> 0], P3 |-> [o |-> 1, w |-> 1, g |-> 1, wi |-> 0, gi |-> 0]]
FacPatterns == { [wefac |-> [w \in W |-> 4], gefac |-> [g \in G |-> 4]],
                 [wefac |-> [w \in W |-> IF w = "P1" THEN 2 ELSE 4], gefac |-> [g \in G |-> IF g = "G1" THEN 3 ELSE IF g = "G3" THEN 2 ELSE 4]],
                 [wefac |-> [w \in W |-> IF w = "I1" THEN 1 ELSE 3], gefac |-> [g \in G |-> IF g = "G4" THEN 1 ELSE 4]] }
MInit == SInit(M) /\ n = 0 /\ lastE = [dt |-> 0]
MNext == /\ n < Depth /\ n' = n + 1
         /\ \E dt \in {1, 3}, f \in FacPatterns, r \in RawPatterns, sh \in ShutSets :
              LET e == [dt |-> dt, wefac |-> f.wefac, gefac |-> f.gefac, raw |-> r, hist |-> Hist, shut |-> [w \in W |-> w \in sh]]
              IN Eval(M, e) /\ lastE' = e
MSpec == MInit /\ [][MNext]_mvars

\* totals are conserved along the tree: a node's total is the sum of the totals of the wells below it
TotalsConserved == \A node \in G \cup {"FIELD"} : \A q \in BaseQ :
                      cum[<<node, q>>] = SumFun([w \in Below(M, node) |-> cum[<<w, q>>]], Below(M, node))
\* a group's rate is the efficiency-weighted sum of its child groups' and wells' rates; the field's likewise
Children(node) == {g \in G : M.parent[g] = node}
OwnWells(node) == {w \in W : M.wells[w].group = node}
RatesHierarchical ==
    n > 0 => \A q \in BaseQ :
      LET R(node) == Base(M, lastE, node, q, FALSE) IN
      /\ \A g \in G : 4 * R(g) = SumFun([c \in Children(g) |-> lastE.gefac[c] * R(c)], Children(g))
                                 + SumFun([w \in OwnWells(g) |-> lastE.wefac[w] * R(w)], OwnWells(g))
      /\ 4 * R("FIELD") = SumFun([c \in Children("FIELD") |-> lastE.gefac[c] * R(c)], Children("FIELD"))
\* derived vectors
Derived == n > 0 =>
    /\ out["FLPR"].n = out["FOPR"].n + out["FWPR"].n
    /\ out["GLPT:G1"].n = out["GOPT:G1"].n + out["GWPT:G1"].n
    /\ (out["FOPR"].n + out["FWPR"].n > 0 => out["FWCT"].n * out["FLPR"].n = out["FWPR"].n * out["FWCT"].d)
    /\ \A w \in W : lastE.shut[w] => \A name \in {"OPR", "WPR", "GPR", "WIR", "OPRH", "WIRH", "VPR", "VIR"} : out[Key(M, w, name)].n = 0
\* no total ever decreases; a shut well's totals stand still
Monotone == [][ \A x \in DOMAIN cum : cum'[x] >= cum[x] ]_mvars
ShutStandsStill == [][ n' > n => \A w \in W : lastE'.shut[w] => \A q \in BaseQ : cum'[<<w, q>>] = cum[<<w, q>>] ]_mvars
\* calendar arithmetic is a bijection on the dates the generator uses
CalendarOk == \A y \in {1999, 2000, 2023, 2024, 2100} : \A mth \in 1..12 : \A dd \in {1, 28} :
                 CivilFromDays(DaysFromCivil(y, mth, dd)) = [year |-> y, month |-> mth, day |-> dd]
LeapOk == /\ CivilFromDays(DaysFromCivil(2024, 2, 28) + 1) = [year |-> 2024, month |-> 2, day |-> 29]
          /\ CivilFromDays(DaysFromCivil(2023, 2, 28) + 1) = [year |-> 2023, month |-> 3, day |-> 1]
          /\ CivilFromDays(DaysFromCivil(2100, 2, 28) + 1) = [year |-> 2100, month |-> 3, day |-> 1]
          /\ CivilFromDays(DaysFromCivil(2000, 2, 28) + 1) = [year |-> 2000, month |-> 2, day |-> 29]
          /\ CivilFromDays(DaysFromCivil(2023, 12, 31) + 1) = [year |-> 2024, month |-> 1, day |-> 1]
AllShut == SUBSET W
SomeShut == {{}, {"P1"}, {"P2", "I1"}, {"P3"}, {"P1", "P2", "I1", "P3"}}
ASSUME CalendarOk /\ LeapOk
=============================================================================
