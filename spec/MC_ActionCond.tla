---------------------------- MODULE MC_ActionCond ----------------------------
(* Design-level check: implementation transcription = reference on every     *)
(* condition with up to MaxLeaves comparisons (all AND/OR/parenthesis shapes) *)
(* and every pattern of summary values.                                       *)
EXTENDS ActionCond, Json
CONSTANTS MaxLeaves
MCWells == {"P1", "P2"}
MCPat == [x \in {"P*", "*"} |-> MCWells]
MCNum == [x \in {"1"} |-> 1]
\* leaves: scalar, well pattern (two quantities), single well
Leaves == { <<"FOPR", ">", "1">>, <<"WOPR", "P*", ">", "1">>, <<"WWCT", "*", "<", "1">>, <<"WOPR", "P1", ">", "1">> }
RECURSIVE E(_)
Paren(S) == { <<"(">> \o x \o <<")">> : x \in S }
E(n) == IF n = 1 THEN Leaves
        ELSE UNION { { x \o <<op>> \o y : x \in (E(k) \cup Paren(E(k))), y \in (E(n - k) \cup Paren(E(n - k))), op \in {"AND", "OR"} }
                     : k \in 1..(n - 1) }
Conds == UNION { E(n) : n \in 1..MaxLeaves }
SVs == [f : [{"FOPR"} -> {0, 2}], w : [{"WOPR", "WWCT"} -> [MCWells -> {0, 2}]], g : [{} -> {0}],
        day : {1}, mnth : {1}, year : {2020}]
VARIABLES toks, sv
vars == <<toks, sv>>
Init == toks \in Conds /\ sv \in SVs
Next == UNCHANGED vars
Spec == Init /\ [][Next]_vars
Agree == Obs(IEval(sv, toks)) = Obs(REval(sv, toks))
\* reference sanity: truth value is the Boolean expression's value; a false result has no wells
RefSane == LET r == REval(sv, toks) IN (~r.b => r.m = None)
EmitCase == PrintT(<<"GEN", ToJson([toks |-> toks, sv |-> sv])>>) /\ FALSE
=============================================================================
