--------------------------- MODULE Oracle_Compdat ---------------------------
(* TLC as oracle for C06: the terms for CF, Kh, r0, rw of every record class. *)
EXTENDS Compdat, Json, IOUtils
CaseLog == ndJsonDeserialize(IOEnv.CASES)
VARIABLE i
Init == i = 1
Next == /\ i <= Len(CaseLog)
        /\ LET c == Connection(CaseLog[i].rec) IN
           PrintT(<<"GEN", ToJson([id |-> CaseLog[i].id, conn |-> c, rel |-> Relation(c),
                                   over |-> OverDetermined(CaseLog[i].rec)])>>)
        /\ i' = i + 1
Spec == Init /\ [][Next]_i
=============================================================================
