------------------------- MODULE Trace_ActionTrigger -------------------------
(* Trace validation, trigger layer of C18: the real Actions / ActionX /       *)
(* Action::State driven by harness/acttrig behave as ActionTrigger says.      *)
EXTENDS ActionTrigger, Json, IOUtils
TraceLog == ndJsonDeserialize(IOEnv.TRACE)
VARIABLE l
tvars == <<vars, l>>
Ev == TraceLog[l]
IsEvent(e) == l <= Len(TraceLog) /\ TraceLog[l].e = e /\ l' = l + 1
ToSet(s) == {s[i] : i \in 1..Len(s)}
NamesOf(ds) == [i \in 1..Len(ds) |-> ds[i].name]
\* observed run state = model run state, action by action, in definition order
StateOk(obs) == /\ Len(obs) = Len(defs')
                /\ \A i \in 1..Len(obs) :
                     /\ obs[i].name = defs'[i].name /\ obs[i].id = defs'[i].id
                     /\ obs[i].count = (IF Key(defs'[i]) \in DOMAIN rs' THEN rs'[Key(defs'[i])].count ELSE 0)
                     /\ obs[i].last = (IF Key(defs'[i]) \in DOMAIN rs' THEN rs'[Key(defs'[i])].last ELSE -1)
TInit == l = 1 /\ Init
TReset == IsEvent("Reset") /\ defs' = <<>> /\ rs' = <<>> /\ now' = 0 /\ runs' = <<>>
TDefine == IsEvent("Define") /\ Ev.now = now /\ Define(Ev.name, Ev.max_run, Ev.min_wait) /\ StateOk(Ev.state)
TTick == IsEvent("Tick") /\ Tick(Ev.dt) /\ Ev.now = now'
TStep == /\ IsEvent("Step") /\ Ev.now = now
         /\ Ev.pending = NamesOf(Pending)
         /\ Step(ToSet(Ev.truth))
         /\ Ev.ran = NamesOf(SelectSeq(Pending, LAMBDA d : d.name \in ToSet(Ev.truth)))
         /\ StateOk(Ev.state)
TRestart == IsEvent("Restart") /\ Ev.res = "ok" /\ Restart /\ StateOk(Ev.state)
TDiag == /\ l <= Len(TraceLog) /\ Ev.e = "Step" /\ Ev.pending # NamesOf(Pending)
         /\ PrintT(<<"DIAG", l, [expectedPending |-> NamesOf(Pending), got |-> Ev.pending, now |-> now, defs |-> defs, rs |-> rs]>>)
         /\ FALSE /\ UNCHANGED tvars
TNext == TReset \/ TDefine \/ TTick \/ TStep \/ TRestart \/ TDiag
TraceSpec == TInit /\ [][TNext]_tvars
TraceAccepted == TLCGet("stats").diameter - 1 = Len(TraceLog)
=============================================================================
