----------------------------- MODULE ActionCond -----------------------------
(***************************************************************************)
(* ACTIONX conditions: token list -> truth value and matching-well set.    *)
(*                                                                         *)
(* Part R is the REFERENCE meaning (property C18): comparisons combined    *)
(* with AND binding tighter than OR and parentheses; the matching set is   *)
(* the set of wells for which the well-level comparisons hold, combined by *)
(* intersection under AND and union under OR, where scalar or false        *)
(* sub-conditions contribute no set.                                       *)
(*                                                                         *)
(* Part I TRANSCRIBES the implementation: the recursive descent of         *)
(* ActionParser.cpp (n-ary AND nodes, right-recursive OR nodes, a single   *)
(* child returned unwrapped), ASTNode::evalLogicalOperation's fold from    *)
(* Result{op == AND}, Result::makeSetUnion / makeSetIntersection with the  *)
(* optional well set of MatchingEntities (absent vs present), clear(),     *)
(* and Value::evalWellComparisons.  FixLevel selects the tree it mirrors:  *)
(*   0 = as originally committed (false well comparison -> present, empty  *)
(*       set; clear() keeps a present set present)                         *)
(*   2 = repaired (false results carry no set)                             *)
(***************************************************************************)
EXTENDS Integers, Sequences, FiniteSets, TLC

CONSTANTS Wells,        \* set of well names (strings)
          PatWells,     \* function: well-name pattern or *LIST name -> set of wells
          FQty, WQty, GQty,   \* field / well / group quantity names
          NumTok,       \* function: number token (string) -> integer
          FixLevel

CmpOps == {">", "<", ">=", "<=", "=", "!=", ".GT.", ".LT.", ".GE.", ".LE.", ".EQ.", ".NE."}
Holds(a, op, b) == CASE op \in {">", ".GT."} -> a > b
                     [] op \in {"<", ".LT."} -> a < b
                     [] op \in {">=", ".GE."} -> a >= b
                     [] op \in {"<=", ".LE."} -> a <= b
                     [] op \in {"=", ".EQ."} -> a = b
                     [] op \in {"!=", ".NE."} -> a # b
MonthIdx == [JAN |-> 1, FEB |-> 2, MAR |-> 3, APR |-> 4, MAY |-> 5, JUN |-> 6,
             JUL |-> 7, JLY |-> 7, AUG |-> 8, SEP |-> 9, OCT |-> 10, NOV |-> 11, DEC |-> 12]
IsNum(t) == t \in DOMAIN NumTok
IsLogic(t) == t \in {"AND", "OR", "(", ")"}
IsArg(t) == ~IsLogic(t) /\ t \notin CmpOps      \* ecl_expr or number

None == [has |-> FALSE, set |-> {}]
Some(S) == [has |-> TRUE, set |-> S]

(* ----------------------------------------------------------------------- *)
(* Comparisons: shared scanning of   lhs args* op rhs args*                *)
(* sv: summary values  [f : FQty -> Int, w : WQty -> [Wells -> Int],       *)
(*                      g : GQty -> Int (one group), day, mnth, year]      *)
(* ----------------------------------------------------------------------- *)
RECURSIVE ArgEnd(_, _)
ArgEnd(t, p) == IF p <= Len(t) /\ IsArg(t[p]) THEN ArgEnd(t, p + 1) ELSE p
\* a comparison starting at p: [lhs, largs, op, rhs, rargs, next]
Cmp(t, p) == LET le == ArgEnd(t, p + 1)
                 re == ArgEnd(t, le + 2)
             IN [lhs |-> t[p], largs |-> SubSeq(t, p + 1, le - 1), op |-> t[le],
                 rhs |-> t[le + 1], rargs |-> SubSeq(t, le + 2, re - 1), next |-> re]
\* scalar value of a quantity with arguments (field, group, date, or number)
Scalar(sv, q, args) == IF IsNum(q) THEN NumTok[q]
                       ELSE IF q \in FQty THEN sv.f[q]
                       ELSE IF q \in GQty THEN sv.g[q]
                       ELSE IF q = "DAY" THEN sv.day
                       ELSE IF q = "MNTH" THEN sv.mnth
                       ELSE IF q = "YEAR" THEN sv.year
                       ELSE IF q \in DOMAIN MonthIdx THEN MonthIdx[q]
                       ELSE sv.w[q][args[1]]
\* wells addressed by the left-hand side: a pattern / well list selects
\* several, a plain name one; not a well quantity: none (scalar)
IsWellCmp(c) == c.lhs \in WQty /\ Len(c.largs) = 1
\* a pattern selects among the wells the summary state knows for the quantity
LhsWells(sv, c) == IF c.largs[1] \in DOMAIN PatWells THEN PatWells[c.largs[1]] \cap DOMAIN sv.w[c.lhs]
                   ELSE {c.largs[1]}
HoldingWells(sv, c) == {w \in LhsWells(sv, c) : Holds(sv.w[c.lhs][w], c.op, Scalar(sv, c.rhs, c.rargs))}

(* ----------------------------------------------------------------------- *)
(* Part R: reference                                                       *)
(* ----------------------------------------------------------------------- *)
RLeaf(sv, c) == IF IsWellCmp(c)
                THEN LET W == HoldingWells(sv, c) IN [b |-> W # {}, m |-> IF W # {} THEN Some(W) ELSE None]
                ELSE [b |-> Holds(Scalar(sv, c.lhs, c.largs), c.op, Scalar(sv, c.rhs, c.rargs)), m |-> None]
RAnd(x, y) == LET v == x.b /\ y.b IN
              [b |-> v, m |-> IF ~v THEN None
                              ELSE IF x.m.has /\ y.m.has THEN Some(x.m.set \cap y.m.set)
                              ELSE IF x.m.has THEN x.m ELSE y.m]
ROr(x, y) == LET v == x.b \/ y.b
                 xm == IF x.b THEN x.m ELSE None      \* false sub-conditions contribute no set
                 ym == IF y.b THEN y.m ELSE None
             IN [b |-> v, m |-> IF ~v THEN None
                                ELSE IF xm.has /\ ym.has THEN Some(xm.set \cup ym.set)
                                ELSE IF xm.has THEN xm ELSE ym]
\* each level returns <<result, next position>>
RECURSIVE ROrLevel(_, _, _), ROrLoop(_, _, _, _), RAndLevel(_, _, _), RAndLoop(_, _, _, _), RPrim(_, _, _)
RPrim(sv, t, p) == IF t[p] = "("
                   THEN LET r == ROrLevel(sv, t, p + 1) IN <<r[1], r[2] + 1>>      \* skip ")"
                   ELSE LET c == Cmp(t, p) IN <<RLeaf(sv, c), c.next>>
RAndLoop(sv, t, acc, p) == IF p <= Len(t) /\ t[p] = "AND"
                           THEN LET r == RPrim(sv, t, p + 1) IN RAndLoop(sv, t, RAnd(acc, r[1]), r[2])
                           ELSE <<acc, p>>
RAndLevel(sv, t, p) == LET r == RPrim(sv, t, p) IN RAndLoop(sv, t, r[1], r[2])
ROrLoop(sv, t, acc, p) == IF p <= Len(t) /\ t[p] = "OR"
                          THEN LET r == RAndLevel(sv, t, p + 1) IN ROrLoop(sv, t, ROr(acc, r[1]), r[2])
                          ELSE <<acc, p>>
ROrLevel(sv, t, p) == LET r == RAndLevel(sv, t, p) IN ROrLoop(sv, t, r[1], r[2])
REval(sv, t) == ROrLevel(sv, t, 1)[1]

(* ----------------------------------------------------------------------- *)
(* Part I: implementation transcription                                    *)
(* ----------------------------------------------------------------------- *)
ILeaf(sv, c) == IF IsWellCmp(c)
                THEN LET W == HoldingWells(sv, c)
                     IN [b |-> W # {}, m |-> IF FixLevel >= 1 /\ W = {} THEN None ELSE Some(W)]
                ELSE [b |-> Holds(Scalar(sv, c.lhs, c.largs), c.op, Scalar(sv, c.rhs, c.rargs)), m |-> None]
Clear(m) == IF FixLevel >= 2 THEN None ELSE IF m.has THEN Some({}) ELSE m
\* Result::makeSetUnion / makeSetIntersection (this = r, rhs = c)
IUnion(r, c) == LET v == r.b \/ c.b IN
                IF ~v THEN [b |-> v, m |-> Clear(r.m)]
                ELSE [b |-> v, m |-> IF ~c.m.has THEN r.m ELSE Some(r.m.set \cup c.m.set)]
IInter(r, c) == LET v == r.b /\ c.b IN
                IF ~v THEN [b |-> v, m |-> Clear(r.m)]
                ELSE [b |-> v, m |-> IF ~c.m.has THEN r.m ELSE IF ~r.m.has THEN c.m
                                     ELSE Some(r.m.set \cap c.m.set)]
RECURSIVE IOr(_, _, _), IOrLoop(_, _, _, _), IAnd(_, _, _), IAndLoop(_, _, _, _), ICmp(_, _, _)
ICmp(sv, t, p) == IF t[p] = "("
                  THEN LET r == IOr(sv, t, p + 1) IN <<r[1], r[2] + 1>>
                  ELSE LET c == Cmp(t, p) IN <<ILeaf(sv, c), c.next>>
\* parse_and: n-ary node over parse_cmp children, folded from Result{true}
IAndLoop(sv, t, acc, p) == IF p <= Len(t) /\ t[p] = "AND"
                           THEN LET r == ICmp(sv, t, p + 1) IN IAndLoop(sv, t, IInter(acc, r[1]), r[2])
                           ELSE <<acc, p>>
IAnd(sv, t, p) == LET l == ICmp(sv, t, p) IN
                  IF l[2] <= Len(t) /\ t[l[2]] = "AND"
                  THEN IAndLoop(sv, t, IInter([b |-> TRUE, m |-> None], l[1]), l[2])
                  ELSE l
\* parse_or: node over parse_and and then parse_or (recursive) children, folded from Result{false}
IOrLoop(sv, t, acc, p) == IF p <= Len(t) /\ t[p] = "OR"
                          THEN LET r == IOr(sv, t, p + 1) IN IOrLoop(sv, t, IUnion(acc, r[1]), r[2])
                          ELSE <<acc, p>>
IOr(sv, t, p) == LET l == IAnd(sv, t, p) IN
                 IF l[2] <= Len(t) /\ t[l[2]] = "OR"
                 THEN IOrLoop(sv, t, IUnion([b |-> FALSE, m |-> None], l[1]), l[2])
                 ELSE l
IEval(sv, t) == IOr(sv, t, 1)[1]

\* what a caller observes: truth value and the wells of the match set
Obs(r) == [b |-> r.b, wells |-> r.m.set]
=============================================================================
