SPECIFICATION Spec
CONSTANTS
  BaseTexts <- MCBases
  MaxRewrites = 0
  CommentIds <- MCComments
  TrailIds <- MCTrails
  Thin <- One
CONSTRAINT Emit
CHECK_DEADLOCK FALSE
