SPECIFICATION Spec
CONSTANTS
 MaxOps = 1
 Sweep = TRUE
CONSTRAINT Emit
CHECK_DEADLOCK FALSE
