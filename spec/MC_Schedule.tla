----------------------------- MODULE MC_Schedule -----------------------------
EXTENDS Schedule, Json
\* behaviour generation: print the input when the keyword budget is used up
Emit == IF nkw >= MaxKw THEN PrintT(<<"GEN", ToJson([blocks |-> blocks])>>) /\ FALSE ELSE TRUE
=============================================================================
