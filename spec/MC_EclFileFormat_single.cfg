SPECIFICATION Spec
CONSTANTS
  Lengths <- LenAll
  CWidths = {9, 16, 37, 77}
  MaxArrs = 1
  SeekBackF = 31
  SeekBackU = 24
INVARIANTS Laws IndexAgrees SeekFindsHeader SizeIsSum
