SPECIFICATION Spec
CONSTANTS
  MaxStep = 2
  Payloads <- PayloadSmall
  MaxWrites = 3
  MaxArrs = 4
  SeekBackF = 31
  SeekBackU = 24
CONSTRAINT Bound
INVARIANTS NoJunk StepsIncreasing JustWrittenIsLast EarlierPreserved EqualsFresh
