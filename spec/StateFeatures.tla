--------------------------- MODULE StateFeatures ---------------------------
(***************************************************************************)
(* Input generator for C11: which keyword families a model contains.  A    *)
(* model is the table dimensions and a set of features; features are added *)
(* one at a time when their prerequisites hold, so every behaviour is a    *)
(* model the real EclipseState / Schedule can be built from.               *)
(***************************************************************************)
EXTENDS Integers, FiniteSets, Sequences, TLC, Json
CONSTANTS MaxFeatures
Features == {"DISGAS", "VAPOIL", "PVTO", "PVTG", "FAMILY2", "POLYMER", "PLYSHLOG", "PLYVISC", "FAULTS", "MULTFLT", "NNC", "MULTREGT",
             "THPRES", "RSVD", "TRACER", "ROCKTAB", "SATNUM", "PVTNUM", "WELLS", "GROUPS", "UDQ", "ACTIONX", "WTEST", "MSW", "MSWBR", "VFP", "GINJ", "SUMMARY_ALL", "RPT", "WECON"}
Requires(f) == CASE f = "PVTO" -> {"DISGAS"} [] f = "PVTG" -> {"VAPOIL"} [] f = "RSVD" -> {"DISGAS", "PVTO"}
                 [] f = "PLYSHLOG" -> {"POLYMER"} [] f = "PLYVISC" -> {"POLYMER"} [] f = "MULTFLT" -> {"FAULTS"}
                 [] f \in {"GROUPS", "UDQ", "ACTIONX", "WTEST", "MSW", "VFP", "GINJ", "WECON"} -> {"WELLS"}
                 [] f = "MSWBR" -> {"WELLS", "MSW"}       \* a lateral numbered below the continuation of the main stem
                 [] OTHER -> {}
VARIABLES ntpvt, ntsfun, neql, unit, fs
vars == <<ntpvt, ntsfun, neql, unit, fs>>
Init == ntpvt \in {1, 2} /\ ntsfun \in {1, 2} /\ neql \in {1, 2} /\ unit \in {"METRIC", "FIELD", "LAB", "PVT-M"} /\ fs = {}
Add(f) == /\ f \notin fs /\ Requires(f) \subseteq fs /\ Cardinality(fs) < MaxFeatures
          /\ (f = "SATNUM" => ntsfun = 2) /\ (f = "PVTNUM" => ntpvt = 2)
          /\ (f = "THPRES" => neql = 2)          \* threshold pressures are between equilibration regions
          /\ fs' = fs \cup {f} /\ UNCHANGED <<ntpvt, ntsfun, neql, unit>>
Next == \E f \in Features : Add(f)
Spec == Init /\ [][Next]_vars
Thin == 6
Emit == IF Cardinality(fs) >= MaxFeatures
        THEN (IF RandomElement(1..Thin) = 1 THEN PrintT(<<"GEN", ToJson([ntpvt |-> ntpvt, ntsfun |-> ntsfun, neql |-> neql, unit |-> unit, fs |-> fs])>>) ELSE TRUE) /\ FALSE
        ELSE TRUE
\* prerequisites are always satisfied
Closed == \A f \in fs : Requires(f) \subseteq fs
=============================================================================
