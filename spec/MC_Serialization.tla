-------------------------- MODULE MC_Serialization --------------------------
EXTENDS Serialization
P == {Prim(1, 4), Prim(1, 8), Prim(2, 11), Prim(5, 24)}
Flat == UNION {[1..n -> P] : n \in 0..2}
MCValues == Flat \cup {<<p, Cont(f)>> : p \in P, f \in Flat} \cup {<<Cont(f), Cont(g)>> : f \in Flat, g \in {<<>>, <<Prim(2, 3)>>}}
               \cup {<<Cont(<<Cont(f), p>>)>> : p \in P, f \in {<<>>, <<Prim(1, 8)>>}}
=============================================================================
