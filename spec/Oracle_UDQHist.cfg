SPECIFICATION Spec
CONSTANTS
  Wells <- OWells
  Groups <- OGroups
  NumTok <- ONum
  PatWells <- OPat
CHECK_DEADLOCK FALSE
