-------------------------- MODULE Trace_Connections --------------------------
(* Trace validation for the second half of C06: the connection lists the     *)
(* real Schedule presents at every report step are the lists Connections     *)
(* prescribes for the operations of the steps so far.                        *)
EXTENDS Connections, Json, IOUtils
TraceLog == ndJsonDeserialize(IOEnv.TRACE)
VARIABLE l
tvars == <<vars, l>>
Ev == TraceLog[l]
IsEvent(e) == l <= Len(TraceLog) /\ TraceLog[l].e = e /\ l' = l + 1
TInit == l = 1 /\ Init
Keep == UNCHANGED <<nops, nrec, last>>
TReset == IsEvent("Reset") /\ st' = Empty /\ step' = 0 /\ Keep
Project(cs) == [n \in 1..Len(cs) |-> [k |-> cs[n].k, ijhead |-> TRUE, complnum |-> cs[n].complnum, sort |-> cs[n].sort,
                                      state |-> cs[n].state, rec |-> cs[n].rec, mult |-> cs[n].mult, skin |-> cs[n].skin]]
After == EndStep(ApplyOps(st, Ev.ops))
\* for a well with laterals the list must hold the specified connections, and a step that adds no
\* connection must leave the order of the list as it was
Before(w) == {c.k : c \in Range(st.conns[w])}
KsOf(seq) == [n \in 1..Len(seq) |-> seq[n].k]
FreeOk(w) == /\ Len(Ev.obs[w]) = Len(After.conns[w])
             /\ Range(Ev.obs[w]) = Range(Project(After.conns[w]))
             \* (a new connection may change the walk along the track and with it the order of the old ones;
             \*  re-entered COMPDAT, WPIMULT and WELOPEN add none and must leave the order as it was)
             /\ (Len(Ev.obs[w]) = Len(st.conns[w]) => KsOf(Ev.obs[w]) = KsOf(st.conns[w]))
StepOk == /\ Ev.res = "ok"
          /\ \A w \in Wells \ FreeOrder : Project(After.conns[w]) = Ev.obs[w]
          /\ \A w \in FreeOrder : FreeOk(w)
\* the specification's list of a well with laterals follows the observed order
Observed(w) == [n \in 1..Len(Ev.obs[w]) |-> [k |-> Ev.obs[w][n].k, complnum |-> Ev.obs[w][n].complnum, sort |-> Ev.obs[w][n].sort,
                                              state |-> Ev.obs[w][n].state, rec |-> Ev.obs[w][n].rec, mult |-> Ev.obs[w][n].mult, skin |-> Ev.obs[w][n].skin]]
TStep == /\ IsEvent("Step") /\ StepOk /\ step' = step + 1 /\ Keep
         /\ st' = [After EXCEPT !.conns = [w \in Wells |-> IF w \in FreeOrder THEN Observed(w) ELSE After.conns[w]]]
TDiag == /\ l <= Len(TraceLog) /\ Ev.e = "Step" /\ ~StepOk
         /\ PrintT(<<"DIAG", l, [expected |-> IF Ev.res = "ok" THEN [w \in Wells |-> Project(After.conns[w])] ELSE <<>>]>>)
         /\ FALSE /\ UNCHANGED tvars
TNext == TReset \/ TStep \/ TDiag
TraceSpec == TInit /\ [][TNext]_tvars
TraceAccepted == TLCGet("stats").diameter - 1 = Len(TraceLog)
TWells == {"W1", "W2", "W3"}
TFree == {"W3"}
TFreeCells == {221, 222, 121, 122, 321, 322, 211, 231}
TInput == {"W1"}
=============================================================================
