-------------------------- MODULE Trace_Connections --------------------------
(* Trace validation for the second half of C06: the connection lists the     *)
(* real Schedule presents at every report step are the lists Connections     *)
(* prescribes for the operations of the steps so far.                        *)
EXTENDS Connections, Json, IOUtils
TraceLog == ndJsonDeserialize(IOEnv.TRACE)
VARIABLE l
tvars == <<vars, l>>
Ev == TraceLog[l]
IsEvent(e) == l <= Len(TraceLog) /\ TraceLog[l].e = e /\ l' = l + 1
TInit == l = 1 /\ Init
Keep == UNCHANGED <<nops, nrec, last>>
TReset == IsEvent("Reset") /\ st' = Empty /\ step' = 0 /\ Keep
Project(cs) == [n \in 1..Len(cs) |-> [k |-> cs[n].k, ijhead |-> TRUE, complnum |-> cs[n].complnum, sort |-> cs[n].sort,
                                      state |-> cs[n].state, rec |-> cs[n].rec, mult |-> cs[n].mult]]
After == EndStep(ApplyOps(st, Ev.ops))
StepOk == Ev.res = "ok" /\ \A w \in Wells : Project(After.conns[w]) = Ev.obs[w]
TStep == IsEvent("Step") /\ StepOk /\ st' = After /\ step' = step + 1 /\ Keep
TDiag == /\ l <= Len(TraceLog) /\ Ev.e = "Step" /\ ~StepOk
         /\ PrintT(<<"DIAG", l, [expected |-> IF Ev.res = "ok" THEN [w \in Wells |-> Project(After.conns[w])] ELSE <<>>]>>)
         /\ FALSE /\ UNCHANGED tvars
TNext == TReset \/ TStep \/ TDiag
TraceSpec == TInit /\ [][TNext]_tvars
TraceAccepted == TLCGet("stats").diameter - 1 = Len(TraceLog)
TWells == {"W1", "W2"}
TInput == {"W1"}
=============================================================================
