SPECIFICATION TraceSpec
CONSTANTS
  Wells <- TWells
  PatWells <- TPat
  FQty = {"FOPR", "FWCT", "FGOR"}
  WQty = {"WOPR", "WWCT", "WGOR"}
  GQty = {"GOPR", "GWCT"}
  NumTok <- TNum
  FixLevel = 2
POSTCONDITION TraceAccepted
CHECK_DEADLOCK FALSE
