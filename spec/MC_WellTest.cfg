SPECIFICATION Spec
CONSTANTS
  Wells = {"W1", "W2"}
  Reasons = {"P", "E"}
  MaxTime = 8
  MaxOps = 6
PROPERTIES TestsJustified ResetOnlyByNewConfig
CHECK_DEADLOCK FALSE
