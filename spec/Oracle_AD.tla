------------------------------ MODULE Oracle_AD ------------------------------
(* TLC as oracle for C16: for every program in IOEnv.CASES print the value   *)
(* term and the N derivative terms the differentiation rules give.           *)
EXTENDS DualNumbers, Json, IOUtils
CaseLog == ndJsonDeserialize(IOEnv.CASES)
VARIABLE i
Init == i = 1
\* JSON numbers arrive as [n, d] pairs: turn them into rational terms
ToQ(p) == Q(p[1], p[2])
FixOp(op) == IF "q" \in DOMAIN op THEN [op EXCEPT !.q = ToQ(op.q)] ELSE op
Prog(c) == [k \in 1..Len(c.prog) |-> FixOp(c.prog[k])]
Next == /\ i <= Len(CaseLog)
        /\ LET r == Result(CaseLog[i].n, Prog(CaseLog[i])) IN
           PrintT(<<"GEN", ToJson([id |-> CaseLog[i].id, v |-> r.v, d |-> r.d])>>)
        /\ i' = i + 1
Spec == Init /\ [][Next]_i
=============================================================================
