--------------------------- MODULE MC_DualNumbers ---------------------------
(* Design-level laws of the differentiation rules on rational dual numbers:  *)
(* all pairs/triples of variables and constants over a small value set.      *)
EXTENDS DualNumbers
Vals == {-2, -1, 1, 2, 3}
N == 2
Duals == { Var(N, i, QI(v)) : i \in 1..N, v \in Vals } \cup { Const(N, QI(v)) : v \in Vals }
VARIABLES x, y, z
vars == <<x, y, z>>
Init == x \in Duals /\ y \in Duals /\ z \in Duals
Next == UNCHANGED vars
Spec == Init /\ [][Next]_vars
Mul(a, b) == Binary("*", a, b)
Div(a, b) == Binary("/", a, b)
Add(a, b) == Binary("+", a, b)
Sub(a, b) == Binary("-", a, b)
Laws == /\ Mul(Div(x, y), y) = x
        /\ Sub(Add(x, y), y) = x
        /\ Mul(x, y) = Mul(y, x)
        /\ Mul(x, Add(y, z)) = Add(Mul(x, y), Mul(x, z))
        /\ Div(Mul(x, z), Mul(y, z)) = Div(x, y)
        /\ Unary("neg", Unary("neg", x)) = x
        /\ Unary("abs", Mul(x, x)) = Mul(x, x)
        /\ Binary("min", x, y) \in {x, y} /\ Binary("max", x, y) \in {x, y}
        /\ (x.v # y.v) => Add(Binary("min", x, y), Binary("max", x, y)) = Add(x, y)
        \* scalar overload = Evaluation form with a constant
        /\ (\E v \in Vals : y = Const(N, QI(v))) => Step(N, <<x>>, [o |-> "binS", f |-> "*", side |-> "R", q |-> y.v])[1] = Mul(x, y)
=============================================================================
