SPECIFICATION MSpec
CONSTANTS
  Names = {"A", "B", "C"}
  MaxRuns = {0, 1, 2, 3}
  MinWaits <- MinWaitsGen
  Starts = {0}
  Dts = {1, 2, 3}
  MaxTime = 40
  MaxDefs = 6
  MaxSteps = 12
CONSTRAINT Emit
