SPECIFICATION MSpec
CONSTANTS
  Names = {"A", "B"}
  MaxRuns = {0, 1, 2}
  MinWaits <- MinWaitsMC
  Starts = {0}
  Dts = {1, 2}
  MaxTime = 6
  MaxDefs = 2
  MaxSteps = 4
VIEW View
INVARIANTS NeverMoreThanMax NeverBeforeStart WaitRespected CountMatchesHistory
