--------------------------- MODULE MC_Connections ---------------------------
EXTENDS Connections
MCWells == {"W1", "W2"}
MCInput == {"W1"}
NoWells == {}
Bound == nops <= MaxOps /\ step <= MaxSteps
=============================================================================
