SPECIFICATION Spec
CONSTANTS
  Lengths <- LenEdge
  CWidths = {9}
  MaxArrs = 2
  SeekBackF = 30
  SeekBackU = 24
INVARIANTS SeekFindsHeader
