SPECIFICATION Spec
CONSTANT MaxFeatures = 7
INVARIANT Closed
CONSTRAINT Emit
CHECK_DEADLOCK FALSE
