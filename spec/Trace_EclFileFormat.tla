------------------------ MODULE Trace_EclFileFormat ------------------------
(* Trace validation for C07: files written by the real EclOutput, scanned   *)
(* by the independent scanner and indexed/read by the real EclFile, follow  *)
(* the published layout of EclFileFormat.                                   *)
EXTENDS EclFileFormat, Json, IOUtils
TraceLog == ndJsonDeserialize(IOEnv.TRACE)
VARIABLES l, fmt, arrs
tvars == <<l, fmt, arrs>>
Ev == TraceLog[l]
IsEvent(e) == l <= Len(TraceLog) /\ TraceLog[l].e = e /\ l' = l + 1

\* what the scanner reports as "frames": payload bytes per record
\* (unformatted) or elements per line (formatted) - compared by index
FramesOk(f, a, fr) ==
    IF f THEN /\ Len(fr) = NumLinesF(a.t, a.w, a.n)
              /\ \A j \in 1..Len(fr) : fr[j] = LineAtF(a.t, a.w, a.n, j)
    ELSE /\ Len(fr) = NumFramesU(a.t, a.n)
         /\ \A j \in 1..Len(fr) : fr[j] = FrameAtU(a.t, a.w, a.n, j)

TInit == l = 1 /\ fmt = FALSE /\ arrs = <<>>
TReset == IsEvent("Reset") /\ fmt' = Ev.fmt /\ arrs' = <<>>
\* the library types a C0nn request of width <= 8 as C008
TWrote == /\ IsEvent("Wrote") /\ Ev.res = "ok"
          /\ arrs' = Append(arrs, [name |-> Ev.name, t |-> Ev.t, n |-> Ev.n,
                                   w |-> IF Ev.t = "C0NN" /\ Ev.w < 8 THEN 8 ELSE Ev.w])
          /\ UNCHANGED fmt
ArrayOk(i) == LET o == Ev.arrays[i]  a == arrs[i] IN
    /\ o.name = a.name /\ o.t = a.t /\ o.w = a.w /\ o.n = a.n
    /\ o.start = StartOf(fmt, arrs, i)
    /\ o.data = DataPos(fmt, arrs, i)
    /\ o.end = StartOf(fmt, arrs, i) + ArrayBytes(fmt, a)
    /\ FramesOk(fmt, a, o.frames)
    /\ o.headEqTail = TRUE
    /\ o.valuesOk = TRUE
IndexOk(i) == LET x == Ev.index[i]  a == arrs[i] IN
    /\ x.name = a.name /\ x.t = a.t /\ x.w = a.w /\ x.n = a.n
    /\ x.dataPos = DataPos(fmt, arrs, i)
    /\ x.seekPos = StartOf(fmt, arrs, i)
    /\ Ev.readBack[i] = "exact"
ClosedOk == /\ Ev.scan = "ok" /\ Ev.open = "ok" /\ Ev.fmtDetected = fmt
            /\ Ev.len = FileBytes(fmt, arrs)
            /\ Len(Ev.arrays) = Len(arrs) /\ Len(Ev.index) = Len(arrs) /\ Len(Ev.readBack) = Len(arrs)
            /\ \A i \in 1..Len(arrs) : ArrayOk(i) /\ IndexOk(i)
TClosed == IsEvent("Closed") /\ UNCHANGED <<fmt, arrs>> /\ ClosedOk
\* diagnosis of a refused Closed event (never a step: ends in FALSE)
TDiag == /\ l <= Len(TraceLog) /\ Ev.e = "Closed" /\ ~ClosedOk
         /\ PrintT(<<"DIAG", l, [scan |-> Ev.scan, open |-> Ev.open, len |-> <<Ev.len, FileBytes(fmt, arrs)>>,
                                 counts |-> <<Len(Ev.arrays), Len(Ev.index), Len(arrs)>>,
                                 badArrays |-> {i \in 1..Min2(Len(arrs), Len(Ev.arrays)) : ~ArrayOk(i)},
                                 badIndex |-> {i \in 1..Min2(Len(arrs), Len(Ev.index)) : ~IndexOk(i)}]>>)
         /\ FALSE /\ UNCHANGED tvars
TNext == TReset \/ TWrote \/ TClosed \/ TDiag
TraceSpec == TInit /\ [][TNext]_tvars
TraceAccepted == TLCGet("stats").diameter - 1 = Len(TraceLog)
\* the implementation's seek arithmetic agrees with the layout on every file seen
Agree == \A i \in 1..Len(arrs) : ImplDataPos(fmt, arrs, i) = DataPos(fmt, arrs, i)
=============================================================================
