----------------------------- MODULE Trace_Grid -----------------------------
(* Trace validation for C13: every observation of the real EclipseGrid made  *)
(* by harness/gridops equals what Grid.tla derives from the model state.     *)
EXTENDS Grid, Json, IOUtils
TraceLog == ndJsonDeserialize(IOEnv.TRACE)
VARIABLE l
tvars == <<gvars, l>>
Ev == TraceLog[l]
IsEvent(e) == l <= Len(TraceLog) /\ TraceLog[l].e = e /\ l' = l + 1
\* the observation matches the model state after the step (primed variables)
ObsOk(o) ==
    /\ o.exact = TRUE /\ o.ijkOk = TRUE
    /\ o.nactive = Len(SelectSeq([g \in 1..(nx' * ny' * nz') |-> g], LAMBDA g : actnum'[g] # 0))
    /\ o.actnum = [g \in 1..(nx' * ny' * nz') |-> IF actnum'[g] # 0 THEN 1 ELSE 0]
ObsGeom(o) ==      \* unprimed: evaluated in the state reached (see GeomOk)
    /\ o.a2g = GlobalOfActive
    /\ o.g2a = ActiveOfGlobal
    /\ o.vol4 = [g \in 1..NC |-> Volume4(g)]
    /\ o.avol4 = [a \in 1..NumActive |-> Volume4(ActiveSeq[a])]
    /\ o.depth8 = [g \in 1..NC |-> Depth8(g)]
    \* (the horizontal extents of a wedge cell are lengths of slanted edges: only its thickness is compared)
    /\ \A g \in 1..NC : o.dims4[g][3] = Dims4(g)[3] /\ (Plain => o.dims4[g] = Dims4(g))
TInit == l = 1 /\ GInit
TReset == IsEvent("Reset") /\ exists' = FALSE /\ UNCHANGED <<nx, ny, nz, dx, dy, dz, tops, shift, actnum, wp>>
TCreate == /\ IsEvent("create") /\ Ev.res = "ok"
           /\ Create(Ev.dims[1], Ev.dims[2], Ev.dims[3], Ev.dx, Ev.dy, Ev.dz, Ev.tops, Ev.shift, Ev.actnum, Ev.wp)
           /\ ObsOk(Ev.obs)
TResetAct == IsEvent("reset") /\ Ev.res = "ok" /\ ResetActnum(Ev.actnum) /\ ObsOk(Ev.obs)
TResetAll == IsEvent("reset_all") /\ Ev.res = "ok" /\ ResetAllActive /\ ObsOk(Ev.obs)
\* the file round trip also preserves the non-neighbouring connections and the map axes
TSaveLoad == /\ IsEvent("saveload") /\ Ev.res = "ok" /\ SaveLoad /\ ObsOk(Ev.obs)
             /\ Ev.nncLoaded = Ev.nncSaved
             /\ Ev.mapAfter = Ev.mapBefore /\ Ev.mapFile = Ev.mapBefore
TWarm == IsEvent("warm") /\ Ev.res = "ok" /\ UNCHANGED gvars /\ ObsOk(Ev.obs)
TThreads == IsEvent("threads") /\ UNCHANGED gvars
TNext == TReset \/ TCreate \/ TResetAct \/ TResetAll \/ TSaveLoad \/ TWarm \/ TThreads
TraceSpec == TInit /\ [][TNext]_tvars
TraceAccepted == TLCGet("stats").diameter - 1 = Len(TraceLog)
\* geometry and index maps observed in the event that led to the current state
GeomOk == (l > 1 /\ exists /\ "obs" \in DOMAIN TraceLog[l - 1]) => ObsGeom(TraceLog[l - 1].obs)
=============================================================================
