"""C18 - ACTIONX conditions evaluate correctly; triggering respects count and wait limits.

Condition layer: spec/ActionCond.tla holds the reference meaning (part R) and
a transcription of the implementation (part I); TLC checks their agreement on
every condition of up to 3 comparisons x every value pattern; harness/actcond
evaluates TLC-enumerated and seeded random conditions on the real classes and
TLC validates every evaluation against the reference.
Trigger layer: spec/ActionTrigger.tla; harness/acttrig drives the real
Actions / ActionX / Action::State with TLC-simulated scripts; TLC validates.
"""
import json
import os
import random

import vf

PID = "C18"
WELLS = ["P1", "P2", "P3", "I1"]
WPATS = ["*", "P*", "I*", "\\*1", "*LST", "*EMP", "*NOL"]
NUMS = ["0", "1", "2", "3", "4", "5", "6", "7", "12"]
OPS = [">", "<", ">=", "<=", "=", "!=", ".GT.", ".LT.", ".GE.", ".LE.", ".EQ.", ".NE."]
MONTHS = ["JAN", "FEB", "MAR", "APR", "MAY", "JUN", "JUL", "JLY", "AUG", "SEP", "OCT", "NOV", "DEC"]


def rand_leaf(rng):
    k = rng.random()
    op = rng.choice(OPS)
    if k < 0.35:
        return [rng.choice(["WOPR", "WWCT", "WGOR"]), rng.choice(WPATS), op, rng.choice(NUMS[:5])]
    if k < 0.5:
        return [rng.choice(["WOPR", "WWCT", "WGOR"]), rng.choice(WELLS), op, rng.choice(NUMS[:5])]
    if k < 0.7:
        rhs = [rng.choice(NUMS[:5])] if rng.random() < 0.7 else [rng.choice(["FOPR", "FWCT", "FGOR"])]
        return [rng.choice(["FOPR", "FWCT", "FGOR"]), op] + rhs
    if k < 0.8:
        return [rng.choice(["GOPR", "GWCT"]), "G1", op, rng.choice(NUMS[:5])]
    if k < 0.87:
        return ["DAY", op, rng.choice(NUMS)]
    if k < 0.95:
        return ["MNTH", op, rng.choice(MONTHS) if rng.random() < 0.6 else rng.choice(NUMS)]
    return ["YEAR", op, rng.choice(["2020", "2021"])]


def rand_cond(rng, nleaves, depth):
    if nleaves == 1:
        return rand_leaf(rng)
    k = rng.randint(1, nleaves - 1)
    left, right = rand_cond(rng, k, depth + 1), rand_cond(rng, nleaves - k, depth + 1)
    if depth < 3 and rng.random() < 0.35 and k > 1:
        left = ["("] + left + [")"]
    if depth < 3 and rng.random() < 0.35 and nleaves - k > 1:
        right = ["("] + right + [")"]
    return left + [rng.choice(["AND", "OR"])] + right


def rand_sv(rng):
    v = lambda: rng.choice([0, 1, 2, 3])
    return {"f": {q: v() for q in ("FOPR", "FWCT", "FGOR")},
            "w": {q: {w: v() for w in WELLS} for q in ("WOPR", "WWCT", "WGOR")},
            "g": {q: v() for q in ("GOPR", "GWCT")},
            "day": rng.randint(1, 12), "mnth": rng.randint(1, 12), "year": rng.choice([2020, 2021])}


def run(opts):
    chk = vf.Check(PID)
    vf.build_repo()
    exe_c = vf.build_harness("actcond")
    exe_t = vf.build_harness("acttrig")
    rng = random.Random(chk.seed)
    cases, scripts = [], []
    if opts.get("replay"):
        rec = json.load(open(opts["replay"]))
        if rec.get("layer") == "trigger":
            scripts = [rec["script"]]
        else:
            ev = rec.get("case") or rec["event"]
            cases = [{"toks": ev["toks"], "sv": ev["sv"], "wlists": ev.get("wlists", {}), "deck": True}]
    else:
        # ---- design level
        r = vf.tlc("MC_ActionCond", chk.pick("MC_ActionCond_q.cfg", "MC_ActionCond_fix2.cfg"), timeout=2400)
        if r.violated:
            chk.violation({"kind": "model", "layer": "condition", "invariant": r.violated, "trace": r.trace_text},
                          "ActionCond: implementation transcription disagrees with the reference (%s)" % r.violated)
        vf.require_clean(r, "MC_ActionCond")
        chk.add_tlc(r)
        g0 = vf.tlc("MC_ActionCond", "MC_ActionCond_fix0.cfg", timeout=900)
        if g0.violated != "Agree":
            raise vf.ToolingError("vacuity guard: the transcription of the unrepaired algorithm should violate Agree")
        chk.notes["vacuity_guard"] = "FixLevel=0 (tree before b983da9c5) violates Agree as expected"
        r = vf.tlc("MC_ActionTrigger", "MC_ActionTrigger.cfg", timeout=1500)
        if r.violated:
            chk.violation({"kind": "model", "layer": "trigger", "invariant": r.violated, "trace": r.trace_text},
                          "ActionTrigger invariant %s violated" % r.violated)
        vf.require_clean(r, "MC_ActionTrigger", ["MDefine", "MTick", "MStep", "MRestart"])
        chk.add_tlc(r)
        # ---- condition cases: TLC-enumerated (all conditions <= 2 comparisons x all value patterns)
        g = vf.tlc("MC_ActionCond", "Gen_ActionCond.cfg", timeout=900, coverage=False)
        vf.require_clean(g, "Gen_ActionCond")
        chk.add_tlc(g)
        for i, c in enumerate(g.gen):
            sv = c["sv"]
            sv["g"] = {}
            cases.append({"toks": c["toks"], "sv": sv, "wlists": {}, "deck": i % 7 == 0, "src": "tlc"})
        chk.notes["tlc_condition_cases"] = len(g.gen)
        # ---- seeded random conditions over the rich alphabet
        for i in range(chk.pick(4000, 120000)):
            n = rng.choice([1, 2, 2, 3, 3, 4, 5, 6, 8])
            cases.append({"toks": rand_cond(rng, n, 0), "sv": rand_sv(rng),
                          "wlists": {"*LST": ["P1", "I1"], "*EMP": []}, "deck": i % 5 == 0, "src": "random"})
        # ---- trigger scripts from TLC simulation
        gt = vf.tlc("MC_ActionTrigger", "Gen_ActionTrigger.cfg", simulate=chk.pick(60, 1500), depth=16,
                    seed=chk.seed % 100000, workers=4, coverage=False, timeout=900)
        vf.require_clean(gt, "Gen_ActionTrigger")
        seen = set()
        for x in gt.gen:
            k = json.dumps(x)
            if k not in seen:
                seen.add(k)
                scripts.append(x)
        scripts = scripts[:chk.pick(3000, 60000)]
        chk.notes["trigger_scripts"] = len(scripts)

    events = 0
    if cases:
        cpath = os.path.join(chk.rundir, "cases.ndjson")
        tpath = os.path.join(chk.rundir, "ctrace.ndjson")
        for lo in range(0, len(cases), 20000):
            part = cases[lo:lo + 20000]
            vf.write_ndjson(cpath, part)
            rc, out, _ = vf.sh([exe_c, cpath, tpath], timeout=3000)
            if rc != 0:
                raise vf.ToolingError("harness actcond failed rc=%d: %s" % (rc, out[-2000:]))
            n = sum(1 for _ in open(tpath))
            events += n
            acc = vf.validate_trace_segments(chk, "Trace_ActionCond", "Trace_ActionCond.cfg", tpath)
            if acc:
                chk.traces += n - 1
        chk.evaluations += len(cases)
    if scripts:
        spath = os.path.join(chk.rundir, "scripts.ndjson")
        tpath = os.path.join(chk.rundir, "ttrace.ndjson")
        vf.write_ndjson(spath, scripts)
        rc, out, _ = vf.sh([exe_t, spath, tpath, os.path.join(vf.REPO, "tests", "SPE1CASE2.X0060")], timeout=3000)
        if rc != 0:
            raise vf.ToolingError("harness acttrig failed rc=%d: %s" % (rc, out[-2000:]))
        events += sum(1 for _ in open(tpath))
        by_id = dict(enumerate(scripts))
        chk.traces += vf.validate_trace_segments(
            chk, "Trace_ActionTrigger", "Trace_ActionTrigger.cfg", tpath,
            script_of_segment=lambda seg: by_id.get(seg["id"]))
        chk.evaluations += len(scripts)
    for v in chk.violations:
        pass
    chk.distinct = len({json.dumps(c["toks"]) for c in cases if len(c["toks"]) > 4}) + len(scripts)
    chk.notes["trace_events"] = events
    chk.rule = ("conditions: every token list with <= 2 comparisons over {scalar, two well patterns, single well} x all "
                "32 value patterns (TLC) + seeded random token lists with 1..8 comparisons, nesting <= 3, over field/"
                "group/well quantities, patterns, well lists, DAY/MNTH/YEAR, 12 operator spellings, random summary "
                "values; every 5th/7th also through deck text -> Parser -> parseActionX.  trigger: TLC-simulated scripts "
                "of define/tick/step/restart (3 actions, max_run 0..3, min_wait -1..5).  distinct = distinct token lists "
                "with more than one comparison + distinct trigger scripts")
    for c in cases[:1] + cases[-2:]:
        chk.sample({"toks": " ".join(c["toks"]), "sv": c["sv"], "src": c.get("src")})
    for s in scripts[:1]:
        chk.sample(s)
    chk.assumptions = ["summary values are small integers (comparison semantics, not floating point, is the subject)",
                       "the simulator's action loop is the harness loop: run every pending action whose condition holds",
                       "restart carries (name, max_run, run count, min_wait, last run) per action as RstAction does"]
    return chk.finish()
