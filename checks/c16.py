"""C16 - automatic differentiation returns exact values and derivatives in every variant.

Specification: spec/DualNumbers.tla - the differentiation rules (sum, product,
quotient, chain rule for every math function, pow with Evaluation/scalar base
and exponent, atan2, abs/min/max by value) over terms that are exact rationals
wherever possible and named real functions elsewhere; design laws checked by
TLC (MC_DualNumbers).  Binding: TLC derives, for every generated program,
the value term and all derivative terms (Oracle_AD); harness/adprog runs the
program with the real Evaluation types - specialisations 1..12, generic static
13..16, dynamic - evaluates the terms with <cmath> and compares every slot;
static and dynamic variants must also agree with each other exactly.
"""
import json
import os
import random

import adgen
import vf

PID = "C16"
OPTS = {"link_lib": False, "header_only_deps": ["opm/material/densead", "opm/material/common"]}
vf.HARNESS_OPTS["adprog"] = OPTS


def run(opts):
    chk = vf.Check(PID)
    exe = vf.build_harness("adprog", **OPTS)
    rng = random.Random(chk.seed)
    if opts.get("replay"):
        cases = [json.load(open(opts["replay"]))["case"]]
    else:
        r = vf.tlc("MC_DualNumbers", "MC_DualNumbers.cfg", timeout=900)
        if r.violated:
            chk.violation({"kind": "model", "invariant": r.violated, "trace": r.trace_text},
                          "DualNumbers: design law violated")
        vf.require_clean(r, "MC_DualNumbers")
        chk.add_tlc(r)
        cases = []
        for i in range(chk.pick(4000, 80000)):
            nv = rng.choice([1, 2, 2, 3, 3, 4])
            sizes = rng.sample(range(1, 13), 3) + rng.sample(range(13, 17), 1) + [rng.randint(1, 16)]
            cases += adgen.cases_for(rng, len(cases), nv, rng.choice([1, 2, 3, 4, 6, 8]), sizes)
    nbad = 0
    for lo in range(0, len(cases), 25000):
        part = cases[lo:lo + 25000]
        exp, skipped, states = vf.tlc_oracle("Oracle_AD", "Oracle_AD.cfg", part, chk.rundir)
        chk.states += states[0]
        chk.transitions += states[1]
        chk.notes["oracle_overflow_skipped"] = chk.notes.get("oracle_overflow_skipped", 0) + skipped
        cpath = os.path.join(chk.rundir, "cases.ndjson")
        epath = os.path.join(chk.rundir, "exp.ndjson")
        tpath = os.path.join(chk.rundir, "trace.ndjson")
        vf.write_ndjson(cpath, part)
        vf.write_ndjson(epath, list(exp.values()))
        rc, out, _ = vf.sh([exe, cpath, epath, tpath], timeout=6000)
        if rc != 0:
            raise vf.ToolingError("harness adprog failed rc=%d: %s" % (rc, out[-2000:]))
        byid = {c["id"]: c for c in part}
        for ev in vf.read_ndjson(tpath):
            if ev["e"] != "Run" or ev.get("why") == "no expectation":
                continue
            chk.evaluations += 1
            chk.traces += 1
            if ev.get("fragile"):
                chk.notes["reference_discontinuous_set_aside"] = chk.notes.get("reference_discontinuous_set_aside", 0) + 1
            if not ev["ok"]:
                case = byid[ev["id"]]
                chk.violation({"kind": "ad-mismatch", "why": ev["why"], "case": case, "expected": exp.get(ev["id"])},
                              "AD program (N=%d) %s -- %s" % (case["n"], json.dumps(case["prog"])[:300], ev["why"][:300]))
    chk.distinct = len({json.dumps([{k: v for k, v in op.items() if k != "i"} for op in c["prog"]]) for c in cases})
    chk.rule = ("seeded random postfix programs (1..8 operations over 1..4 variables) over + - * / unary minus, compound "
                "assignment, Evaluation/scalar mixed forms on both sides, pow (three overloads), sqrt exp log log10 sin cos "
                "tan asin acos atan atan2 sinh cosh asinh acosh abs min max, arguments kept inside the functions' domains; "
                "each program instantiated for five derivative counts (3 of 1..12, 1 of 13..16, 1 random) with the "
                "variables in random slots, and run in the static and the dynamic variant.  distinct = distinct "
                "programs modulo variable slots")
    for c in cases[:3]:
        chk.sample({"n": c["n"], "prog": c["prog"]})
    chk.assumptions = ["a slot whose reference expression itself jumps when its constants are perturbed by 4e-9 relative (atan2 on its "
                       "branch cut, abs / min / max at a tie, an exact cancellation in front of one) is set aside and counted",
                       "<cmath> in long double is the numeric reference for the named functions; agreement 2e-10 relative+absolute",
                       "abs/min/max only on rational values without ties (sign and order decided by TLC)",
                       "leaves are created with createVariable(value, pos)/createConstant(value); the generic static "
                       "implementation's (nVars, ...) overloads do not compile / throw and are not used"]
    return chk.finish()
