"""X04 (beyond the listed properties) - which report steps get restart output.

Specification: spec/RstOutput.tla - RSTConfig (RPTRST / RPTSCHED / RPTSOL, the
persistent list of requested arrays, ALLPROPS), SAVE, the per-step decision
ScheduleState::rst_file (BASIC 0..5, FREQ, first report step of a year /
month, time since the last output) and the Schedule's record of output events
as one state machine.  TLC model-checks the design rules (always / never,
every n-th step, yearly / monthly spacing, no year / month skipped with
FREQ <= 1, decisions never revised by later input).  harness/rstout builds the
real Schedule of decks rendered from TLC-generated and random input histories
- including schedules of more than 64 and 128 report steps, where the output
record crosses a word boundary - and Trace_RstOutput validates, block by
block, the configuration the library holds and what write_rst_file answers.
"""
import json
import os
import random

import vf

PID = "X04"
NONE = -1
MONTHS = ["JAN", "FEB", "MAR", "APR", "MAY", "JUN", "JUL", "AUG", "SEP", "OCT", "NOV", "DEC"]
NAMES = ["FIP", "KRO", "RSSAT"]
HEAD = """RUNSPEC
DIMENS
 2 2 1 /
OIL
WATER
START
 1 '%s' 2020 /
GRID
DX
 4*100 /
DY
 4*100 /
DZ
 4*10 /
TOPS
 4*2000 /
PORO
 4*0.2 /
PERMX
 4*100 /
PROPS
SOLUTION
"""


def mn_text(mn):
    return " ".join("%s=%d" % (n, v) for n, v in sorted(mn.items()))


def op_text(o):
    if o["op"] == "SAVE":
        return "SAVE\n"
    if o["op"] in ("RPTRSTI", "RPTSCHEDI"):
        return "%s\n %s /\n" % (o["op"][:-1], " ".join(str(i) for i in o["ints"]))
    parts = []
    if o["op"] == "RPTRST":
        if o["basic"] != NONE:
            parts.append("BASIC=%d" % o["basic"])
        if o["freq"] != NONE:
            parts.append("FREQ=%d" % o["freq"])
    else:
        if o.get("nothing"):
            parts.append("NOTHING")
        if o["restart"] != NONE:
            parts.append("RESTART=%d" % o["restart"])
    if o["mn"]:
        parts.append(mn_text(o["mn"]))
    return "%s\n %s /\n" % (o["op"], " ".join(parts))


def norm(o):
    o = dict(o)
    if "mn" in o and not isinstance(o["mn"], dict):
        o["mn"] = {}
    return o


def render(h):
    """deck text and the script (operations echoed into the trace with mnemonics as pair lists)"""
    sol = [norm(o) for o in h["sol"]]
    blocks = [{"ops": [norm(o) for o in b["ops"]], "dm": b["dm"]} for b in h["blocks"]]
    t = HEAD % MONTHS[h["m0"]]
    for o in sol:
        t += op_text(o)
    t += "SCHEDULE\n"
    ym, day = 2020 * 12 + h["m0"], 1
    for i, b in enumerate(blocks):
        for o in b["ops"]:
            t += op_text(o)
        if i + 1 < len(blocks):
            if b["dm"] == 0:
                day += 1
            else:
                ym, day = ym + b["dm"], 1
            t += "DATES\n %d '%s' %d /\n/\n" % (day, MONTHS[ym % 12], ym // 12)
    t += "END\n"

    def echo(o):
        o = dict(o)
        if "mn" in o:
            o["mn"] = [[n, v] for n, v in sorted(o["mn"].items())]
        return o
    return {"deck": t, "m0": h["m0"], "sol": [echo(o) for o in sol], "blocks": [{"ops": [echo(o) for o in b["ops"]], "dm": b["dm"]} for b in blocks]}


def rand_mn(rng, allprops=False):
    r = rng.random()
    if r < 0.5:
        return {}
    if allprops and r < 0.6:
        return {"ALLPROPS": rng.choice([1, 2])}
    return {n: rng.choice([1, 2]) for n in rng.sample(NAMES, rng.choice([1, 1, 2]))}


def rand_op(rng):
    r = rng.random()
    if r < 0.12:
        return rng.choice([{"op": "RPTRSTI", "ints": rng.choice([[2], [0], [1], [3, 0, 1], [0, 1, 1, 0, 0, 2], [4, 0, 0, 0, 0, 0, 1], [5, 1, 0, 0, 0, 3, 0, 0, 1], [3, 0, 0, 0, 0, 0]])},
                           {"op": "RPTSCHEDI", "ints": rng.choice([[1, 1], [0, 0, 0, 0, 0, 0, 2], [0, 0, 0, 0, 0, 0, 0, 1, 1], [0, 0, 0, 0, 0, 0, 1, 2], [0, 0, 0, 0, 0, 0, 3]])}])
    if r < 0.5:
        return {"op": "RPTRST", "basic": rng.choice([NONE, NONE, 0, 1, 2, 3, 3, 4, 4, 5, 5]), "freq": rng.choice([NONE, NONE, 0, 1, 2, 3, 5]), "mn": rand_mn(rng, True)}
    if r < 0.85:
        return {"op": "RPTSCHED", "nothing": rng.random() < 0.2, "restart": rng.choice([NONE, NONE, 0, 1, 2, 3]), "mn": rand_mn(rng)}
    return {"op": "SAVE"}


def rand_history(rng, nsteps):
    sol = []
    for _ in range(rng.choice([0, 1, 1, 2])):
        if rng.random() < 0.5:
            sol.append({"op": "RPTSOL", "restart": rng.choice([NONE, 1, 2, 3]), "mn": rand_mn(rng)})
        else:
            sol.append({"op": "RPTRST", "basic": rng.choice([NONE, 0, 1, 2, 3, 4, 5]), "freq": rng.choice([NONE, 0, 1, 2, 3]), "mn": rand_mn(rng, True)})
    blocks, day = [], 1
    quiet = nsteps > 20
    for i in range(nsteps + 1):
        p = 0.12 if quiet else 0.6
        ops = [rand_op(rng) for _ in range(3) if rng.random() < p / (1 + _)]
        dm = rng.choice([0, 0, 1, 1, 1, 2, 7, 12, 14, 25]) if not quiet else rng.choice([0, 0, 1, 1, 1, 1, 2, 3, 12])
        if dm == 0 and day >= 27:
            dm = 1
        day = day + 1 if dm == 0 else 1
        blocks.append({"ops": ops, "dm": dm})
    return {"sol": sol, "m0": rng.choice([0, 5, 10, 11]), "blocks": blocks}


def run(opts):
    chk = vf.Check(PID)
    vf.build_repo()
    exe = vf.build_harness("rstout")
    rng = random.Random(chk.seed)
    if opts.get("replay"):
        scripts = [json.load(open(opts["replay"]))["script"]]
    else:
        r = vf.tlc("MC_RstOutput", chk.pick("MC_RstOutput_quick.cfg", "MC_RstOutput.cfg"), timeout=3000)
        if r.violated:
            chk.violation({"kind": "model", "invariant": r.violated, "trace": r.trace_text}, "RstOutput: design property violated")
        vf.require_clean(r, "MC_RstOutput")
        chk.add_tlc(r)
        g = vf.tlc("Gen_RstOutput", "Gen_RstOutput.cfg", simulate=chk.pick(100, 1500), depth=25, seed=chk.seed % 100000 + 3, workers=4, timeout=1200)
        hs = [x for x in g.gen][: chk.pick(300, 5000)]
        for _ in range(chk.pick(500, 8000)):
            hs.append(rand_history(rng, rng.choice([3, 5, 8, 12])))
        for _ in range(chk.pick(40, 600)):
            hs.append(rand_history(rng, rng.choice([66, 70, 130, 140, 200])))
        scripts = [render(h) for h in hs]
        chk.notes["tlc_generated_histories"] = len(g.gen)
    for n, s in enumerate(scripts):
        s["id"] = n
    spath = os.path.join(chk.rundir, "scripts.ndjson")
    tpath = os.path.join(chk.rundir, "trace.ndjson")
    errors = 0
    for lo in range(0, len(scripts), 400):
        part = scripts[lo:lo + 400]
        vf.write_ndjson(spath, part)
        rc, out, _ = vf.sh([exe, spath, tpath], timeout=3000)
        if rc != 0:
            raise vf.ToolingError("harness rstout failed rc=%d: %s" % (rc, out[-2000:]))
        errors += sum(1 for ln in open(tpath) if '"e":"Error"' in ln)
        chk.evaluations += sum(1 for ln in open(tpath) if '"e":"Block"' in ln)
        by_id = {s["id"]: s for s in part}
        chk.traces += vf.validate_trace_segments(chk, "Trace_RstOutput", "Trace_RstOutput.cfg", tpath,
                                                 script_of_segment=lambda seg: by_id.get(seg["id"]))
    chk.distinct = len(scripts)
    chk.notes["schedules_refused_by_the_library"] = errors
    chk.rule = ("%d input histories: TLC behaviours of spec/RstOutput.tla (6 report steps, up to 2 keywords per block) and random histories of 3-200 report steps "
                "over RPTSOL / RPTRST (BASIC none,0..5; FREQ none,0..5; ALLPROPS and three array mnemonics) / RPTSCHED (NOTHING, RESTART none,0..3) / SAVE, "
                "calendars stepping 0-25 months") % len(scripts)
    chk.sample({"sol": scripts[0]["sol"], "blocks": scripts[0]["blocks"][:3]})
    chk.assumptions = ["not one of the listed properties: additional specification coverage (DESIGN.md 12.7)",
                       "the positional integer style of RPTRST / RPTSCHED with fewer than 26 integers; RPTSOL in mnemonic style only", "BASIC > 5 (refused by the library) is not generated"]
    return chk.finish()
