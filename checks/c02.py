"""C02 - unit conversion is invertible, composable, physical and deck-unit independent.

Specification: spec/Units.tla - every unit system chooses units for a few
base quantities (terms over physical constants: foot, inch, pound, standard
gravity, gallon = 231 in3, barrel = 42 gal, atm, day ...); every measure and
named dimension is a product of powers of base quantities, its SI factor the
product of the base factors (the compositional law), only the relative
temperature has an offset.  TLC emits the factor and offset terms for all 4 x
46 (system, measure) pairs and for every composite dimension string used by
any keyword definition (Oracle_Units); harness/units evaluates them under the
physical constants and reports UnitSystem::to_si / from_si (scalar and array
overloads), getDimension and parse for the same.  A physical model is also
written as a deck in the four unit systems (deck values = SI / specified
factor) and the SI values of the parsed Decks compared (harness/deckparse).
"""
import glob
import json
import os
import random
import re

import vf

PID = "C02"
SYSTEMS = ["METRIC", "FIELD", "LAB", "PVT-M"]
MEASURES = ["identity", "length", "time", "runtime", "density", "pressure", "temperature_absolute", "temperature", "viscosity",
            "permeability", "area", "liquid_surface_volume", "gas_surface_volume", "volume", "geometric_volume", "liquid_surface_rate",
            "gas_surface_rate", "rate", "geometric_volume_rate", "pipeflow_velocity", "transmissibility", "effective_Kh", "mass", "mass_rate",
            "gas_oil_ratio", "oil_gas_ratio", "water_cut", "gas_formation_volume_factor", "oil_formation_volume_factor",
            "water_formation_volume_factor", "gas_inverse_formation_volume_factor", "oil_inverse_formation_volume_factor",
            "water_inverse_formation_volume_factor", "liquid_productivity_index", "gas_productivity_index", "energy", "energy_rate",
            "icd_strength", "aicd_strength", "polymer_density", "salinity", "gas_oil_ratio_rate", "moles", "ppm", "ymodule", "dfactor"]
RTOL = 1e-12
CONV_TOL = 1e-7        # the darcy and the Btu are conventional constants


def tol_for(term_json):
    s = json.dumps(term_json)
    return CONV_TOL if ("millidarcy" in s or "btu" in s) else RTOL


def close(a, b, tol):
    if a == b:
        return True
    return abs(a - b) <= tol * max(abs(a), abs(b))


def dimension_strings():
    out = set()

    def walk(x):
        if isinstance(x, dict):
            for k, v in x.items():
                if k == "dimension":
                    for d in (v if isinstance(v, list) else [v]):
                        out.add(d)
                else:
                    walk(v)
        elif isinstance(x, list):
            for y in x:
                walk(y)
    for f in glob.glob("/repo/opm/input/eclipse/share/keywords/*/*/*"):
        try:
            walk(json.load(open(f)))
        except Exception:
            pass
    return sorted(out)


# the physical model for the re-expression test: (keyword, record layout, [(dimension as measure, SI value)])
MODEL = [
    ("EQUIL", ["length", "pressure", "length", "pressure", "length", "pressure"], [2000.0, 2.5e7, 2100.0, 1.0e4, 1900.0, 0.0]),
    ("DENSITY", [None, "density", "density"], [600.0, 1020.0, 0.9]),          # (oil density defaulted)
    ("PVTW", ["pressure", "water_formation_volume_factor", None, "viscosity", None], [2.0e7, 1.02, 4.0e-10, 3.0e-4, 0.0]),
    ("ROCK", [None, None], [1.0132e5, 0.0]),                                    # (reference pressure defaulted)
    ("TSTEP", ["time", "time"], [86400.0 * 3, 86400.0 * 0.5]),
]


def run(opts):
    chk = vf.Check(PID)
    vf.build_repo()
    exe = vf.build_harness("units")
    cases = []
    for s in SYSTEMS:
        for m in MEASURES:
            cases.append({"id": len(cases), "sys": s, "kind": "measure", "m": m})
    dims = dimension_strings()
    for s in SYSTEMS:
        for d in dims:
            parts = d.split("/")
            if len(parts) > 2:
                continue
            cases.append({"id": len(cases), "sys": s, "kind": "dim", "str": d, "num": [x for x in parts[0].split("*") if x],
                          "den": [x for x in parts[1].split("*") if x] if len(parts) == 2 else []})
    exp, skipped, states = vf.tlc_oracle("Oracle_Units", "Oracle_Units.cfg", cases, chk.rundir)
    chk.states += states[0]
    chk.transitions += states[1]
    run_cases, unknown = [], set()
    for c in cases:
        e = exp.get(c["id"])
        if e is None:
            raise vf.ToolingError("Oracle_Units gave no result for %r" % c)
        if not e["known"]:
            unknown.add(c["str"])
            continue
        run_cases.append(dict(c, factor=e["factor"], offset=e.get("offset")))
    cpath = os.path.join(chk.rundir, "cases.ndjson")
    opath = os.path.join(chk.rundir, "out.ndjson")
    vf.write_ndjson(cpath, run_cases)
    rc, out, _ = vf.sh([exe, cpath, opath], timeout=3000)
    if rc != 0:
        raise vf.ToolingError("harness units failed rc=%d: %s" % (rc, out[-2000:]))
    byid = {c["id"]: c for c in run_cases}
    factors = {}
    for ev in vf.read_ndjson(opath):
        c = byid[ev["id"]]
        what = "%s %s" % (c["sys"], c.get("m") or c.get("str"))
        rec = {"kind": "unit-factor", "sys": c["sys"], "measure": c.get("m"), "dimension": c.get("str"), "script": {k: c[k] for k in c if k not in ("factor", "offset")}}
        if ev["res"] != "ok":
            if c["kind"] == "dim" and "offsets" in ev.get("what", ""):
                continue      # composite strings with the relative temperature are rejected by design
            chk.violation(dict(rec, kind="unit-error", what=ev.get("what")), "%s: %s" % (what, ev.get("what")))
            continue
        chk.evaluations += 1
        tol = tol_for(c["factor"])
        f = ev["factor"]
        if c["kind"] == "measure":
            factors[(c["sys"], c["m"])] = (f, ev["offset"])
            bad = []
            if not close(ev["to_si_1"] - ev["to_si_0"], f, tol):
                bad.append("to_si factor %.17g, physical definition %.17g" % (ev["to_si_1"] - ev["to_si_0"], f))
            if abs(ev["to_si_0"] - ev["offset"]) > 1e-9:
                bad.append("to_si offset %.17g, definition %.17g" % (ev["to_si_0"], ev["offset"]))
            if not close(ev["dim_scaling"], f, tol) or abs(ev["dim_offset"] - ev["offset"]) > 1e-9:
                bad.append("getDimension scaling %.17g offset %.17g, definition %.17g, %.17g" % (ev["dim_scaling"], ev["dim_offset"], f, ev["offset"]))
            for (x, s, b), (sa, ba) in zip(ev["scalar"], ev["array"]):
                if not close(s, x * f + ev["offset"], max(tol, 1e-12)) and abs(s - (x * f + ev["offset"])) > 1e-9 * abs(ev["offset"]):
                    bad.append("to_si(%g) = %.17g, definition %.17g" % (x, s, x * f + ev["offset"]))
                if not close(b, x, 1e-11) and abs(b - x) > 1e-9:
                    bad.append("from_si(to_si(%g)) = %.17g" % (x, b))
                if not close(sa, s, 1e-15) and abs(sa - s) > 1e-12:
                    bad.append("array to_si(%g) = %.17g, scalar %.17g" % (x, sa, s))
                if not close(ba, x, 1e-11) and abs(ba - x) > 1e-9:
                    bad.append("array from_si(to_si(%g)) = %.17g" % (x, ba))
            if bad:
                chk.violation(dict(rec, details=bad[:6]), "%s: %s" % (what, bad[0]))
        else:
            if not close(ev["dim_scaling"], f, tol) or abs(ev["dim_offset"] - ev["offset"]) > 1e-9:
                chk.violation(rec, "%s: parse() gives factor %.17g, product of the base factors %.17g" % (what, ev["dim_scaling"], f))
    # ---- the same physical model in four unit systems
    dexe = vf.build_harness("deckparse")
    scripts = []
    for s in SYSTEMS:
        lines = [s, "EQLDIMS", "/", "TABDIMS", "/"]
        for kw, ms, vals in MODEL:
            toks = []
            for m, v in zip(ms, vals):
                if m is None:
                    toks.append("1*")
                else:
                    f, o = factors.get((s, m), (1.0, 0.0))
                    toks.append("%.17g" % ((v - o) / f))
            lines += [kw, " " + " ".join(toks) + " /"]
        scripts.append({"id": s, "files": {"MAIN.DATA": "\n".join(lines) + "\n"}})
    spath = os.path.join(chk.rundir, "dscripts.ndjson")
    dpath = os.path.join(chk.rundir, "dout.ndjson")
    vf.write_ndjson(spath, scripts)
    rc, out, _ = vf.sh([dexe, spath, dpath, os.path.join(chk.rundir, "w")], timeout=3000)
    if rc != 0:
        raise vf.ToolingError("harness deckparse failed rc=%d: %s" % (rc, out[-2000:]))
    defaults = {}
    for ev in vf.read_ndjson(dpath):
        if ev["res"] != "ok":
            chk.violation({"kind": "unit-deck-error", "sys": ev["id"], "script": scripts[SYSTEMS.index(ev["id"])]}, "model deck in %s units rejected: %s" % (ev["id"], ev.get("what")))
            continue
        # every double entry - given or defaulted - converts to SI, back to deck units and to SI again without change
        for k in ev["deck"]:
            for rec in k["recs"]:
                for item in rec:
                    for e in item["e"]:
                        if e.get("again") is False:
                            chk.violation({"kind": "unit-deck-again", "sys": ev["id"], "keyword": k["name"], "item": item["name"], "script": scripts[SYSTEMS.index(ev["id"])]},
                                          "%s %s item %s: deck units -> SI -> deck units -> SI does not return the same values" % (ev["id"], k["name"], item["name"]))
        for (kw, ms, vals), k in zip(MODEL, ev["deck"][3:]):
            for n, (m, v) in enumerate(zip(ms, vals)):
                if m is None:
                    # a defaulted entry with a keyword default is the same physical quantity in every unit system
                    item = k["recs"][0][n]
                    e = item["e"][0] if item["e"] else {}
                    if e.get("si") not in (None, "none"):
                        defaults.setdefault((kw, item["name"]), {})[ev["id"]] = float.fromhex(e["si"])
                    continue
                item = k["recs"][0][n] if kw != "TSTEP" else k["recs"][0][0]
                e = item["e"][0 if kw != "TSTEP" else n]
                chk.evaluations += 1
                si = float.fromhex(e["si"]) if e.get("si") not in (None, "none") else None
                if si is None or not close(si, v, 1e-7 if m in ("permeability",) else 1e-12) and abs(si - v) > 1e-12 * max(1.0, abs(v)):
                    chk.violation({"kind": "unit-deck-si", "sys": ev["id"], "keyword": kw, "item": item["name"], "script": scripts[SYSTEMS.index(ev["id"])]},
                                  "%s %s item %s: SI value %r, the model's %r" % (ev["id"], kw, item["name"], si, v))
    for (kw, name), bysys in sorted(defaults.items()):
        vals = sorted(bysys.values())
        chk.evaluations += 1
        if vals and abs(vals[-1] - vals[0]) > 1e-9 * max(1.0, abs(vals[0])):
            chk.violation({"kind": "unit-deck-default", "keyword": kw, "item": name, "values": bysys, "script": scripts[0]},
                          "%s item %s defaulted: SI value differs between unit systems: %r" % (kw, name, bysys))
    chk.notes["defaulted_items_compared_across_unit_systems"] = len(defaults)
    chk.distinct = len(run_cases)
    chk.notes["dimension_strings"] = len(dims)
    chk.notes["dimension_strings_with_names_outside_the_specification"] = sorted(unknown)
    chk.rule = ("all 4 unit systems x all 46 UnitSystem::measure entries (factor, offset, getDimension, scalar and array to_si / from_si "
                "on 8 sample values incl. 0, negative, 60 F, tiny and huge) and x all %d distinct dimension strings of the shipped keyword "
                "definitions (parse()); a 5-keyword physical model (EQUIL, DENSITY, PVTW, ROCK, TSTEP) written in each unit system" % len(dims))
    chk.exhaustive = True
    chk.sample(run_cases[5]["m"] if run_cases else "")
    chk.assumptions = ["physical constants: foot 0.3048 m, inch 0.0254 m, pound 0.45359237 kg, standard gravity 9.80665 m/s2, atm 101325 Pa, "
                       "gallon 231 in3, barrel 42 gal, day 86400 s; the darcy (9.869233e-13 m2) and the thermochemical Btu (1054.3503 J) are "
                       "conventions and compared to 1e-7, everything else to 1e-12 relative",
                       "composite dimension strings whose names the specification does not define (listed in the evidence) are not decided"]
    return chk.finish()
