"""C01 - the Deck is invariant under meaning-preserving layout.

Specification: spec/DeckSyntax.tla - texts as files of lines of lexemes, their
Meaning (records up to the slash across lines, comments and text after the
slash ignored, n*v / n* running on into following items, early record end,
record counts by size class from spec/DeckSchema.tla, INCLUDE files), and the
layout rewrites of the property as actions with their side conditions.  TLC
checks that every composition of rewrites keeps Meaning (MC_DeckSyntax) and
generates behaviours; every generated text is rendered to characters (blanks,
tabs, indentation, awkward comment and trailing texts), parsed by the real
Parser and its projected Deck compared (1) with the Meaning TLC computed and
(2) bit for bit, including defaulted flags and SI values, with the projection
of the base deck in canonical layout.
"""
import json
import os
import random

import decklay
import vf

PID = "C01"


def gen(cfg, simulate, seed, depth=12):
    g = vf.tlc("MC_DeckSyntax", cfg, simulate=simulate, depth=depth, seed=seed, workers=4, timeout=2400, dedupe_gen=True, max_gen=60000)
    g.out = ""
    seen, out = set(), []
    for x in g.gen:
        key = json.dumps(x["text"], sort_keys=True)
        if key not in seen:
            seen.add(key)
            out.append(x)
    return out


def same_value(obs, exp, typ):
    if exp is None or obs is None:
        return exp is None and obs is None
    if typ in ("double", "uda") and isinstance(obs, str) and obs.startswith(("0x", "-0x")):
        try:
            return float.fromhex(obs) == float.fromhex(exp)
        except (ValueError, TypeError):
            return False
    return obs == exp


def structure_diff(spec_deck, obs_deck):
    """first difference between the Meaning computed by TLC and the projected Deck, or None"""
    if [k["name"] for k in spec_deck] != [k["name"] for k in obs_deck]:
        return "keyword sequence %s, expected %s" % ([k["name"] for k in obs_deck], [k["name"] for k in spec_deck])
    for ks, ko in zip(spec_deck, obs_deck):
        if len(ks["recs"]) != len(ko["recs"]):
            return "%s has %d records, expected %d" % (ks["name"], len(ko["recs"]), len(ks["recs"]))
        for r, (rs, ro) in enumerate(zip(ks["recs"], ko["recs"])):
            if len(rs) != len(ro):
                return "%s record %d has %d items, expected %d" % (ks["name"], r + 1, len(ro), len(rs))
            for i, (its, ito) in enumerate(zip(rs, ro)):
                exp = decklay.expected_entries(its, ito["type"])
                got = ito["e"]
                if len(exp) != len(got):
                    return "%s record %d item %s has %d entries, expected %d" % (ks["name"], r + 1, ito["name"], len(got), len(exp))
                for n, ((d, v), g) in enumerate(zip(exp, got)):
                    if d != g["def"]:
                        return "%s record %d item %s entry %d: defaulted=%s, expected %s" % (ks["name"], r + 1, ito["name"], n + 1, g["def"], d)
                    if not d and not same_value(g["v"], v, ito["type"]):
                        return "%s record %d item %s entry %d: value %r, expected %r" % (ks["name"], r + 1, ito["name"], n + 1, g["v"], v)
    return None


def parse_all(chk, exe, scripts, roundtrip=False):
    spath = os.path.join(chk.rundir, "scripts.ndjson")
    opath = os.path.join(chk.rundir, "out.ndjson")
    vf.write_ndjson(spath, scripts)
    rc, out, _ = vf.sh([exe, spath, opath, os.path.join(chk.rundir, "w")] + (["roundtrip"] if roundtrip else []), timeout=6000)
    if rc != 0:
        raise vf.ToolingError("harness deckparse failed rc=%d: %s" % (rc, out[-2000:]))
    return {ev["id"]: ev for ev in vf.read_ndjson(opath)}


def run(opts):
    chk = vf.Check(PID)
    vf.build_repo()
    exe = vf.build_harness("deckparse")
    rng = random.Random(chk.seed)
    if opts.get("replay"):
        rp = json.load(open(opts["replay"]))
        gens = [rp["script"]]
        bases = {rp["script"]["base"]: rp["base_script"]}
    else:
        r = vf.tlc("MC_DeckSyntax", "MC_DeckSyntax.cfg", timeout=3000)
        if r.violated:
            chk.violation({"kind": "model", "invariant": r.violated, "trace": r.trace_text}, "DeckSyntax: a layout rewrite changes the meaning in the specification")
        vf.require_clean(r, "MC_DeckSyntax")
        chk.add_tlc(r)
        bases = {x["base"]: x for x in gen("Base_DeckSyntax.cfg", 3, 1, depth=2)}
        if len(bases) != 3:
            raise vf.ToolingError("expected 3 base decks from TLC, got %d" % len(bases))
        gens = gen("Gen_DeckSyntax.cfg", chk.pick(60, 400), chk.seed % 100000)
        # shorter rewrite chains as well: a single rewrite isolates its rule
        gens += gen("Gen1_DeckSyntax.cfg", chk.pick(40, 150), chk.seed % 100000 + 1, depth=4)
    scripts = []
    for b, x in bases.items():
        scripts.append({"id": "base-" + b, "files": decklay.render(x["text"], random.Random(1))})
    for n, x in enumerate(gens):
        x["seed"] = x.get("seed", rng.randrange(1 << 30))
        scripts.append({"id": n, "files": decklay.render(x["text"], random.Random(x["seed"]))})
    res = parse_all(chk, exe, scripts)
    for b, x in bases.items():
        ev = res["base-" + b]
        d = "rejected: " + ev.get("what", "") if ev["res"] != "ok" else structure_diff(x["deck"], ev["deck"])
        if d:
            chk.violation({"kind": "deck-structure", "base": b, "rewrites": [], "script": x, "base_script": x, "diff": d},
                          "base deck %s in canonical layout: %s" % (b, d))
    rules = {}
    for n, x in enumerate(gens):
        ev, bev = res[n], res["base-" + x["base"]]
        chk.traces += 1
        kinds = sorted({h[0] for h in x["hist"]})
        for k in kinds:
            rules[k] = rules.get(k, 0) + 1
        rec = {"base": x["base"], "rewrites": kinds, "script": x, "base_script": bases[x["base"]], "files": scripts[len(bases) + n]["files"]}
        if ev["res"] != "ok":
            chk.violation(dict(rec, kind="deck-parse-error", what=ev.get("what")), "re-laid-out deck rejected (%s): %s" % (kinds, ev.get("what", "")[:160]))
            continue
        chk.evaluations += sum(len(r) for k in ev["deck"] for r in k["recs"])
        d = structure_diff(x["deck"], ev["deck"])
        if d:
            chk.violation(dict(rec, kind="deck-structure", diff=d), "deck differs from its specified meaning after %s: %s" % (kinds, d))
            continue
        if bev["res"] == "ok" and ev["deck"] != bev["deck"]:
            chk.violation(dict(rec, kind="deck-layout"), "deck differs from the deck of the canonical layout after %s" % kinds)
    chk.distinct = len(gens)
    chk.notes["rewrite_rule_use"] = rules
    chk.rule = ("3 base decks (16 keywords: TITLE, fixed-size, sized by EQLDIMS/TABDIMS incl. defaulted and absent, slash-terminated, "
                "data arrays with and without default, raw-string UDQ, UDA items, strings with blanks/'='/'*') x chains of up to 6 "
                "rewrites from {comment at line end, comment line, blank line, keyword case, line break inside a record, text after "
                "the slash, INCLUDE split, contract / expand repeat counts, truncate / pad trailing defaults} generated by TLC "
                "simulation (%d texts), each rendered with random blanks/tabs/indentation and 6 comment and 4 trailing texts "
                "containing quotes and slashes; exhaustive check of all <= 2-rewrite compositions in the model" % len(gens))
    for x in gens[:1]:
        chk.sample({"base": x["base"], "hist": x["hist"]})
    chk.assumptions = ["the keyword structure (size class, items) is the committed spec/DeckSchema.tla, generated from the shipped keyword "
                       "definitions", "line breaks are only placed before numbers, repeat tokens, quoted strings or the slash; INCLUDE splits "
                       "at keyword boundaries; trailing text contains no quotes (the statement's side conditions)",
                       "shipped decks are not re-laid-out (only the grammar decks)"]
    return chk.finish()
