"""C12 - cell property arrays equal sequential application of the keyword operations.

Specification: spec/Oracle_FieldProps.tla, a reference interpreter over arrays
on ALL cells with a value and a status per cell (uninitialised / keyword
default / given), applying direct assignment with defaulted entries, BOX /
ENDBOX, EQUALS, ADD, MULTIPLY, MINVALUE, MAXVALUE, COPY, OPERATE, EQUALREG,
ADDREG, MULTIREG, COPYREG, OPERATER in input order; only active cells are
read, so independence of the inactive cells is part of the oracle.  TLC
evaluates it on every generated program; harness/fieldprops builds the real
EclipseState from the rendered deck and compares every touched array (values
and defaulted flags of the active cells, or input error) with TLC's result.
"""
import json
import os
import random

import fpgen
import vf

PID = "C12"


def run(opts):
    chk = vf.Check(PID)
    vf.build_repo()
    exe = vf.build_harness("fieldprops")
    rng = random.Random(chk.seed)
    if opts.get("replay"):
        cases = [json.load(open(opts["replay"]))["case"]]
    else:
        cases = [fpgen.rand_program(rng, i, rng.choice([3, 6, 10, 16, 25])) for i in range(chk.pick(10000, 200000))]
        # every program also with all cells active: same values in the cells active in both
        extra = []
        for c in cases[: len(cases) // 4]:
            d = dict(c)
            d["id"] = len(cases) + len(extra)
            d["actnum"] = [1] * len(c["actnum"])
            d["deck"] = fpgen.render(c["dims"], d["actnum"], c["prog"])
            d["twin"] = c["id"]
            extra.append(d)
        cases += extra
    outcomes = {"ok": 0, "error": 0, "unspecified": 0}
    for lo in range(0, len(cases), 20000):
        part = cases[lo:lo + 20000]
        exp, skipped, states = vf.tlc_oracle("Oracle_FieldProps", "Oracle_FieldProps.cfg",
                                             [{k: v for k, v in c.items() if k not in ("deck", "twin")} for c in part], chk.rundir)
        chk.states += states[0]
        chk.transitions += states[1]
        for e in exp.values():
            outcomes[e["res"]] += 1
        cpath = os.path.join(chk.rundir, "cases.ndjson")
        epath = os.path.join(chk.rundir, "exp.ndjson")
        tpath = os.path.join(chk.rundir, "trace.ndjson")
        vf.write_ndjson(cpath, part)
        vf.write_ndjson(epath, list(exp.values()))
        rc, out, _ = vf.sh([exe, cpath, epath, tpath], timeout=6000)
        if rc != 0:
            raise vf.ToolingError("harness fieldprops failed rc=%d: %s" % (rc, out[-2000:]))
        byid = {c["id"]: c for c in part}
        for ev in vf.read_ndjson(tpath):
            if ev["e"] != "Build" or ev.get("why") == "no expectation":
                continue
            chk.evaluations += 1
            if not ev.get("skipped"):
                chk.traces += 1
            if not ev["ok"]:
                case = byid[ev["id"]]
                chk.violation({"kind": "fieldprops-mismatch", "why": ev["why"], "case": case, "expected": exp.get(ev["id"])},
                              "field properties: %s\n%s" % (ev["why"][:300], case["deck"][case["deck"].index("ACTNUM"):][:600]))
    chk.distinct = len({json.dumps(c["prog"]) for c in cases if len(c["prog"]) > 3})
    chk.notes["expected_outcomes"] = outcomes
    chk.rule = ("seeded random programs of 3..25 operations on grids (1..4)x(1..3)x(1..3) with random ACTNUM over double "
                "arrays PRATIO, BIOTCOEF (no default), NTG, MULTX (default 1), SWATINIT and integer arrays MULTNUM, OPERNUM, "
                "FLUXNUM, SATNUM, FIPNUM, EQLNUM in GRID / PROPS / REGIONS; a quarter of the programs is repeated with all "
                "cells active.  expected outcome per program: arrays, input error (operation on a cell without value, "
                "missing array, incomplete region array) or unspecified (COPY of keyword defaults).  distinct = distinct "
                "programs with more than 3 operations")
    for c in cases[:2]:
        chk.sample({"dims": c["dims"], "actnum": c["actnum"], "prog": c["prog"][:12]})
    chk.assumptions = ["integer-valued data in dimensionless keywords (no unit conversion, exact comparison to 1e-9)",
                       "PORO is given in full and not operated on (it decides pore volume and thereby activity); top-layer "
                       "distribution of PORO/PERM* and global-storage arrays (PERMX/Y/Z, MULTZ, MINPVV) are not exercised",
                       "EDIT-section multipliers and SCHEDULE-section updates are not exercised"]
    return chk.finish()
