"""C04 - applying an ACTIONX equals inlining its keywords; earlier steps are immutable.

Specification: spec/Schedule.tla generates inputs with ACTIONX definitions
(bodies over the supported action keywords, with "?" for the matched wells);
spec/Trace_ActionApply.tla states the relation between the original, the
applied and the inlined schedule.  Binding: harness/actapply applies the
actions with the real Schedule::applyAction (sequences with non-decreasing
step, all report steps at which the action exists, random match sets) and
parses the deck with the keywords inlined; TLC validates the snapshots.
"""
import json
import os
import random

import schedgen
import vf

PID = "C04"


def inline_text(body, wells):
    out = ""
    for k in body:
        if k.get("well") == "?":
            for w in sorted(wells):
                kk = dict(k)
                kk["well"] = w
                out += schedgen.kw_text(kk)
        else:
            out += schedgen.kw_text(k)
    return out


def make_script(rng, beh):
    blocks = beh["blocks"]
    nsteps = len(blocks)
    # definitions: (block index, name, body); wells known (with connections) per block
    defs, wells_at = [], []
    have = set()
    for bi, b in enumerate(blocks):
        for k in b:
            if k["kw"] == "COMPDAT":
                have.add(k["well"])
            if k["kw"] == "ACTIONX":
                defs.append((bi, k["name"], k["body"]))
        wells_at.append(set(have))
    if not defs:
        return None
    apps = []
    n_prev = 0
    for _ in range(rng.choice([1, 1, 2, 3])):
        cands = [d for d in defs if d[0] >= 0]
        bi, name, _ = rng.choice(cands)
        n = rng.randint(max(bi, n_prev), nsteps - 1)
        # the definition in force at step n
        body = [d for d in defs if d[1] == name and d[0] <= n][-1][2]
        if any(k["kw"] == "WPIMULT" for k in body) and (any(k["kw"] == "WPIMULT" for k in blocks[n]) or any(a["n"] == n and a["wpimult"] for a in apps)):
            continue        # WPIMULT is defined per report step (the property sets that interplay aside)
        needs = any(k.get("well") == "?" for k in body)
        pool = sorted(wells_at[n])
        if needs and not pool:
            continue
        m = rng.sample(pool, rng.randint(1 if needs else 0, len(pool))) if pool else []
        welpi = sorted({w for k in body if k["kw"] == "WELPI" for w in (m if k["well"] == "?" else [k["well"]])})
        apps.append({"n": n, "action": name, "wells": sorted(m), "inline": inline_text(body, m), "welpi": welpi,
                     "wpimult": any(k["kw"] == "WPIMULT" for k in body), "compdat": sorted({k["well"] for k in body if k["kw"] == "COMPDAT"})})
        n_prev = n
    if not apps:
        return None
    return {"head": schedgen.HEAD, "blocks": [schedgen.block_text(b) for b in blocks], "apps": apps}


def run(opts):
    chk = vf.Check(PID)
    vf.build_repo()
    exe = vf.build_harness("actapply")
    rng = random.Random(chk.seed)
    if opts.get("replay"):
        scripts = [json.load(open(opts["replay"]))["script"]]
    else:
        r = vf.tlc("MC_Schedule", "MC_Schedule.cfg", timeout=900)
        vf.require_clean(r, "MC_Schedule", ["Tstep", "SNext"])
        chk.add_tlc(r)
        g = vf.tlc("MC_Schedule", "Gen_Schedule.cfg", simulate=chk.pick(120, 3000), depth=24, seed=(chk.seed + 7) % 100000,
                   workers=4, coverage=False, timeout=1500)
        vf.require_clean(g, "Gen_Schedule")
        seen, scripts = set(), []
        gen = list(g.gen)
        rng.shuffle(gen)
        for x in gen:
            if "ACTIONX" not in json.dumps(x):
                continue
            k = json.dumps(x)
            if k in seen:
                continue
            seen.add(k)
            for _ in range(2):
                s = make_script(rng, x)
                if s:
                    scripts.append(s)
            if len(scripts) >= chk.pick(900, 25000):
                break
    spath = os.path.join(chk.rundir, "scripts.ndjson")
    tpath = os.path.join(chk.rundir, "trace.ndjson")
    for lo in range(0, len(scripts), 500):
        part = scripts[lo:lo + 500]
        vf.write_ndjson(spath, part)
        rc, out, _ = vf.sh([exe, spath, tpath], timeout=6000)
        if rc != 0:
            raise vf.ToolingError("harness actapply failed rc=%d: %s" % (rc, out[-2000:]))
        for ln in open(tpath):
            if '"e":"Snap"' in ln[:30]:
                chk.evaluations += 1
            elif '"e":"Apply"' in ln[:40]:
                chk.notes["applications"] = chk.notes.get("applications", 0) + 1
        by_id = dict(enumerate(part))
        chk.traces += vf.validate_trace_segments(chk, "Trace_ActionApply", "Trace_ActionApply.cfg", tpath,
                                                 script_of_segment=lambda seg: by_id.get(seg["id"]))
    chk.distinct = len({json.dumps([s["blocks"], [(a["n"], a["action"], a["wells"]) for a in s["apps"]]]) for s in scripts})
    chk.rule = ("inputs from the Schedule generator containing ACTIONX definitions (bodies: WELOPEN, WELTARG, WEFAC+WELOPEN, "
                "WCONPROD, GCONPROD, NEXTSTEP; wells by name or '?'), 1..3 applications per input with non-decreasing report "
                "step at any step where the action exists (including the last and the one before it), random match sets; "
                "evaluations = snapshots observed")
    for s in scripts[:2]:
        chk.sample({"blocks": s["blocks"][:5], "apps": s["apps"]})
    chk.assumptions = ["WPIMULT and connection-level shut-in (the per-report-step exemptions of the property) are not in the action bodies",
                       "the marker event ACTIONX_WELL_EVENT is masked in every snapshot",
                       "a snapshot is observed through the library's own serialisation (see C03)"]
    return chk.finish()
