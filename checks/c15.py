"""C15 - saturation functions honour tables, end-point scaling and hysteresis rules.

Specification: spec/SatMonitor.tla - the combinations of input family, table
size, saturation regions, end-point scaling (off / two-point / three-point,
with or without per-cell end-point arrays) and Carlson hysteresis (off / with
identical / with different imbibition curves), enumerated by TLC; and the
relations Node, Between, Range, Same, EndPoint, Scan over integer-scaled
values.  The driver draws monotone random tables in both families (the SOF3
table carries the union of the water and gas table nodes, so both describe
the same piecewise linear curves) and consistent end-point arrays;
harness/satmon builds EclMaterialLawManager for the primary deck and its
companions (other family, unscaled, no hysteresis) and evaluates the two-phase
laws at every node and interior point, the three-phase API on random
saturations and saturation histories; TLC validates every event.
"""
import json
import os
import random

import satgen
import vf

PID = "C15"


def make_script(rng, m):
    nr = m["regions"]
    regs = [satgen.region(rng, m["nodes"]) for _ in range(nr)]
    satnum = [1] * satgen.NC if nr == 1 else [1, 1, 1, 2, 2, 2]
    imbnum = satnum if m["hyst"] != "other" else [2, 2, 2, 1, 1, 1]
    arrays = satgen.endpoints(rng, regs, satnum, m.get("vertical", False)) if m["arrays"] else None
    fam, other = m["family"], 3 - m["family"]
    decks = {"primary": satgen.deck(regs, fam, m["scaling"], arrays, m["hyst"], satnum, imbnum),
             "other": satgen.deck(regs, other, m["scaling"], arrays, m["hyst"], satnum, imbnum)}
    if m["scaling"] != "none" and not m["arrays"]:
        decks["unscaled"] = satgen.deck(regs, fam, "none", None, m["hyst"], satnum, imbnum)
    if m["hyst"] != "none":
        decks["nohyst"] = satgen.deck(regs, fam, m["scaling"], arrays, "none", satnum, imbnum)
    return {"model": m, "regs": regs, "satnum": satnum, "arrays": arrays, "decks": decks, "seed": rng.randrange(1 << 30)}


def run(opts):
    chk = vf.Check(PID)
    vf.build_repo()
    exe = vf.build_harness("satmon")
    rng = random.Random(chk.seed)
    if opts.get("replay"):
        scripts = [json.load(open(opts["replay"]))["script"]]
    else:
        g = vf.tlc("SatMonitor", "Gen_SatMonitor.cfg", workers=1, timeout=900)
        chk.add_tlc(g)
        models, seen = [], set()
        for x in g.gen:
            key = json.dumps(x, sort_keys=True)
            if key not in seen:
                seen.add(key)
                models.append(x)
        if len(models) < 100:
            raise vf.ToolingError("SatMonitor generated only %d models" % len(models))
        scripts = [make_script(rng, m) for m in models for _ in range(chk.pick(1, 12))]
    for n, s in enumerate(scripts):
        s["id"] = n
    spath = os.path.join(chk.rundir, "scripts.ndjson")
    tpath = os.path.join(chk.rundir, "trace.ndjson")
    kinds = {}
    for lo in range(0, len(scripts), 60):
        part = scripts[lo:lo + 60]
        vf.write_ndjson(spath, part)
        rc, out, _ = vf.sh([exe, spath, tpath], timeout=6000)
        if rc != 0:
            raise vf.ToolingError("harness satmon failed rc=%d: %s" % (rc, out[-2000:]))
        for ln in open(tpath):
            k = ln[ln.find('"e":"') + 5:]
            k = k[:k.find('"')]
            kinds[k] = kinds.get(k, 0) + 1
        by_id = {s["id"]: s for s in part}
        chk.traces += vf.validate_trace_segments(chk, "Trace_SatMonitor", "Trace_SatMonitor.cfg", tpath,
                                                 script_of_segment=lambda seg: by_id.get(seg["id"]))
    chk.evaluations = sum(v for k, v in kinds.items() if k not in ("Reset", "Skip"))
    chk.distinct = len(scripts)
    chk.notes["events_by_relation"] = kinds
    chk.rule = ("%d models: every combination TLC enumerates of family I/II x 3-5 interior nodes x 1-2 saturation regions x scaling "
                "off/two-point/three-point x end-point arrays (SWL, SWCR, SWU, SGL, SGCR, SGU, SOWCR, SOGCR per cell) x Carlson hysteresis "
                "off / identical curves / other region's curves x vertical scaling (KRW, KRWR, KRO, KRORW, KRG, KRGR per cell, with three-point "
                "scaling), each with fresh monotone random tables; all nodes, 2 interior points per "
                "interval, 14 random three-phase saturations per cell and comparison, a drainage-then-imbibition history per cell" % len(scripts))
    chk.sample(scripts[0]["model"])
    chk.assumptions = ["tolerance 2e-6 of the curve's maximum", "three-phase oil relative permeability by the default (ECLIPSE) model; Stone "
                       "models, Killough hysteresis, capillary-pressure hysteresis, PCW / PCG and KRORG vertical scaling, vertical scaling with "
                       "two-point scaling or hysteresis, and directional / irreversible scaling are not checked",
                       "METRIC units only"]
    return chk.finish()
