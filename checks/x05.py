"""X05 (beyond the listed properties) - multi-segment wells: WELSEGS and COMPSEGS.

Specification: spec/Segments.tla - the meaning of a WELSEGS keyword (segment
tree, branches, range records, incremental and absolute geometry, default
volumes), which keywords must be accepted or refused, the storage order
WellSegments promises (top first, outlet before segment, a branch contiguous),
and the attachment of connections under COMPSEGS (nearest node on the branch
with the tie going to the node nearer the top, centre depth interpolated
towards the outlet or - beyond the node - the inlet on the same branch).  TLC
model-checks that every well the state machine builds is valid, that its
absolute re-expression means the same well, and that lengths grow away from
the top.  harness/msw builds the real Schedule for TLC-generated wells in both
forms, with the records in shuffled order, and for damaged variants (segment
number 1, inverted range, branch 0, a range in absolute form, a dangling
outlet, a cycle); Trace_Segments validates every segment row, the inlet
lists, the storage order, and every connection's segment and centre depth.
"""
import copy
import json
import os
import random

import vf

PID = "X05"
NZ = 10
HEAD = """RUNSPEC
DIMENS
 1 1 %d /
OIL
WATER
WELLDIMS
 2 20 2 2 /
WSEGDIMS
 2 40 10 /
START
 1 'JAN' 2020 /
GRID
DX
 %d*100 /
DY
 %d*100 /
DZ
 %d*10 /
TOPS
 2000 /
PORO
 %d*0.2 /
PERMX
 %d*100 /
PERMY
 %d*100 /
PERMZ
 %d*10 /
PROPS
SOLUTION
SCHEDULE
WELSPECS
 'P1' 'G1' 1 1 1* OIL /
/
""" % ((NZ,) * 8)


def welsegs_text(top, recs):
    t = "WELSEGS\n 'P1' %d %d %d %s 'HFA' /\n" % (top["depth"], top["len"], top["vol"], top["type"])
    for r in recs:
        t += " %d %d %d %d %d %d 0.2 0.0001 %d %s /\n" % (r["s1"], r["s2"], r["br"], r["join"], r["len"], r["dep"], r["area"],
                                                      "1*" if r["vol"] == -1 else str(r["vol"]))
    return t + "/\n"


def deck(top, recs, comps):
    cells = sorted(c["cell"] for c in comps)
    t = HEAD + "COMPDAT\n" + "".join(" 'P1' 1 1 %d %d OPEN 1* 1* 0.2 /\n" % (k, k) for k in cells) + "/\n"
    t += welsegs_text(top, recs)
    t += "COMPSEGS\n 'P1' /\n"
    for c in comps:
        t += " 1 1 %d %d %d %d 1* 1* %s 1* %s /\n" % (c["cell"], c["br"], c["start"], c["end"], "1*" if c["depth"] == 0 else str(c["depth"]),
                                                     "1*" if c["seg"] == 0 else str(c["seg"]))
    return t + "/\nEND\n"


DUMMY = [{"cell": NZ, "br": 1, "start": 0, "end": 1, "seg": 1, "depth": 2003}]


def script(top, recs, comps):
    return {"top": top, "recs": recs, "comps": comps, "deckA": deck(top, recs, DUMMY), "deckB": deck(top, recs, comps) if comps else None}


def damage(rng, top, recs):
    recs = copy.deepcopy(recs)
    top = dict(top)
    r = rng.choice(recs)
    how = rng.choice(["seg1", "inverted", "branch0", "absrange", "dangling", "cycle"])
    if how == "seg1":
        r["s1"] = 1
    elif how == "inverted":
        r["s2"] = r["s1"] - 1
    elif how == "branch0":
        r["br"] = 0
    elif how == "absrange":
        top["type"] = "ABS"
        r["s2"] = r["s1"] + 1
    elif how == "dangling":
        r["join"] = 77
    else:
        r["join"] = r["s2"]
    return how, top, recs


def run(opts):
    chk = vf.Check(PID)
    vf.build_repo()
    exe = vf.build_harness("msw")
    rng = random.Random(chk.seed)
    if opts.get("replay"):
        scripts = [json.load(open(opts["replay"]))["script"]]
    else:
        r = vf.tlc("MC_Segments", chk.pick("MC_Segments.cfg", "MC_Segments_deep.cfg"), timeout=3000)
        if r.violated:
            chk.violation({"kind": "model", "invariant": r.violated, "trace": r.trace_text}, "Segments: design property violated")
        vf.require_clean(r, "MC_Segments")
        chk.add_tlc(r)
        g = vf.tlc("Gen_Segments", "Gen_Segments.cfg", simulate=chk.pick(8, 300), depth=12, seed=chk.seed % 100000 + 4, workers=4, timeout=1200)
        wells = g.gen
        rng.shuffle(wells)
        wells = wells[: chk.pick(300, 12000)]
        if len(wells) < 50:
            raise vf.ToolingError("Gen_Segments produced only %d wells" % len(wells))
        scripts, kinds = [], {"inc_or_abs_as_built": 0, "absolute_form": 0, "shuffled": 0, "damaged": 0}
        for w in wells:
            scripts.append(script(w["top"], w["recs"], w["comps"]))
            kinds["inc_or_abs_as_built"] += 1
            if w["top"]["type"] == "INC":
                scripts.append(script(w["abs"]["top"], w["abs"]["recs"], w["comps"]))
                kinds["absolute_form"] += 1
            rs = list(w["recs"])
            rng.shuffle(rs)
            if rs != w["recs"]:
                cs = list(w["comps"])
                rng.shuffle(cs)
                scripts.append(script(w["top"], rs, cs))
                kinds["shuffled"] += 1
            if rng.random() < 0.3:
                how, top, recs = damage(rng, w["top"], w["recs"])
                scripts.append(script(top, recs, []))
                scripts[-1]["damage"] = how
                kinds["damaged"] += 1
        chk.notes["inputs"] = kinds
    for n, s in enumerate(scripts):
        s["id"] = n
    spath = os.path.join(chk.rundir, "scripts.ndjson")
    tpath = os.path.join(chk.rundir, "trace.ndjson")
    refused = 0
    for lo in range(0, len(scripts), 400):
        part = scripts[lo:lo + 400]
        vf.write_ndjson(spath, part)
        rc, out, _ = vf.sh([exe, spath, tpath], timeout=3000)
        if rc != 0:
            raise vf.ToolingError("harness msw failed rc=%d: %s" % (rc, out[-2000:]))
        refused += sum(1 for ln in open(tpath) if '"res":"error"' in ln)
        chk.evaluations += sum(1 for ln in open(tpath) if '"e":"Welsegs"' in ln or '"e":"Compsegs"' in ln)
        by_id = {s["id"]: s for s in part}
        chk.traces += vf.validate_trace_segments(chk, "Trace_Segments", "Trace_Segments.cfg", tpath,
                                                 script_of_segment=lambda seg: by_id.get(seg["id"]))
    chk.distinct = len(scripts)
    chk.notes["keywords_refused_by_the_library"] = refused
    chk.rule = ("%d wells: TLC behaviours of spec/Segments.tla (up to 5 WELSEGS records / 12 segment numbers, ranges of 1-3 segments, branches joined anywhere, "
                "up to 4 COMPSEGS records with and without explicit segment and depth) as built, re-expressed in absolute form, with shuffled records, and damaged") % len(scripts)
    chk.sample({k: scripts[0][k] for k in ("top", "recs", "comps")})
    chk.assumptions = ["not one of the listed properties: additional specification coverage (DESIGN.md 12.7)",
                       "integer metres throughout, so the comparison of lengths, depths and volumes is exact; centre depths to 1 mm",
                       "two segments of one branch sharing an outlet are neither required nor forbidden to be refused (the library's answer depends on the record order)"]
    return chk.finish()
