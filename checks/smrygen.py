"""Random summary models for C09: group trees, wells, efficiency factors, simulator rates, observed rates."""
MONTHS = ["JAN", "FEB", "MAR", "APR", "MAY", "JUN", "JUL", "AUG", "SEP", "OCT", "NOV", "DEC"]
RATE_NAMES = ["OPR", "WPR", "GPR", "VPR", "OIR", "WIR", "GIR", "VIR", "OPRH", "WPRH", "GPRH", "WIRH", "GIRH"]
TOTAL_NAMES = ["OPT", "WPT", "GPT", "VPT", "OIT", "WIT", "GIT", "VIT", "OPTH", "WPTH", "GPTH", "WITH", "GITH"]
OTHER = ["LPR", "LPT", "LPRH", "LPTH", "WCT", "GOR", "GLR", "WCTH", "GORH"]
NAMES = RATE_NAMES + TOTAL_NAMES + OTHER
EF = {1: "0.25", 2: "0.5", 3: "0.75", 4: "1"}


def rand_model(rng, cid):
    ng = rng.randint(1, 5)
    parent, depth = {}, {"FIELD": 0}
    for i in range(1, ng + 1):
        g = "G%d" % i
        cands = [p for p in depth if depth[p] < 4]
        # prefer chains now and then so that depth 4 occurs
        p = rng.choice(cands) if rng.random() < 0.6 else max(cands, key=lambda x: (depth[x], x))
        parent[g] = p
        depth[g] = depth[p] + 1
    leaves = [g for g in parent if g not in parent.values()]
    nw = rng.randint(2, 6)
    wells = {}
    for i in range(1, nw + 1):
        kind = rng.choice(["prod", "prod", "prod", "winj", "ginj"])
        wells[("P%d" if kind == "prod" else "I%d") % i] = {"group": rng.choice(leaves), "kind": kind}
    start = {"year": rng.randint(1985, 2035), "month": rng.randint(1, 12), "day": rng.randint(1, 28)}
    if rng.random() < 0.25:
        start = rng.choice([{"year": 2024, "month": 2, "day": 27}, {"year": 2023, "month": 12, "day": 30},
                            {"year": 2100, "month": 2, "day": 26}, {"year": 2000, "month": 2, "day": 28}])
    model = {"parent": parent, "wells": wells, "start": start}
    nrs = rng.randint(1, 4)
    evals, reports = [], []
    for rs in range(1, nrs + 1):
        wefac = {w: rng.choice([4, 4, 4, 3, 2, 1]) for w in wells}
        gefac = {g: rng.choice([4, 4, 3, 2, 1]) for g in parent}
        hist = {}
        for w, d in wells.items():
            z = {"o": 0, "w": 0, "g": 0, "wi": 0, "gi": 0}
            if d["kind"] == "prod":
                z.update(o=rng.randint(0, 300), w=rng.randint(0, 300), g=rng.randint(0, 300))
            elif d["kind"] == "winj":
                z.update(wi=rng.randint(1, 300))
            else:
                z.update(gi=rng.randint(1, 300))
            hist[w] = z
        reports.append({"rs": rs, "wefac": wefac, "gefac": gefac, "hist": hist})
        nsub = rng.choice([1, 1, 2, 3]) if len(evals) < 6 else 1
        for _ in range(nsub):
            raw, shut, absent = {}, {}, {}
            for w, d in wells.items():
                r = {k: 0 for k in ("o", "w", "g", "ro", "rw", "rg")}
                if d["kind"] == "prod":
                    for ph in ("o", "w", "g"):
                        v = -rng.randint(0, 300)
                        if rng.random() < 0.08:
                            v = rng.randint(1, 40)          # cross flow: this phase is injected
                        r[ph] = v
                        r["r" + ph] = (-1 if v <= 0 else 1) * rng.randint(0, 100)
                else:
                    ph = "w" if d["kind"] == "winj" else "g"
                    r[ph] = rng.randint(0, 300)
                    r["r" + ph] = rng.randint(0, 100)
                raw[w] = r
                u = rng.random()
                shut[w] = u < 0.22
                absent[w] = u < 0.08
            evals.append({"rs": rs, "dt": rng.randint(1, 20), "wefac": wefac, "gefac": gefac, "hist": hist,
                          "raw": raw, "shut": shut, "absent": absent})
    unit = rng.choice(["METRIC", "FIELD", "LAB", "PVT-M"])
    model["perday"] = 24 if unit == "LAB" else 1
    return {"id": cid, "unit": unit, "model": model, "evals": evals, "reports": reports}


def keys_of(model):
    ks = ["TIME", "YEARS", "DAY", "MONTH", "YEAR"]
    for w in model["wells"]:
        ks += ["W%s:%s" % (n, w) for n in NAMES]
    for g in model["parent"]:
        ks += ["G%s:%s" % (n, g) for n in NAMES]
    ks += ["F" + n for n in NAMES]
    return ks


def render(case):
    m = case["model"]
    s = m["start"]
    wells = m["wells"]
    L = ["RUNSPEC", "DIMENS", " 10 10 3 /", "OIL", "GAS", "WATER", case["unit"],
         "START", " %d '%s' %d /" % (s["day"], MONTHS[s["month"] - 1], s["year"]), "WELLDIMS", " 10 5 10 10 /",
         "GRID", "DX", " 300*100 /", "DY", " 300*100 /", "DZ", " 300*10 /", "TOPS", " 100*2000 /", "PORO", " 300*0.2 /",
         "PERMX", " 300*100 /", "PERMY", " 300*100 /", "PERMZ", " 300*10 /", "SUMMARY"]
    for n in NAMES:
        L += ["W" + n, "/", "G" + n, "/", "F" + n]
    L += ["DATE", "SCHEDULE", "GRUPTREE"]
    L += [" '%s' '%s' /" % (g, p) for g, p in m["parent"].items()] + ["/", "WELSPECS"]
    for i, (w, d) in enumerate(wells.items()):
        L.append(" '%s' '%s' %d %d 1* '%s' /" % (w, d["group"], i + 1, i + 1, {"prod": "OIL", "winj": "WATER", "ginj": "GAS"}[d["kind"]]))
    L += ["/", "COMPDAT"]
    for i, w in enumerate(wells):
        L.append(" '%s' %d %d 1 1 'OPEN' 1* 1* 0.2 /" % (w, i + 1, i + 1))
    L.append("/")
    for rep in case["reports"]:
        prods = [w for w, d in wells.items() if d["kind"] == "prod"]
        injs = [w for w, d in wells.items() if d["kind"] != "prod"]
        if prods:
            L.append("WCONHIST")
            for w in prods:
                h = rep["hist"][w]
                L.append(" '%s' 'OPEN' 'ORAT' %d %d %d /" % (w, h["o"], h["w"], h["g"]))
            L.append("/")
        if injs:
            L.append("WCONINJH")
            for w in injs:
                h = rep["hist"][w]
                L.append(" '%s' '%s' 'OPEN' %d /" % (w, "WATER" if wells[w]["kind"] == "winj" else "GAS", h["wi"] + h["gi"]))
            L.append("/")
        L.append("WEFAC")
        L += [" '%s' %s /" % (w, EF[e]) for w, e in rep["wefac"].items()] + ["/", "GEFAC"]
        L += [" '%s' %s /" % (g, EF[e]) for g, e in rep["gefac"].items()] + ["/"]
        dt = sum(e["dt"] for e in case["evals"] if e["rs"] == rep["rs"])
        L += ["TSTEP", " %d /" % dt]
    L.append("END")
    return "\n".join(L) + "\n"
