"""Physically ordered random PVT tables for the shapes of spec/PvtMonitor.tla, and their deck text."""
UNITS = {  # deck-unit scales relative to METRIC: pressure, Rs, Rv, Bg
    "METRIC": {"p": 1.0, "rs": 1.0, "rv": 1.0, "bg": 1.0},
    "FIELD": {"p": 14.5, "rs": 0.0056, "rv": 178.0, "bg": 178.0},      # psi, Mscf/stb, stb/Mscf, rb/Mscf
    "LAB": {"p": 0.987, "rs": 1.0, "rv": 1.0, "bg": 1.0},
    "PVT-M": {"p": 0.987, "rs": 1.0, "rv": 1.0, "bg": 1.0},
}


def inc(rng, n, lo, hi):
    xs = sorted(rng.uniform(lo, hi) for _ in range(n))
    for i in range(1, n):                       # keep the nodes apart
        if xs[i] - xs[i - 1] < 0.02 * (hi - lo):
            xs[i] = xs[i - 1] + 0.02 * (hi - lo) * (1 + rng.random())
    return xs


def region(rng, shape, unit):
    u = UNITS[unit]
    n = shape["nodes"]
    out = {}
    if shape["oil"] == "PVCDO":
        out["oil"] = {"kind": "PVCDO", "row": [rng.uniform(100, 300) * u["p"], rng.uniform(1.0, 1.4), rng.uniform(5e-5, 2e-4) / u["p"], rng.uniform(0.3, 3.0), rng.uniform(0, 1e-4) / u["p"]]}
    elif shape["oil"] == "PVDO":
        ps = inc(rng, n, 20, 400)
        B = sorted((rng.uniform(1.0, 1.4) for _ in range(n)), reverse=True)
        B = [b - 0.003 * i for i, b in enumerate(B)]
        mu = inc(rng, n, 0.3, 3.0)
        out["oil"] = {"kind": "PVDO", "rows": [[p * u["p"], b, m] for p, b, m in zip(ps, B, mu)]}
    else:
        rs = inc(rng, n, 5, 200)
        ps = inc(rng, n, 20, 300)
        Bs = inc(rng, n, 1.05, 1.7)
        mus = sorted((rng.uniform(0.2, 2.5) for _ in range(n)), reverse=True)
        mus = [m - 0.004 * i for i, m in enumerate(mus)]
        nodes = []
        for i in range(n):
            rows = [[ps[i] * u["p"], Bs[i], mus[i]]]
            if (i + 1) in shape["branches"]:
                k = rng.randint(1, 3)
                p, b, m = ps[i], Bs[i], mus[i]
                for _ in range(k):
                    p += rng.uniform(30, 120)
                    b *= rng.uniform(0.97, 0.995)
                    m *= rng.uniform(1.02, 1.15)
                    rows.append([p * u["p"], b, m])
            nodes.append({"rs": rs[i] * u["rs"], "rows": rows})
        out["oil"] = {"kind": "PVTO", "nodes": nodes}
    if shape["gas"] == "PVDG":
        ps = inc(rng, n, 20, 400)
        B = sorted((rng.uniform(0.003, 0.05) for _ in range(n)), reverse=True)
        B = [b * (1 - 0.01 * i) for i, b in enumerate(B)]
        mu = inc(rng, n, 0.01, 0.04)
        out["gas"] = {"kind": "PVDG", "rows": [[p * u["p"], b * u["bg"], m] for p, b, m in zip(ps, B, mu)]}
    else:
        ps = inc(rng, n, 30, 400)
        rvs = inc(rng, n, 1e-5, 5e-4)
        nodes = []
        Bs = sorted((rng.uniform(0.003, 0.05) for _ in range(n)), reverse=True)
        mus = inc(rng, n, 0.012, 0.04)
        for i in range(n):
            rows = [[rvs[i] * u["rv"], Bs[i] * (1 - 0.01 * i) * u["bg"], mus[i]]]
            k = rng.randint(1, 2)
            for j in range(k):
                f = 0.0 if j == k - 1 else rng.uniform(0.3, 0.7)
                rows.append([rvs[i] * f * u["rv"], rows[0][1] * (1 + 0.01 * (j + 1)), mus[i] * (1 - 0.03 * (j + 1))])
            nodes.append({"p": ps[i] * u["p"], "rows": rows})
        out["gas"] = {"kind": "PVTG", "nodes": nodes}
    out["water"] = [rng.uniform(100, 300) * u["p"], rng.uniform(1.0, 1.05), rng.uniform(3e-5, 6e-5) / u["p"], rng.uniform(0.3, 0.8), 0.0]
    return out


def g(x):
    return "%.12g" % x


def deck(unit, regions):
    nr = len(regions)
    L = ["RUNSPEC", "DIMENS", " 2 2 1 /", "OIL", "GAS", "WATER"]
    if regions[0]["oil"]["kind"] == "PVTO":
        L.append("DISGAS")
    if regions[0]["gas"]["kind"] == "PVTG":
        L.append("VAPOIL")
    L += [unit, "TABDIMS", " 1 %d 30 30 /" % nr, "START", " 1 'JAN' 2020 /", "GRID", "DX", " 4*100 /", "DY", " 4*100 /", "DZ", " 4*10 /",
          "TOPS", " 4*2000 /", "PORO", " 4*0.2 /", "PERMX", " 4*100 /", "PERMY", " 4*100 /", "PERMZ", " 4*10 /", "PROPS"]
    if regions[0]["oil"]["kind"] == "PVCDO":
        L.append("PVCDO")
        L += [" " + " ".join(g(x) for x in r["oil"]["row"]) + " /" for r in regions]
    elif regions[0]["oil"]["kind"] == "PVDO":
        L.append("PVDO")
        for r in regions:
            L += [" " + " ".join(g(x) for x in row) for row in r["oil"]["rows"]] + ["/"]
    else:
        L.append("PVTO")
        for r in regions:
            for nd in r["oil"]["nodes"]:
                rows = nd["rows"]
                L.append(" %s %s" % (g(nd["rs"]), " ".join(g(x) for x in rows[0])) + (" /" if len(rows) == 1 else ""))
                for j, row in enumerate(rows[1:]):
                    L.append("      " + " ".join(g(x) for x in row) + (" /" if j == len(rows) - 2 else ""))
            L.append("/")
    if regions[0]["gas"]["kind"] == "PVDG":
        L.append("PVDG")
        for r in regions:
            L += [" " + " ".join(g(x) for x in row) for row in r["gas"]["rows"]] + ["/"]
    else:
        L.append("PVTG")
        for r in regions:
            for nd in r["gas"]["nodes"]:
                rows = nd["rows"]
                L.append(" %s %s" % (g(nd["p"]), " ".join(g(x) for x in rows[0])) + (" /" if len(rows) == 1 else ""))
                for j, row in enumerate(rows[1:]):
                    L.append("      " + " ".join(g(x) for x in row) + (" /" if j == len(rows) - 2 else ""))
            L.append("/")
    L.append("PVTW")
    L += [" " + " ".join(g(x) for x in r["water"]) + " /" for r in regions]
    L.append("DENSITY")
    L += [" 850 1020 0.9 /"] * nr
    L += ["ROCK"] + [" 200 5e-5 /"] * nr
    L += ["SCHEDULE", "TSTEP", " 1 /", "END"]
    return "\n".join(L) + "\n"
