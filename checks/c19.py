"""C19 - a Deck written as text parses back to the same Deck.

Specification: spec/DeckSyntax.tla - PrintDeck (one line per record, defaulted
entries as 1*, slash-terminated keywords closed by a lone slash) and the
invariant PrintParse: Meaning(PrintDeck(d)) = d and print . parse . print =
print, model-checked over every text reachable by the layout rewrites (which
vary where defaults and repeats sit).  Binding: every text TLC generates (and
the base decks) is parsed by the real Parser, the Deck written with
operator<<, the output parsed again and written again (harness/deckparse
roundtrip); the two Decks are compared entry by entry (integers, strings and
defaulted flags exactly, doubles to the printed precision) and the two texts
must be identical.
"""
import json
import os
import random

import c01
import decklay
import vf

PID = "C19"
TOL = 2e-9


def num_close(a, b):
    try:
        x, y = float.fromhex(a), float.fromhex(b)
    except (ValueError, TypeError):
        return a == b
    return x == y or abs(x - y) <= TOL * max(abs(x), abs(y))


def deck_diff(d1, d2):
    if [k["name"] for k in d1] != [k["name"] for k in d2]:
        return "keyword sequence %s became %s" % ([k["name"] for k in d1], [k["name"] for k in d2])
    for k1, k2 in zip(d1, d2):
        if len(k1["recs"]) != len(k2["recs"]):
            return "%s: %d records became %d" % (k1["name"], len(k1["recs"]), len(k2["recs"]))
        for r, (r1, r2) in enumerate(zip(k1["recs"], k2["recs"])):
            if [(i["name"], i["type"]) for i in r1] != [(i["name"], i["type"]) for i in r2]:
                return "%s record %d: items differ" % (k1["name"], r + 1)
            for i1, i2 in zip(r1, r2):
                if len(i1["e"]) != len(i2["e"]):
                    return "%s record %d item %s: %d entries became %d" % (k1["name"], r + 1, i1["name"], len(i1["e"]), len(i2["e"]))
                for n, (e1, e2) in enumerate(zip(i1["e"], i2["e"])):
                    where = "%s record %d item %s entry %d" % (k1["name"], r + 1, i1["name"], n + 1)
                    if e1["def"] != e2["def"]:
                        return "%s: defaulted %s became %s" % (where, e1["def"], e2["def"])
                    if i1["type"] in ("double", "uda"):
                        if not num_close(e1["v"], e2["v"]) or not num_close(e1.get("si"), e2.get("si")):
                            return "%s: value %s became %s" % (where, e1["v"], e2["v"])
                    elif e1["v"] != e2["v"]:
                        return "%s: value %r became %r" % (where, e1["v"], e2["v"])
    return None


def run(opts):
    chk = vf.Check(PID)
    vf.build_repo()
    exe = vf.build_harness("deckparse")
    rng = random.Random(chk.seed)
    if opts.get("replay"):
        gens = [json.load(open(opts["replay"]))["script"]]
    else:
        r = vf.tlc("MC_DeckSyntax", "MC_DeckSyntax.cfg", timeout=3000)
        if r.violated:
            chk.violation({"kind": "model", "invariant": r.violated, "trace": r.trace_text}, "DeckSyntax: print / parse round trip fails in the specification")
        vf.require_clean(r, "MC_DeckSyntax")
        chk.add_tlc(r)
        gens = c01.gen("Base_DeckSyntax.cfg", 3, 1, depth=2)
        gens += c01.gen("Gen_DeckSyntax.cfg", chk.pick(40, 300), chk.seed % 100000 + 7)
        gens += c01.gen("Gen1_DeckSyntax.cfg", chk.pick(30, 120), chk.seed % 100000 + 8, depth=4)
    scripts = []
    for n, x in enumerate(gens):
        x["seed"] = x.get("seed", rng.randrange(1 << 30))
        scripts.append({"id": n, "files": decklay.render(x["text"], random.Random(x["seed"]))})
    res = c01.parse_all(chk, exe, scripts, roundtrip=True)
    for n, x in enumerate(gens):
        ev = res[n]
        kinds = sorted({h[0] for h in x["hist"]})
        rec = {"base": x["base"], "rewrites": kinds, "script": x, "files": scripts[n]["files"]}
        if ev["res"] != "ok":
            continue            # the subject of C01
        chk.traces += 1
        chk.evaluations += sum(len(r) for k in ev["deck"] for r in k["recs"])
        if ev.get("rt") != "ok":
            chk.violation(dict(rec, kind="print-rejected", what=ev.get("rtwhat")), "the written deck is rejected by the parser: %s" % ev.get("rtwhat", "")[:200])
            continue
        d = deck_diff(ev["deck"], ev["deck2"])
        if d:
            chk.violation(dict(rec, kind="print-parse", diff=d, text2=ev.get("text2")), "written and re-parsed deck differs: %s" % d)
            continue
        if not ev["fixpoint"]:
            chk.violation(dict(rec, kind="print-fixpoint", text2=ev.get("text2"), text3=ev.get("text3")), "print(parse(print(d))) differs from print(d)")
    chk.distinct = len(gens)
    chk.rule = ("decks obtained by parsing %d texts of the C01 grammar (3 base decks x layout rewrites that move repeat counts and "
                "defaults: 16 keywords incl. TITLE, raw-string UDQ, UDA items, data arrays with defaulted entries, records with "
                "embedded and trailing defaults, strings with blanks / '=' / '*' / slashes); written, re-parsed, re-written" % len(gens))
    chk.sample({"base": gens[0]["base"], "hist": gens[0]["hist"]})
    chk.assumptions = ["doubles compared to 2e-9 relative (the writer prints 10 significant digits)",
                       "decks are produced by the parser from grammar texts, not built through the Deck API; double-slash-terminated and "
                       "table-collection keywords are not in the grammar"]
    return chk.finish()
