"""C17 - UDQ expressions evaluate according to the documented expression semantics.

Specification: spec/UDQPrec.tla (operator precedence: transcription of the
parser's recursive-descent levels against precedence climbing, checked by
TLC), spec/UDQEval.tla (reference evaluator over exact rationals: element-wise
operations, scalar broadcasting, undefined propagation, reductions, elemental
functions, set unions), spec/Oracle_UDQHist.tla (ASSIGN / DEFINE / UPDATE
histories over report steps).
Binding: TLC computes the reference value of every generated DEFINE
(Oracle_UDQ) and of every quantity after every report step of every generated
history (Oracle_UDQHist); harness/udqeval evaluates the real UDQDefine on a
real SummaryState, harness/udqhist builds a real Schedule from deck text and
plays the simulator's per-step UDQConfig::eval with one SummaryState/UDQState;
every element is compared with TLC's value.
"""
import json
import os
import random

import udqgen
import vf

PID = "C17"
SET_QTY = {"WOPR", "WWPR", "WGOR", "GOPR", "GWPR", "WU1", "WU2", "WU3", "GU1"}
MEMBERS = set(udqgen.WELLS) | set(udqgen.GROUPS)


def has_literal_reduction(toks):
    """a reduction whose argument contains no set-valued quantity (only literals / scalars)"""
    for i, t in enumerate(toks):
        if t in udqgen.REDUCE and i + 1 < len(toks) and toks[i + 1] == "(":
            depth, j = 0, i + 1
            arg = []
            while j < len(toks):
                if toks[j] == "(":
                    depth += 1
                elif toks[j] == ")":
                    depth -= 1
                    if depth == 0:
                        break
                arg.append(toks[j])
                j += 1
            is_set = any(a in SET_QTY and not (k + 1 < len(arg) and arg[k + 1] in MEMBERS) for k, a in enumerate(arg))
            if not is_set:
                return True
    return False


def run(opts):
    chk = vf.Check(PID)
    vf.build_repo()
    exe_e = vf.build_harness("udqeval")
    exe_h = vf.build_harness("udqhist")
    rng = random.Random(chk.seed)
    cases, hists = [], []
    if opts.get("replay"):
        rec = json.load(open(opts["replay"]))
        if "steps" in rec["case"]:
            hists = [rec["case"]]
        else:
            cases = [rec["case"]]
    else:
        r = vf.tlc("UDQPrec", "MC_UDQPrec.cfg", timeout=900)
        if r.violated:
            chk.violation({"kind": "model", "invariant": r.violated, "trace": r.trace_text},
                          "UDQPrec: parser transcription disagrees with the precedence table")
        vf.require_clean(r, "MC_UDQPrec")
        chk.add_tlc(r)
        g0 = vf.tlc("UDQPrec", "MC_UDQPrec_asold.cfg", timeout=300)
        if g0.violated != "Agree":
            raise vf.ToolingError("vacuity guard: PowRhs=mul should violate Agree")
        chk.notes["vacuity_guard"] = "transcription of the parser before bb2b47f35 violates Agree as expected"
        cases = [udqgen.rand_case(rng, i, depth=rng.choice([1, 2, 2, 3])) for i in range(chk.pick(20000, 300000))]
        hists = [udqgen.rand_history(rng, i, nsteps=rng.choice([3, 4, 5])) for i in range(chk.pick(2500, 30000))]

    skipped = 0
    nbad = 0
    for what, items, exe, oracle in (("expr", cases, exe_e, udqgen.oracle), ("hist", hists, exe_h, udqgen.oracle_hist)):
        for lo in range(0, len(items), 20000):
            part = items[lo:lo + 20000]
            if not part:
                continue
            exp, sk, st = oracle(vf, part, chk.rundir)
            skipped += sk
            chk.states += st[0]
            chk.transitions += st[1]
            cpath = os.path.join(chk.rundir, what + "_cases.ndjson")
            epath = os.path.join(chk.rundir, what + "_exp.ndjson")
            tpath = os.path.join(chk.rundir, what + "_trace.ndjson")
            vf.write_ndjson(cpath, part)
            vf.write_ndjson(epath, [{"id": k, "exp": v} for k, v in exp.items()])
            rc, out, _ = vf.sh([exe, cpath, epath, tpath], timeout=6000)
            if rc != 0:
                raise vf.ToolingError("harness %s failed rc=%d: %s" % (exe, rc, out[-2000:]))
            byid = {c["id"]: c for c in part}
            for ev in vf.read_ndjson(tpath):
                if ev["e"] == "Reset":
                    continue
                if ev.get("why") == "no expectation":
                    continue
                chk.evaluations += 1
                chk.traces += 1
                if ev.get("fragile"):
                    chk.notes["fragile_set_aside"] = chk.notes.get("fragile_set_aside", 0) + 1
                if ev["ok"]:
                    continue
                case = byid[ev["id"]]
                rec = {"kind": "udq-mismatch", "layer": what, "why": ev.get("why"), "case": case,
                       "observed": ev.get("obs"), "expected": ev.get("exp")}
                if what == "expr" and case["kind"] != "s" and has_literal_reduction(case["toks"]):
                    rec["class"] = "literal-in-reduction"
                desc = " ".join(case["toks"]) if what == "expr" else "history %d" % case["id"]
                if chk.violation(rec, "UDQ %s: %s -- %s" % (what, desc[:200], str(ev.get("why"))[:300])):
                    nbad += 1
    chk.states += 0
    chk.distinct = len({json.dumps(c["toks"]) for c in cases if len(c["toks"]) > 3}) + \
        len({json.dumps([s["recs"] for s in h["steps"]]) for h in hists})
    chk.notes["oracle_overflow_skipped"] = skipped
    chk.notes["expressions"] = len(cases)
    chk.notes["histories"] = len(hists)
    chk.rule = ("expressions: seeded random type-correct token lists (nesting <= 3) over numbers, field/well/group "
                "quantities with well names and patterns, + - * / ^, six comparisons, four set-union operators, seven "
                "reductions and six elemental functions, random contexts with undefined entries and zeros; histories: "
                "random ASSIGN/DEFINE/UPDATE records over 3-5 report steps with cross references between UDQs, through "
                "deck text -> Parser -> Schedule -> per-step eval.  Each evaluated element is compared with the exact "
                "rational TLC computes.  distinct = distinct token lists (> 3 tokens) + distinct histories")
    for c in cases[:2]:
        chk.sample({"kind": c["kind"], "define": " ".join(c["toks"])})
    for h in hists[:1]:
        chk.sample({"history": [[[r[0], r[1], " ".join(r[2]) if r[0] == "DEFINE" else r[2:]] for r in s["recs"]] for s in h["steps"]]})
    chk.assumptions = ["values are small integers / exact rationals; agreement to 1e-9 relative",
                       "a mismatch at an input point where the real evaluation is discontinuous (its results change under a "
                       "2^-30 relative perturbation of the summary inputs) is a rounding artefact of double arithmetic against "
                       "exact rationals (tie, exact cancellation) and is set aside, counted as fragile_set_aside",
                       "no chains of ^, of comparisons or of set-union operators (the property fixes no associativity); "
                       "no negative literals; SORTA/SORTD only on tie-free data; AVEG/AVEH/NORM2/EXP/LN/LOG/NINT/RAND* "
                       "are outside the exact-rational domain and not exercised",
                       "ASSIGN of group-level UDQs is 'not yet implemented' in opm-common (clean error) and not generated",
                       "which well values are undefined is fixed per history (a persistent summary state cannot forget a value)"]
    return chk.finish()
