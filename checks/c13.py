"""C13 - grid indexing and geometry are coherent across input forms and EGRID files.

Specification: spec/Grid.tla - a grid object as a state machine (create in one
of three input forms, replace the activity mask, copy, save/load EGRID) with
the index maps and the geometry in closed form; laws (index bijection,
positive volumes, additivity) checked by TLC on all small grids and masks.
Binding: harness/gridops performs TLC-enumerated and seeded random operation
sequences on the real EclipseGrid and reports index maps, volumes, depths,
cell dimensions, NNCs and map axes after every step (with the volume cache
warm or cold, with 1/4/16 OpenMP threads); TLC validates every event.
"""
import json
import os
import random

import gridgen
import vf

PID = "C13"


def run(opts):
    chk = vf.Check(PID)
    vf.build_repo()
    exe = vf.build_harness("gridops")
    rng = random.Random(chk.seed)
    if opts.get("replay"):
        scripts = [json.load(open(opts["replay"]))["script"]]
    else:
        r = vf.tlc("MC_Grid", "MC_Grid.cfg", timeout=1500)
        if r.violated:
            chk.violation({"kind": "model", "invariant": r.violated, "trace": r.trace_text}, "Grid: law %s violated" % r.violated)
        vf.require_clean(r, "MC_Grid", ["MCreate", "MReset"])
        chk.add_tlc(r)
        scripts = [gridgen.rand_script(rng, rng.choice([3, 6, 10, 14])) for _ in range(chk.pick(1500, 40000))]
    spath = os.path.join(chk.rundir, "scripts.ndjson")
    tpath = os.path.join(chk.rundir, "trace.ndjson")
    events = 0
    for lo in range(0, len(scripts), 4000):
        part = scripts[lo:lo + 4000]
        vf.write_ndjson(spath, part)
        rc, out, _ = vf.sh([exe, spath, tpath, os.path.join(chk.rundir, "w")], timeout=6000)
        if rc != 0:
            raise vf.ToolingError("harness gridops failed rc=%d: %s" % (rc, out[-2000:]))
        events += sum(1 for _ in open(tpath))
        by_id = dict(enumerate(part))
        chk.traces += vf.validate_trace_segments(chk, "Trace_Grid", "Trace_Grid.cfg", tpath,
                                                 script_of_segment=lambda seg: by_id.get(seg["id"]))
    chk.evaluations = events
    chk.distinct = len({json.dumps([o for o in s["ops"]]) for s in scripts})
    chk.rule = ("operation sequences (3..14 steps: reset ACTNUM incl. same-count masks, copy with new mask, all-active reset, "
                "EGRID/FEGRID save+load with NNCs and MAPAXES, volume-cache warm-up, thread count 1/4/16) on random grids "
                "up to 3x3x3 with integer DX/DY/DZ, fault shifts per column, in DX/DY/DZ/TOPS, DXV/DYV/DZV and COORD/ZCORN "
                "form, METRIC and FIELD units; every step's index maps, volumes, depths, dimensions are events validated by TLC")
    for s in scripts[:2]:
        chk.sample({"ops": [{k: v for k, v in o.items() if k != "deck"} for o in s["ops"][:8]]})
    chk.assumptions = ["integral geometry; lengths/volumes reported in deck units must be within 1e-7 of integers",
                       "vertical pillars with per-column fault shifts (sheared pillars, dipping layers not generated)",
                       "NNC transmissibilities are not part of an EGRID file (pairs only)"]
    return chk.finish()
