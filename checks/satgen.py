"""Monotone random saturation tables for the models of spec/SatMonitor.tla, in both input families, and their deck text."""
NC = 6


def inc(rng, n, lo, hi):
    xs = sorted(rng.uniform(lo, hi) for _ in range(n))
    for i in range(1, n):
        if xs[i] - xs[i - 1] < 0.03 * (hi - lo):
            xs[i] = xs[i - 1] + 0.03 * (hi - lo) * (1 + rng.random())
    return xs


def interp(xs, ys, x):
    if x <= xs[0]:
        return ys[0]
    for i in range(1, len(xs)):
        if x <= xs[i]:
            t = (x - xs[i - 1]) / (xs[i] - xs[i - 1])
            return ys[i - 1] + t * (ys[i] - ys[i - 1])
    return ys[-1]


def region(rng, n):
    swco = round(rng.uniform(0.08, 0.25), 3)
    n = n + 2
    sw = [swco] + [round(x, 4) for x in inc(rng, n - 2, swco + 0.05, 0.95)] + [1.0]
    a = rng.randint(0, 1)                    # krw is zero up to node a (Swcr = sw[a])
    b = rng.randint(n - 3, n - 2)            # krow is zero from node b on
    kmax = round(rng.uniform(0.4, 1.0), 3)
    up = inc(rng, n - 1 - a, 0.01, kmax)
    krw = [0.0] * (a + 1) + [round(x, 5) for x in up[:-1]] + [kmax]
    down = sorted((rng.uniform(0.02, 0.95) for _ in range(b - 1)), reverse=True)
    krow = [1.0] + [round(x, 5) for x in down] + [0.0] * (n - b)
    pcow = [round(x, 4) for x in sorted((rng.uniform(0.0, 2.0) for _ in range(n - 1)), reverse=True)] + [0.0]
    sgmax = round(1.0 - swco, 4)
    sg = [0.0] + [round(x, 4) for x in inc(rng, n - 2, 0.03, sgmax - 0.05)] + [sgmax]
    a2 = rng.randint(0, 1)
    b2 = rng.randint(n - 3, n - 2)
    gmax = round(rng.uniform(0.5, 1.0), 3)
    up = inc(rng, n - 1 - a2, 0.01, gmax)
    krg = [0.0] * (a2 + 1) + [round(x, 5) for x in up[:-1]] + [gmax]
    down = sorted((rng.uniform(0.02, 0.95) for _ in range(b2 - 1)), reverse=True)
    krog = [1.0] + [round(x, 5) for x in down] + [0.0] * (n - b2)
    pcog = [0.0] + [round(x, 4) for x in sorted(rng.uniform(0.0, 1.0) for _ in range(n - 1))]
    # the same curves as functions of the oil saturation (family II)
    so = sorted({round(1.0 - s, 4) for s in sw} | {round(sgmax - g, 4) for g in sg})
    so = [s for s in so if -1e-9 <= s <= sgmax + 1e-9]
    sof3 = [[s, interp(sw, krow, 1.0 - s), interp(sg, krog, sgmax - s)] for s in so]
    return {"swco": swco, "sw": sw, "krw": krw, "krow": krow, "pcow": pcow, "sg": sg, "krg": krg, "krog": krog, "pcog": pcog, "sof3": sof3}


def endpoints(rng, regs, satnum, vertical=False):
    """consistent per-cell end-points (with vertical scaling: the maximum and the value at the displacing phase's critical saturation)"""
    out = {k: [] for k in ("SWL", "SWCR", "SWU", "SGL", "SGCR", "SGU", "SOWCR", "SOGCR")}
    if vertical:
        for k in ("KRW", "KRWR", "KRO", "KRORW", "KRG", "KRGR"):
            out[k] = []
        for c in range(NC):
            for big, small in (("KRW", "KRWR"), ("KRO", "KRORW"), ("KRG", "KRGR")):
                m = round(rng.uniform(0.5, 1.0), 3)
                out[big].append(m)
                out[small].append(round(m * rng.uniform(0.3, 0.9), 3))
    for c in range(NC):
        swl = round(rng.uniform(0.05, 0.3), 3)
        # (with vertical scaling the critical saturation lies strictly above the connate one: at SWCR = SWL the curve
        #  would have to carry KRO and KRORW at the same point)
        swcr = round(swl + rng.uniform(0.01 if vertical else 0.0, 0.1), 3)
        sowcr = round(rng.uniform(0.05, 0.25), 3)
        sogcr = round(rng.uniform(0.05, 0.25), 3)
        sgcr = round(rng.uniform(0.0, 0.12), 3)
        out["SWL"].append(swl); out["SWCR"].append(swcr); out["SWU"].append(1.0)
        out["SGL"].append(0.0); out["SGCR"].append(sgcr); out["SGU"].append(round(1.0 - swl, 3))
        out["SOWCR"].append(sowcr); out["SOGCR"].append(sogcr)
    return out


def g(x):
    return "%.10g" % x


def deck(regs, family, scaling, arrays, hyst, satnum, imbnum):
    nr = len(regs)
    L = ["RUNSPEC", "DIMENS", " %d 1 1 /" % NC, "OIL", "GAS", "WATER", "METRIC", "TABDIMS", " %d 1 40 40 /" % nr]
    if scaling != "none":
        L += ["ENDSCALE", " NODIR REVERS 1 20 /"]
    if hyst != "none":
        L += ["SATOPTS", " HYSTER /"]
    L += ["START", " 1 'JAN' 2020 /", "GRID", "DX", " %d*100 /" % NC, "DY", " %d*100 /" % NC, "DZ", " %d*10 /" % NC, "TOPS", " %d*2000 /" % NC,
          "PORO", " %d*0.2 /" % NC, "PERMX", " %d*100 /" % NC, "PERMY", " %d*100 /" % NC, "PERMZ", " %d*10 /" % NC, "PROPS"]
    if family == 1:
        L.append("SWOF")
        for r in regs:
            L += [" %s %s %s %s" % (g(a), g(b), g(c), g(d)) for a, b, c, d in zip(r["sw"], r["krw"], r["krow"], r["pcow"])] + ["/"]
        L.append("SGOF")
        for r in regs:
            L += [" %s %s %s %s" % (g(a), g(b), g(c), g(d)) for a, b, c, d in zip(r["sg"], r["krg"], r["krog"], r["pcog"])] + ["/"]
    else:
        L.append("SWFN")
        for r in regs:
            L += [" %s %s %s" % (g(a), g(b), g(d)) for a, b, d in zip(r["sw"], r["krw"], r["pcow"])] + ["/"]
        L.append("SGFN")
        for r in regs:
            L += [" %s %s %s" % (g(a), g(b), g(d)) for a, b, d in zip(r["sg"], r["krg"], r["pcog"])] + ["/"]
        L.append("SOF3")
        for r in regs:
            L += [" %s %s %s" % (g(a), g(b), g(c)) for a, b, c in r["sof3"]] + ["/"]
    if scaling == "three":
        L += ["SCALECRS", " YES /"]
    if hyst != "none":
        L += ["EHYSTR", " 0.1 0 0.1 1* KR /"]
    if arrays:
        for k, v in arrays.items():
            L += [k, " " + " ".join(g(x) for x in v) + " /"]
            if hyst != "none":          # the imbibition curves are scaled with the same end-points
                L += ["I" + k, " " + " ".join(g(x) for x in v) + " /"]
    L += ["REGIONS", "SATNUM", " " + " ".join(str(x) for x in satnum) + " /"]
    if hyst != "none":
        L += ["IMBNUM", " " + " ".join(str(x) for x in imbnum) + " /"]
    L += ["SCHEDULE", "TSTEP", " 1 /", "END"]
    return "\n".join(L) + "\n"
