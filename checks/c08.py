"""C08 - unified restart files keep a consistent history under rewinds and crashes.

Model: spec/UnifiedRestart.tla over spec/EclFileFormat.tla.
Binding: harness/urst executes TLC-generated and seeded random write
histories on the real OutputStream::Restart / ERst; every public call is an
event; TLC validates the recorded trace against Trace_UnifiedRestart with
all invariants of the model evaluated at every step; every byte offset of
unformatted files is a crash point whose read outcome the model predicts.
"""
import json
import os
import random

import vf

PID = "C08"
TYPES = ["INTE", "REAL", "DOUB", "LOGI", "CHAR", "C0NN", "MESS"]
EDGE = [0, 1, 2, 3, 104, 105, 106, 210, 211, 999, 1000, 1001, 2000, 2001]


def gen_to_script(g, crash_stride=None):
    ops = []
    for k, w in enumerate(g["writes"], 1):
        ops.append(["open", w["step"]])
        for j, a in enumerate(w["payload"], 1):
            ops.append(["write", "%s%02d%02d" % (a["t"][:2], k, j), a["t"], a["w"], a["n"]])
        ops.append(["close"])
    if crash_stride and not g["fmt"]:
        ops.append(["crash", crash_stride])
    return {"fmt": g["fmt"], "ops": ops, "src": "tlc"}


def random_script(rng, max_sessions, max_step, big):
    fmt = rng.random() < 0.5
    ops = []
    nsess = rng.randint(1, max_sessions)
    for k in range(1, nsess + 1):
        ops.append(["open", rng.randint(0, max_step)])
        for j in range(1, rng.randint(0, 4) + 1):
            t = rng.choice(TYPES)
            n = 0 if t == "MESS" else (rng.choice(EDGE) if (big and rng.random() < 0.5) else rng.randint(0, 12))
            w = 8 if t == "CHAR" else (rng.choice([9, 12, 24, 40, 77]) if t == "C0NN" else 0)
            if t == "C0NN" and n == 0:
                t, w = "CHAR", 8      # an empty string array is written as CHAR by the library
            ops.append(["write", "%s%02d%02d" % (t[:2], k, j), t, w, n])
        ops.append(["close"])
        if not fmt and rng.random() < 0.15 and not big:
            ops.append(["crash", 1])
    if not fmt:
        ops.append(["crash", 1 if not big else rng.choice([211, 499, 997])])
    return {"fmt": fmt, "ops": ops, "src": "random"}


def run(opts):
    chk = vf.Check(PID)
    vf.build_repo()
    exe = vf.build_harness("urst")
    rng = random.Random(chk.seed)

    if opts.get("replay"):
        rec = json.load(open(opts["replay"]))
        scripts = [rec["script"]]
    else:
        # ---- design level: the model itself
        for cfg, acts in [("MC_EclFileFormat_seq.cfg", ["WriteArray", "WriteMessage"])]:
            r = vf.tlc("MC_EclFileFormat", cfg, timeout=900)
            if r.violated:
                chk.violation({"kind": "model", "cfg": cfg, "invariant": r.violated, "trace": r.trace_text},
                              "model invariant %s violated (%s)" % (r.violated, cfg))
            vf.require_clean(r, cfg, acts)
            chk.add_tlc(r)
        mcs = [("MC_UnifiedRestart_coarse.cfg", ["WriteStep"]),
               ("MC_UnifiedRestart_fine.cfg", ["OpenWrite", "WriteArray", "Close"])]
        if not chk.quick:
            mcs.append(("MC_UnifiedRestart_crash.cfg", ["WriteStep"]))
        for cfg, acts in mcs:
            r = vf.tlc("MC_UnifiedRestart", cfg, timeout=1500)
            if r.violated:
                chk.violation({"kind": "model", "cfg": cfg, "invariant": r.violated, "trace": r.trace_text},
                              "model invariant %s violated (%s)" % (r.violated, cfg))
            vf.require_clean(r, cfg, acts)
            chk.add_tlc(r)
        # non-vacuity: with the seek constant of the unrepaired tree the invariants must fail
        r = vf.tlc("MC_UnifiedRestart", "MC_UnifiedRestart_asold.cfg", timeout=600)
        if not r.violated:
            raise vf.ToolingError("vacuity guard: model with SeekBackF=30 does not violate NoJunk")
        chk.notes["vacuity_guard"] = "SeekBackF=30 violates %s as expected" % r.violated

        # ---- behaviours from TLC
        g = vf.tlc("Gen_UnifiedRestart", "Gen_UnifiedRestart_%s.cfg" % chk.pick("quick", "thorough"),
                   timeout=1500, coverage=False)
        vf.require_clean(g, "Gen_UnifiedRestart")
        chk.add_tlc(g)
        if not g.gen:
            raise vf.ToolingError("no behaviours generated")
        every = chk.pick(97, 211)
        beh = list(g.gen)
        chk.notes["tlc_behaviours_generated"] = len(beh)
        if not chk.quick and len(beh) > 20000:
            # the thorough family (all sequences of 5 write sessions) is sampled: 20000 of them per run, chosen by the seed
            rng.shuffle(beh)
            beh = beh[:20000]
        scripts = [gen_to_script(b, 1 if (i % every == 0) else None) for i, b in enumerate(beh)]
        chk.notes["tlc_behaviours"] = len(scripts)
        # ---- seeded random histories beyond the exhaustive bound
        nrand = chk.pick(120, 2000)
        for i in range(nrand):
            scripts.append(random_script(rng, chk.pick(8, 12), chk.pick(6, 10), big=(i % 3 == 0)))
        chk.notes["random_histories"] = nrand
        chk.exhaustive = False

    for i, s in enumerate(scripts):
        s["id"] = i
    spath = os.path.join(chk.rundir, "scripts.ndjson")
    tpath = os.path.join(chk.rundir, "trace.ndjson")
    # run in chunks so that one TLC start validates ~10^5 events
    chunk = 3000
    total_events = 0
    distinct = set()
    for lo in range(0, len(scripts), chunk):
        part = scripts[lo:lo + chunk]
        vf.write_ndjson(spath, part)
        rc, out, _ = vf.sh([exe, spath, tpath, os.path.join(chk.rundir, "w")], timeout=3000)
        if rc != 0:
            raise vf.ToolingError("harness urst failed rc=%d: %s" % (rc, out[-2000:]))
        total_events += sum(1 for _ in open(tpath))
        by_id = {k: s for k, s in enumerate(part)}
        acc = vf.validate_trace_segments(chk, "Trace_UnifiedRestart", "Trace_UnifiedRestart.cfg", tpath,
                                         script_of_segment=lambda seg: by_id.get(seg["id"]))
        chk.traces += acc
        for s in part:
            distinct.add(json.dumps([s["fmt"], [o for o in s["ops"] if o[0] != "crash"]]))
    chk.evaluations = total_events
    chk.distinct = len([d for d in distinct if d.count('"open"') >= 2])
    chk.rule = ("write histories: %s write sessions over report steps 0..3 x payloads x "
                "{formatted, unformatted} enumerated by TLC, plus seeded random histories (<= 12 sessions, "
                "array lengths around block boundaries); crash = every byte offset of the resulting "
                "unformatted file; non-trivial = distinct history with at least two sessions; "
                "evaluations = trace events validated by TLC" % chk.pick("every sequence of 4", "a seeded sample of 20000 of the sequences of 5"))
    for s in scripts[:2] + scripts[-2:]:
        chk.sample({"fmt": s["fmt"], "ops": s["ops"][:14], "src": s.get("src")})
    chk.assumptions = ["the independent scanner harness/eclscan.hpp decodes the bytes correctly",
                       "crash = truncation of the closed file at a byte offset (no torn sector contents)",
                       "formatted files are checked for rewinds only (the property's crash clause is about unformatted files)"]
    return chk.finish()
