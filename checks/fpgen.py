"""Seeded generator of field-property programs (C12) and their deck text."""
GRID_D = ["PRATIO", "NTG", "MULTX", "BIOTCOEF"]
GRID_I = ["MULTNUM", "OPERNUM", "FLUXNUM"]
PROPS_D = ["SWATINIT"]
REG_I = ["SATNUM", "FIPNUM", "EQLNUM"]
FUNCS = ["MULTA", "POLY", "MULTIPLY", "MULTX", "ADDX", "COPY", "MAXLIM", "MINLIM", "ABS", "MULTP"]


def rand_box(rng, dims):
    b = []
    for n in dims:
        a = 1 if rng.random() < 0.35 else rng.randint(1, n)
        c = n if rng.random() < 0.35 else rng.randint(a, n)
        b += [a, c]
    return b


def rand_dflt(rng, dims, b):
    """which items of the box are written as defaulted (1*): only items that equal their default (1 / the grid extent),
    and never all six - a fully defaulted box means the current box"""
    if not b:
        return []
    full = [1, dims[0], 1, dims[1], 1, dims[2]]
    f = [b[i] == full[i] and rng.random() < 0.6 for i in range(6)]
    if all(f):
        f[rng.randrange(6)] = False
    return f


def box_size(b):
    return (b[1] - b[0] + 1) * (b[3] - b[2] + 1) * (b[5] - b[4] + 1)


def rand_program(rng, cid, max_ops):
    dims = [rng.randint(1, 4), rng.randint(1, 3), rng.randint(1, 3)]
    nc = dims[0] * dims[1] * dims[2]
    actnum = [1 if rng.random() < 0.75 else 0 for _ in range(nc)]
    if sum(actnum) == 0:
        actnum[rng.randrange(nc)] = 1
    prog = []
    full = [1, dims[0], 1, dims[1], 1, dims[2]]
    complete = {"NTG", "MULTX", "MULTNUM", "SATNUM", "FIPNUM", "EQLNUM"}   # keywords with a default

    def pick(pool, p=0.85):
        good = [k for k in pool if k in complete]
        return rng.choice(good) if good and rng.random() < p else rng.choice(pool)

    def pick_reg():
        good = [r for r, a in (("M", "MULTNUM"), ("F", "FLUXNUM"), ("O", "OPERNUM")) if a in complete]
        return rng.choice(good) if good and rng.random() < 0.9 else rng.choice(["M", "F", "O"])

    def section(name, dbl, ints, nops):
        prog.append({"op": "SECTION", "name": name})
        cur = list(full)
        for _ in range(nops):
            k = rng.random()
            allkw = dbl + ints
            if k < 0.10:
                cur = rand_box(rng, dims)
                prog.append({"op": "BOX", "box": list(cur), "dflt": rand_dflt(rng, dims, cur)})
            elif k < 0.15:
                cur = list(full)
                prog.append({"op": "ENDBOX"})
            elif k < 0.40:
                kw = rng.choice(allkw)
                vals = [(-999 if rng.random() < 0.12 else rng.randint(1, 6)) for _ in range(box_size(cur))]
                prog.append({"op": "ARRAY", "kw": kw, "vals": vals})
                if cur == full and -999 not in vals:
                    complete.add(kw)
            elif k < 0.65:
                op = rng.choice(["EQUALS", "EQUALS", "ADD", "MULTIPLY", "MINVALUE", "MAXVALUE"])
                kw = rng.choice(allkw) if op == "EQUALS" else pick(allkw)
                b = rand_box(rng, dims) if rng.random() < 0.6 else []
                prog.append({"op": op, "kw": kw, "v": rng.randint(1, 5), "box": b, "dflt": rand_dflt(rng, dims, b)})
                if op == "EQUALS" and (b == full or (b == [] and cur == full)):
                    complete.add(kw)
            elif k < 0.75:
                pool = ints if (not dbl or (ints and rng.random() < 0.3)) else dbl
                b = rand_box(rng, dims) if rng.random() < 0.5 else []
                prog.append({"op": "COPY", "src": pick(pool), "dst": rng.choice(pool), "box": b, "dflt": rand_dflt(rng, dims, b)})
            elif k < 0.83 and len(dbl) >= 1:
                f = rng.choice(FUNCS)
                b = rand_box(rng, dims) if rng.random() < 0.6 else []
                prog.append({"op": "OPERATE", "dst": pick(dbl, 0.6), "src": pick(dbl), "f": f,
                             "a": rng.randint(1, 3), "b": rng.randint(0, 2) if f in ("POLY", "MULTP") else rng.randint(0, 3),
                             "box": b, "dflt": rand_dflt(rng, dims, b)})
            elif k < 0.93 and dbl:
                op = rng.choice(["EQUALREG", "ADDREG", "MULTIREG"])
                prog.append({"op": op, "kw": rng.choice(dbl) if op == "EQUALREG" else pick(dbl), "v": rng.randint(1, 4),
                             "val": rng.randint(1, 3), "reg": pick_reg()})
            elif k < 0.97 and dbl:
                prog.append({"op": "COPYREG", "src": pick(dbl), "dst": rng.choice(dbl), "val": rng.randint(1, 3),
                             "reg": pick_reg()})
            elif dbl:
                f = rng.choice(FUNCS)
                prog.append({"op": "OPERATER", "dst": pick(dbl, 0.6), "src": pick(dbl), "f": f, "val": rng.randint(1, 3),
                             "a": rng.randint(1, 3), "b": rng.randint(0, 2) if f in ("POLY", "MULTP") else rng.randint(0, 3),
                             "reg": pick_reg()})
    n = rng.randint(2, max_ops)
    # GRID: PORO and the region arrays are assigned first most of the time, then random operations
    prog.append({"op": "SECTION", "name": "GRID"})
    if rng.random() < 0.8:
        prog.append({"op": "ARRAY", "kw": "PRATIO", "vals": [rng.randint(1, 6) for _ in range(nc)]})
        complete.add("PRATIO")
    if rng.random() < 0.6:
        prog.append({"op": "ARRAY", "kw": "BIOTCOEF", "vals": [rng.randint(1, 6) for _ in range(nc)]})
        complete.add("BIOTCOEF")
    for kw in GRID_I:
        if rng.random() < 0.8:
            prog.append({"op": "ARRAY", "kw": kw, "vals": [rng.randint(1, 3) for _ in range(nc)]})
            complete.add(kw)
    head = list(prog)
    del prog[:]
    section("GRID", GRID_D, GRID_I, max(1, n * 2 // 3))
    body = prog[1:]
    del prog[:]
    prog.extend(head + body)
    if rng.random() < 0.5:
        section("PROPS", PROPS_D, [], rng.randint(1, 3))
    if rng.random() < 0.6:
        section("REGIONS", [], REG_I, rng.randint(1, 4))
    return {"id": cid, "dims": dims, "actnum": actnum, "prog": prog, "deck": render(dims, actnum, prog)}


def fmt_box(b, dflt=None):
    if not b:
        return "6*"
    return " ".join("1*" if (dflt and dflt[i]) else str(x) for i, x in enumerate(b))


def render(dims, actnum, prog):
    nc = dims[0] * dims[1] * dims[2]
    s = "RUNSPEC\nDIMENS\n %d %d %d /\nOIL\nWATER\nMETRIC\nGRIDOPTS\n 'YES' 4 /\nTABDIMS\n 6 6 /\nEQLDIMS\n 6 /\nREGDIMS\n 6 6 /\n" % tuple(dims)
    header = "DX\n %d*100 /\nDY\n %d*100 /\nDZ\n %d*10 /\nTOPS\n %d*2000 /\nPORO\n %d*0.2 /\nACTNUM\n %s /\n" % (
        nc, nc, nc, dims[0] * dims[1], nc, " ".join(str(a) for a in actnum))
    for o in prog:
        k = o["op"]
        if k == "SECTION":
            s += o["name"] + "\n"
            if o["name"] == "GRID":
                s += header
                header = ""
        elif k == "BOX":
            s += "BOX\n %s /\n" % fmt_box(o["box"], o.get("dflt"))
        elif k == "ENDBOX":
            s += "ENDBOX\n"
        elif k == "ARRAY":
            s += "%s\n %s /\n" % (o["kw"], " ".join("1*" if v == -999 else str(v) for v in o["vals"]))
        elif k in ("EQUALS", "ADD", "MULTIPLY", "MINVALUE", "MAXVALUE"):
            s += "%s\n %s %d %s /\n/\n" % (k, o["kw"], o["v"], fmt_box(o["box"], o.get("dflt")))
        elif k == "COPY":
            s += "COPY\n %s %s %s /\n/\n" % (o["src"], o["dst"], fmt_box(o["box"], o.get("dflt")))
        elif k == "OPERATE":
            s += "OPERATE\n %s %s %s %s %d %d /\n/\n" % (o["dst"], fmt_box(o["box"], o.get("dflt")), o["f"], o["src"], o["a"], o["b"])
        elif k in ("EQUALREG", "ADDREG", "MULTIREG"):
            s += "%s\n %s %d %d %s /\n/\n" % (k, o["kw"], o["v"], o["val"], o["reg"])
        elif k == "COPYREG":
            s += "COPYREG\n %s %s %d %s /\n/\n" % (o["src"], o["dst"], o["val"], o["reg"])
        elif k == "OPERATER":
            # OPERATER names the region array in full, the other region keywords by letter
            full = {"M": "MULTNUM", "F": "FLUXNUM", "O": "OPERNUM"}[o["reg"]]
            s += "OPERATER\n %s %d %s %s %d %d %s /\n/\n" % (o["dst"], o["val"], o["f"], o["src"], o["a"], o["b"], full)
    return s
