"""X07 (beyond the listed properties) - well and connection status.

Specification: spec/WellStatus.tla - a well starts SHUT without connections;
WCONPROD / WCONINJE and WELOPEN on the well set its status, except that a
request to OPEN a well without connections is ignored; WELOPEN with connection
items and COMPDAT only change connections; at the end of every report step a
well whose connections are all SHUT is shut; WELL_STATUS_CHANGE,
REQUEST_OPEN_WELL and COMPLETION_CHANGE are raised for the well.  TLC checks
that between report steps an OPEN well has a connection that is not shut, that
every status change across a step is announced, and that connections are
never lost.  harness/wellstatus builds the real Schedule from random keyword
histories and Trace_WellStatus validates every report step.
"""
import json
import os
import random

import vf

PID = "X07"
WELLS = ["W1", "W2"]
HEAD = """RUNSPEC
DIMENS
 2 1 3 /
OIL
WATER
START
 1 'JAN' 2020 /
GRID
DX
 6*100 /
DY
 6*100 /
DZ
 6*10 /
TOPS
 2*2000 /
PORO
 6*0.2 /
PERMX
 6*100 /
PERMY
 6*100 /
PERMZ
 6*10 /
PROPS
SOLUTION
SCHEDULE
WELSPECS
 'W1' 'G1' 1 1 1* OIL /
 'W2' 'G1' 2 1 1* WATER /
/
"""
COL = {"W1": 1, "W2": 2}


def op_text(o):
    w = o["well"]
    if o["kw"] == "COMPDAT":
        return "COMPDAT\n '%s' %d 1 %d %d %s 1* 1* 0.2 /\n/\n" % (w, COL[w], o["k"], o["k"], o["state"])
    if o["kw"] == "WCON":
        if w == "W1":
            return "WCONPROD\n 'W1' %s ORAT 100 4* 50 /\n/\n" % o["status"]
        return "WCONINJE\n 'W2' WATER %s RATE 100 1* 400 /\n/\n" % o["status"]
    if o["k"] == -1:
        return "WELOPEN\n '%s' %s /\n/\n" % (w, o["status"])
    if o["k"] == 0:
        return "WELOPEN\n '%s' %s %d /\n/\n" % (w, o["status"], COL[w])
    return "WELOPEN\n '%s' %s 1* 1* %d /\n/\n" % (w, o["status"], o["k"])


def deck(steps):
    t = HEAD
    for i, ops in enumerate(steps):
        for o in ops:
            t += op_text(o)
        t += "DATES\n %d 'JAN' 2020 /\n/\n" % (i + 2)
    return t + "END\n"


def rand_op(rng):
    w = rng.choice(WELLS)
    r = rng.random()
    if r < 0.3:
        return {"kw": "COMPDAT", "well": w, "k": rng.choice([1, 2, 3]), "state": rng.choice(["OPEN", "OPEN", "SHUT"])}
    if r < 0.5:
        return {"kw": "WCON", "well": w, "status": rng.choice(["OPEN", "OPEN", "SHUT", "STOP", "AUTO"])}
    if r < 0.7:
        return {"kw": "WELOPEN", "well": w, "k": -1, "status": rng.choice(["OPEN", "OPEN", "SHUT", "STOP", "AUTO"])}
    return {"kw": "WELOPEN", "well": w, "k": rng.choice([0, 1, 2, 3]), "status": rng.choice(["OPEN", "SHUT", "SHUT"])}


def run(opts):
    chk = vf.Check(PID)
    vf.build_repo()
    exe = vf.build_harness("wellstatus")
    rng = random.Random(chk.seed)
    if opts.get("replay"):
        scripts = [json.load(open(opts["replay"]))["script"]]
    else:
        r = vf.tlc("WellStatus", "MC_WellStatus.cfg", timeout=2400)
        if r.violated:
            chk.violation({"kind": "model", "invariant": r.violated, "trace": r.trace_text}, "WellStatus: design property violated")
        vf.require_clean(r, "WellStatus")
        chk.add_tlc(r)
        scripts = []
        for _ in range(chk.pick(600, 12000)):
            steps = [[rand_op(rng) for _ in range(rng.choice([0, 1, 1, 2, 3]))] for _ in range(rng.choice([3, 5, 8]))]
            scripts.append({"wells": WELLS, "steps": steps, "deck": deck(steps)})
    for n, s in enumerate(scripts):
        s["id"] = n
    spath = os.path.join(chk.rundir, "scripts.ndjson")
    tpath = os.path.join(chk.rundir, "trace.ndjson")
    errors = 0
    for lo in range(0, len(scripts), 300):
        part = scripts[lo:lo + 300]
        vf.write_ndjson(spath, part)
        rc, out, _ = vf.sh([exe, spath, tpath], timeout=3000)
        if rc != 0:
            raise vf.ToolingError("harness wellstatus failed rc=%d: %s" % (rc, out[-2000:]))
        errors += sum(1 for ln in open(tpath) if '"e":"Error"' in ln)
        chk.evaluations += sum(1 for ln in open(tpath) if '"e":"Step"' in ln)
        by_id = {s["id"]: s for s in part}
        chk.traces += vf.validate_trace_segments(chk, "Trace_WellStatus", "Trace_WellStatus.cfg", tpath,
                                                 script_of_segment=lambda seg: by_id.get(seg["id"]))
    chk.distinct = len(scripts)
    chk.notes["schedules_refused_by_the_library"] = errors
    chk.rule = "%d random histories of 3-8 report steps with 0-3 keywords each (COMPDAT, WCONPROD / WCONINJE status, WELOPEN on the well and on connections) over a producer and an injector in 3 layers" % len(scripts)
    chk.sample(scripts[0]["steps"][:3])
    chk.assumptions = ["not one of the listed properties: additional specification coverage (DESIGN.md 12.7)"]
    return chk.finish()
