"""X01 (beyond the listed properties) - periodic testing of closed wells (WTEST).

Specification: spec/WellTest.tla - WellTestConfig + WellTestState as one state
machine; TLC model-checks that a test is only counted for a well closed for a
configured reason that has waited the interval and has attempts left, and that
the attempt count only restarts with a configuration of a later report step.
harness/wtest drives the real objects with random operation sequences;
Trace_WellTest validates every operation's observable result.
"""
import json
import os
import random

import vf

PID = "X01"
WELLS = ["W1", "W2", "W3"]


def rand_script(rng, n):
    ops = []
    for _ in range(n):
        k = rng.random()
        w = rng.choice(WELLS)
        if k < 0.2:
            ops.append({"op": "config", "well": w, "reasons": "".join(sorted(rng.sample(["P", "E", "G"], rng.randint(1, 3)))),
                        "interval": rng.choice([1, 2, 3, 5]), "num": rng.choice([0, 1, 2, 3]), "step": rng.choice([0, 1, 2, 3])})
        elif k < 0.25:
            ops.append({"op": "drop", "well": w})
        elif k < 0.45:
            ops.append({"op": "close", "well": w, "reason": rng.choice(["P", "E", "G"])})
        elif k < 0.55:
            ops.append({"op": "open", "well": w})
        elif k < 0.8:
            ops.append({"op": "test"})
        else:
            ops.append({"op": "tick", "d": rng.choice([1, 1, 2, 4])})
    return {"wells": WELLS, "ops": ops}


def run(opts):
    chk = vf.Check(PID)
    vf.build_repo()
    exe = vf.build_harness("wtest")
    rng = random.Random(chk.seed)
    if opts.get("replay"):
        scripts = [json.load(open(opts["replay"]))["script"]]
    else:
        r = vf.tlc("WellTest", "MC_WellTest.cfg", timeout=2400)
        if r.violated:
            chk.violation({"kind": "model", "invariant": r.violated, "trace": r.trace_text}, "WellTest: design property violated")
        vf.require_clean(r, "WellTest")
        chk.add_tlc(r)
        scripts = [rand_script(rng, rng.choice([10, 20, 40])) for _ in range(chk.pick(1500, 30000))]
    for n, s in enumerate(scripts):
        s["id"] = n
    spath = os.path.join(chk.rundir, "scripts.ndjson")
    tpath = os.path.join(chk.rundir, "trace.ndjson")
    for lo in range(0, len(scripts), 1500):
        part = scripts[lo:lo + 1500]
        vf.write_ndjson(spath, part)
        rc, out, _ = vf.sh([exe, spath, tpath], timeout=3000)
        if rc != 0:
            raise vf.ToolingError("harness wtest failed rc=%d: %s" % (rc, out[-2000:]))
        chk.evaluations += sum(1 for ln in open(tpath) if '"e":"Op"' in ln)
        by_id = {s["id"]: s for s in part}
        chk.traces += vf.validate_trace_segments(chk, "Trace_WellTest", "Trace_WellTest.cfg", tpath,
                                                 script_of_segment=lambda seg: by_id.get(seg["id"]))
    chk.distinct = len(scripts)
    chk.rule = "%d random operation sequences (configure / drop / close / open / test / advance time) of 10-40 operations over 3 wells and 3 closing reasons" % len(scripts)
    chk.sample(scripts[0]["ops"][:5])
    chk.assumptions = ["not one of the listed properties: additional specification coverage (DESIGN.md 12.7)"]
    return chk.finish()
