"""C09 - summary vectors equal their defining expressions; totals accumulate rate x efficiency x step length.

Specification: spec/Summary.tla - running totals and the vector values of an
evaluation as a state machine over a group tree with efficiency factors
(exact integer arithmetic over a fixed denominator), production / injection
split by sign, history vectors from the schedule's observed rates, derived
vectors, calendar vectors.  MC_Summary model-checks the conservation laws
(field and group totals equal the sums of their wells' totals, hierarchical
group rates, monotone totals) on a small tree.  Oracle_Summary runs every
generated history through the same Eval action; harness/smryeval drives the
real out::Summary::eval + SummaryState with the same history and the values of
all vectors after every evaluation are compared.
"""
import json
import os
import random

import smrygen
import vf

PID = "C09"
RTOL = 1e-9


def run(opts):
    chk = vf.Check(PID)
    vf.build_repo()
    exe = vf.build_harness("smryeval")
    rng = random.Random(chk.seed)
    if opts.get("replay"):
        cases = [json.load(open(opts["replay"]))["script"]]
        cases[0]["id"] = 0
    else:
        r = vf.tlc("MC_Summary", "MC_Summary.cfg" if chk.quick else "MC_Summary_deep.cfg", timeout=3000)
        if r.violated:
            chk.violation({"kind": "model", "invariant": r.violated, "trace": r.trace_text}, "Summary: conservation law violated in the specification")
        vf.require_clean(r, "MC_Summary")
        chk.add_tlc(r)
        cases = [smrygen.rand_model(rng, i) for i in range(chk.pick(150, 4000))]
    for lo in range(0, len(cases), 500):
        part = cases[lo:lo + 500]
        ocases = [{"id": c["id"], "model": c["model"],
                   "evals": [{k: e[k] for k in ("dt", "wefac", "gefac", "raw", "hist")} | {"shut": {w: e["shut"][w] or e["absent"][w] for w in e["shut"]}}
                             for e in c["evals"]]} for c in part]
        exp, skipped, states = vf.tlc_oracle("Oracle_Summary", "Oracle_Summary.cfg", ocases, chk.rundir)
        chk.states += states[0]
        chk.transitions += states[1]
        scripts = []
        for c in part:
            scripts.append({"id": c["id"], "deck": smrygen.render(c), "keys": smrygen.keys_of(c["model"]),
                            "evals": [{"rs": e["rs"], "dt": e["dt"],
                                       "wells": {w: dict(e["raw"][w], shut=e["shut"][w], absent=e["absent"][w]) for w in e["raw"]}}
                                      for e in c["evals"]]})
        spath = os.path.join(chk.rundir, "scripts.ndjson")
        opath = os.path.join(chk.rundir, "out.ndjson")
        vf.write_ndjson(spath, scripts)
        rc, out, _ = vf.sh([exe, spath, opath, os.path.join(chk.rundir, "w")], timeout=6000)
        if rc != 0:
            raise vf.ToolingError("harness smryeval failed rc=%d: %s" % (rc, out[-2000:]))
        byid = {c["id"]: c for c in part}
        done = set()
        for ev in vf.read_ndjson(opath):
            c = byid[ev["case"]]
            if ev["case"] in done:
                continue
            if ev["res"] != "ok":
                done.add(ev["case"])
                chk.violation({"kind": "summary-error", "script": c, "what": ev.get("what")}, "summary evaluation failed: %s" % ev.get("what", "")[:200])
                continue
            e = exp.get(ev["case"] * 100 + ev["eval"])
            if e is None:
                continue            # arithmetic beyond TLC's integers: case dropped by the oracle
            chk.traces += 1
            bad = []
            for key, q in e["vec"].items():
                got = ev["vec"].get(key)
                want = q["n"] / q["d"]
                chk.evaluations += 1
                if not isinstance(got, (int, float)) or abs(got - want) > RTOL * max(1.0, abs(want)):
                    bad.append((key, want, got))
            if bad:
                done.add(ev["case"])
                fam = sorted({k.split(":")[0] for k, _, _ in bad})
                chk.violation({"kind": "summary-mismatch", "vectors": fam[:12], "script": c, "eval": ev["eval"],
                               "first": [{"key": k, "expected": w, "got": g} for k, w, g in bad[:8]]},
                              "evaluation %d of case %d (%s): %d vectors differ from their definition, e.g. %s expected %.10g got %s"
                              % (ev["eval"], c["id"], c["unit"], len(bad), bad[0][0], bad[0][1], bad[0][2]))
        chk.notes["oracle_cases_dropped"] = chk.notes.get("oracle_cases_dropped", 0) + skipped
    chk.distinct = len(cases)
    chk.rule = ("%d random models: group trees of 1-5 groups up to depth 4, 2-6 wells (producers, water and gas injectors) in leaf "
                "groups, WEFAC / GEFAC in {1/4, 1/2, 3/4, 1} changing per report step, 1-4 report steps of 1-3 evaluations each with "
                "step lengths 1-20 days, signed integer surface and reservoir rates (8%% cross-flow phases), 22%% of wells shut or "
                "absent per evaluation, observed rates per report step, random start dates incl. leap days and year ends, four unit "
                "systems; all of W/G/F x {O,W,G,V}{P,I}{R,T}, O/W/G P{R,T}H, W/G I{R,T}H, LPR/LPT/LPRH/LPTH, WCT, GOR, GLR, WCTH, GORH and "
                "TIME, YEARS, DAY, MONTH, YEAR compared after every evaluation" % len(cases))
    for c in cases[:1]:
        chk.sample({"model": c["model"], "unit": c["unit"], "n_evals": len(c["evals"])})
    chk.assumptions = ["efficiency factors are multiples of 1/4 and rates integers so that the specification's arithmetic is exact; "
                       "agreement to 1e-9 relative", "simulator results are fed through data::Wells in SI via UnitSystem::to_si (C02's subject)",
                       "all producers are history-matched (WCONHIST) and all injectors WCONINJH; wells exist from the first report step"]
    return chk.finish()
