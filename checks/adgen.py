"""Seeded generator of AD programs (C16).  Tracks the numeric value of every
stack entry so that each function is applied inside its domain, well away
from singularities, and tracks whether the value is rational (abs / min /
max are only applied to rational values, whose sign and order TLC decides)."""
import math

UNARY = ["neg", "sqrt", "exp", "log", "log10", "sin", "cos", "tan", "asin", "acos", "atan",
         "sinh", "cosh", "asinh", "acosh", "abs"]
RATIONAL_BIN = ["+", "-", "*", "/"]


def _ok_unary(f, v, rational):
    if not math.isfinite(v) or abs(v) > 30:
        return False
    if f in ("sqrt", "log", "log10"):
        return v > 0.05
    if f == "exp":
        return v < 3.0
    if f == "tan":
        return abs(math.cos(v)) > 0.3
    if f in ("asin", "acos"):
        return abs(v) < 0.9
    if f == "acosh":
        return v > 1.2
    if f in ("sinh", "cosh"):
        return abs(v) < 3.0
    if f == "abs":
        return rational and abs(v) > 0.01
    return True


def _apply_unary(f, v):
    return {"neg": lambda: -v, "sqrt": lambda: math.sqrt(v), "exp": lambda: math.exp(v), "log": lambda: math.log(v),
            "log10": lambda: math.log10(v), "sin": lambda: math.sin(v), "cos": lambda: math.cos(v),
            "tan": lambda: math.tan(v), "asin": lambda: math.asin(v), "acos": lambda: math.acos(v),
            "atan": lambda: math.atan(v), "sinh": lambda: math.sinh(v), "cosh": lambda: math.cosh(v),
            "asinh": lambda: math.asinh(v), "acosh": lambda: math.acosh(v), "abs": lambda: abs(v)}[f]()


def rand_q(rng, positive=False):
    d = rng.choice([1, 1, 2, 4, 3, 5])
    n = rng.randint(1, 9) if positive else rng.choice([-1, 1]) * rng.randint(1, 9)
    return [n, d]


def rand_program(rng, nvars, max_ops):
    """returns (ops, numeric value) ; variable slots are 1..nvars (renumbered by the caller)"""
    st = []           # (value, rational, numer*denom magnitude guard)
    ops = []
    used = set()

    def push_leaf():
        if len(used) < nvars or rng.random() < 0.6:
            i = rng.randint(1, nvars)
            used.add(i)
            q = rand_q(rng)
            ops.append({"o": "var", "i": i, "q": q})
        else:
            q = rand_q(rng)
            ops.append({"o": "const", "q": q})
        st.append((q[0] / q[1], True))
    push_leaf()
    nops = rng.randint(1, max_ops)
    guard = 0
    while nops > 0 and guard < 200:
        guard += 1
        k = rng.random()
        v, rat = st[-1]
        if k < 0.30:
            f = rng.choice(UNARY)
            if not _ok_unary(f, v, rat):
                continue
            ops.append({"o": "un", "f": f})
            st[-1] = (_apply_unary(f, v), rat and f in ("neg", "abs"))
        elif k < 0.36:
            # the same object on both sides:  x op x  /  x op= x
            f = rng.choice(RATIONAL_BIN)
            if f == "/" and abs(v) < 0.1:
                continue
            ops.append({"o": rng.choice(["binSelf", "cmpdSelf"]), "f": f})
            st[-1] = ({"+": 2 * v, "-": 0.0, "*": v * v, "/": 1.0}[f], rat)
        elif k < 0.70:
            # Evaluation (op) Evaluation, binary or compound
            if len(st) < 2:
                push_leaf()
                continue
            y, yr = st[-1]
            x, xr = st[-2]
            f = rng.choice(RATIONAL_BIN * 3 + ["pow", "atan2", "min", "max"])
            if f == "/" and abs(y) < 0.1:
                continue
            if f == "pow" and not (x > 0.1 and abs(y) < 3 and abs(y * math.log(x)) < 4):
                continue
            if f == "atan2" and (x * x + y * y) < 0.05:
                continue
            if f in ("min", "max") and not (xr and yr and abs(x - y) > 0.01):
                continue
            if f in RATIONAL_BIN and rng.random() < 0.35:
                ops.append({"o": "cmpd", "f": f})
            else:
                ops.append({"o": "bin", "f": f})
            r = {"+": lambda: x + y, "-": lambda: x - y, "*": lambda: x * y, "/": lambda: x / y,
                 "pow": lambda: x ** y, "atan2": lambda: math.atan2(x, y), "min": lambda: min(x, y),
                 "max": lambda: max(x, y)}[f]()
            st.pop()
            st[-1] = (r, xr and yr and f not in ("pow", "atan2"))
        else:
            # Evaluation (op) scalar
            q = rand_q(rng)
            c = q[0] / q[1]
            side = rng.choice(["L", "R"])
            f = rng.choice(RATIONAL_BIN * 3 + ["pow", "min", "max", "atan2"])
            a, b = (v, c) if side == "R" else (c, v)
            if f == "atan2" and (a * a + b * b) < 0.05:
                continue
            if f == "/" and abs(b) < 0.1:
                continue
            if f == "pow":
                if not (a > 0.1 and abs(b) < 3 and abs(b * math.log(a)) < 4):
                    continue
            if f in ("min", "max") and not (rat and abs(a - b) > 0.01):
                continue
            if f in RATIONAL_BIN and side == "R" and rng.random() < 0.35:
                ops.append({"o": "cmpdS", "f": f, "side": "R", "q": q})
            else:
                ops.append({"o": "binS", "f": f, "side": side, "q": q})
            r = {"+": lambda: a + b, "-": lambda: a - b, "*": lambda: a * b, "/": lambda: a / b,
                 "pow": lambda: a ** b, "min": lambda: min(a, b), "max": lambda: max(a, b),
                 "atan2": lambda: math.atan2(a, b)}[f]()
            st[-1] = (r, rat and f not in ("pow", "atan2"))
        if not math.isfinite(st[-1][0]) or abs(st[-1][0]) > 1e4:
            return None
        # keep exact rationals small enough for TLC's 32-bit integers: after a few
        # rational operations wrap the value in a function
        nops -= 1
    # fold the stack with +
    while len(st) > 1:
        y, yr = st.pop()
        x, xr = st[-1]
        ops.append({"o": "bin", "f": "+"})
        st[-1] = (x + y, xr and yr)
    return ops, st[-1][0]


def cases_for(rng, cid0, nvars, max_ops, sizes):
    """one program, instantiated for several derivative counts with the variables in random slots"""
    p = None
    while p is None:
        p = rand_program(rng, nvars, max_ops)
    ops, _ = p
    out = []
    for k, n in enumerate(sizes):
        if n < nvars:
            continue
        slots = rng.sample(range(1, n + 1), nvars)
        prog = [dict(op, i=slots[op["i"] - 1]) if op["o"] == "var" else op for op in ops]
        out.append({"id": cid0 + len(out), "n": n, "prog": prog})
    return out
