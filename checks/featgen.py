"""Deck templates for the keyword families of spec/StateFeatures.tla (C11, C05)."""


def rep(n, s):
    return "".join(s for _ in range(n))


def deck(m):
    fs = set(m["fs"])
    ntpvt, ntsfun, neql = m["ntpvt"], m["ntsfun"], m["neql"]
    has = lambda f: f in fs
    L = ["RUNSPEC", "TITLE", " generated model", "DIMENS", " 3 3 2 /", "OIL", "WATER", "GAS"]
    if has("DISGAS"):
        L.append("DISGAS")
    if has("VAPOIL"):
        L.append("VAPOIL")
    if has("POLYMER"):
        L.append("POLYMER")
    L += [m.get("unit", "METRIC"), "TABDIMS", " %d %d /" % (ntsfun, ntpvt), "EQLDIMS", " %d /" % neql, "REGDIMS", " 3 1 0 3 /"]
    if has("THPRES"):
        L += ["EQLOPTS", " THPRES /"]
    if has("RPT"):
        L += ["RPTSOL", " RESTART=2 FIP=1 /"]
    if has("AQUCT"):
        L += ["AQUDIMS", " 1* 1* 1* 1* 1 10 /"]
    if has("TRACER"):
        L += ["TRACERS", " 0 1 0 0 /"]
    if has("ROCKTAB"):
        L += ["ROCKCOMP", " REVERS %d /" % ntpvt]
    if has("FAULTS"):
        L += ["FAULTDIM", " 4 /"]
    if has("MSW"):
        L += ["WSEGDIMS", " 2 10 5 /"]
    if has("VFP"):
        L += ["VFPPDIMS", " 5 5 5 5 5 2 /"]
    L += ["WELLDIMS", " 8 12 4 8 /", "UDQDIMS", " 10 10 4 10 10 4 4 4 10 /", "ACTDIMS", " 10 40 80 10 /", "START", " 1 'JAN' 2020 /",
          "GRID", "DX", " 18*100 /", "DY", " 18*100 /", "DZ", " 18*10 /", "TOPS", " 9*2000 /", "PORO", " 18*0.2 /",
          "PERMX", " 18*100 /", "PERMY", " 18*100 /", "PERMZ", " 18*10 /"]
    if has("FAULTS"):
        L += ["FAULTS", " 'F1' 1 1 1 3 1 2 X /", " 'F2' 2 3 2 2 1 1 Y /", "/"]
    if has("MULTFLT"):
        L += ["MULTFLT", " 'F1' 0.5 /", "/"]
    if has("NNC"):
        L += ["NNC", " 1 1 1 3 3 2 0.5 /", "/"]
    if has("MULTREGT"):
        L += ["FLUXNUM", " 9*1 9*2 /", "MULTREGT", " 1 2 0.25 XYZ ALL F /", "/"]
    L.append("PROPS")
    if has("FAMILY2"):
        L += ["SWFN"] + [" 0.2 0 0.5\n 1.0 1.0 0 /"] * ntsfun + ["SGFN"] + [" 0 0 0\n 0.8 1.0 0.2 /"] * ntsfun + \
             ["SOF3"] + [" 0.0 0 0\n 0.2 0 0\n 0.8 1 1 /"] * ntsfun
    else:
        L += ["SWOF"] + [" 0.2 0 1 0.5\n 1.0 1 0 0 /"] * ntsfun + ["SGOF"] + [" 0 0 1 0\n 0.8 1 0 0.2 /"] * ntsfun
    if has("PVTO"):
        L += ["PVTO"] + [" 0.0 1.0 1.05 1.1\n     200.0 1.02 1.2 /\n 50.0 100.0 1.2 0.9\n      300.0 1.15 1.0 /\n/"] * ntpvt
    else:
        L += ["PVDO"] + [" 1.0 1.1 1.0\n 400.0 1.0 1.2 /"] * ntpvt
    if has("PVTG"):
        L += ["PVTG"] + [" 50.0 0.0001 0.02 0.015\n       0.0 0.021 0.014 /\n 300.0 0.0005 0.004 0.03\n        0.0 0.0045 0.025 /\n/"] * ntpvt
    else:
        L += ["PVDG"] + [" 1.0 1.0 0.01\n 400.0 0.005 0.03 /"] * ntpvt
    L += ["PVTW"] + [" 200 1.01 4e-5 0.4 0 /"] * ntpvt + ["DENSITY"] + [" 850 1020 0.9 /"] * ntpvt
    if has("ROCKTAB"):
        L += ["ROCKTAB"] + [" 100 0.95 0.9\n 300 1.0 1.0 /"] * ntpvt
    else:
        L += ["ROCK"] + [" 200 5e-5 /"] * ntpvt
    if has("POLYMER"):
        L += ["PLYROCK"] + [" 0.05 1.3 1000 2 0.00003 /"] * ntsfun + ["PLYADS"] + [" 0 0\n 1 0.00002 /"] * ntsfun + \
             ["PLYMAX", " 3 0 /", "PLMIXPAR", " 1 /"]
        if has("PLYVISC"):
            L += ["PLYVISC"] + [" 0 1\n 3 10 /"] * ntpvt
        else:
            L += ["PLYVISC"] + [" 0 1\n 3 5 /"] * ntpvt
        if has("PLYSHLOG"):
            L += ["PLYSHLOG", " 1.0 /", " 0.0001 1\n 1 1.2\n 100 2 /"]
    if has("TRACER"):
        L += ["TRACER", " 'T1' 'WAT' /", "/"]
    L.append("REGIONS")
    if has("SATNUM"):
        L += ["SATNUM", " 9*1 9*2 /"]
    if has("PVTNUM"):
        L += ["PVTNUM", " 9*1 9*2 /"]
    if neql == 2:
        L += ["EQLNUM", " 9*1 9*2 /"]
    L += ["SOLUTION", "EQUIL"] + [" 2000 200 2100 0 1900 0 %d /" % (1 if has("RSVD") else 0)] * neql
    if has("RSVD"):
        L += ["RSVD"] + [" 1900 40\n 2100 45 /"] * neql
    if has("THPRES") and neql == 2:
        L += ["THPRES", " 1 2 5.0 /", "/"]
    if has("AQUCT"):
        L += ["AQUCT", " 1 2000 250 100 0.3 1e-5 500 50 70 1 1 /", "AQUANCON", " 1 1 3 1 1 1 2 'I-' /", "/"]
    L.append("SUMMARY")
    L += ["FOPR", "FWCT"]
    if has("SUMMARY_ALL"):
        L += ["ALL", "WBHP", "/", "GOPR", "/", "BPR", " 1 1 1 /", "/", "ROIP", " 1 /"]
    L.append("SCHEDULE")
    if has("RPT"):
        L += ["RPTRST", " BASIC=3 FREQ=2 DEN /", "RPTSCHED", " FIP=2 WELLS=1 /"]
    if has("VFP"):
        L += ["VFPPROD", " 1 2000 OIL WCT GOR THP ' ' 1* BHP /", " 100 500 /", " 10 50 /", " 0.1 0.5 /", " 100 200 /", " 0 /",
              " 1 1 1 1 100 120 /", " 1 2 1 1 110 130 /", " 2 1 1 1 105 125 /", " 2 2 1 1 115 135 /",
              " 1 1 2 1 100 120 /", " 1 2 2 1 110 130 /", " 2 1 2 1 105 125 /", " 2 2 2 1 115 135 /"]
    if has("WELLS"):
        if has("GROUPS"):
            L += ["GRUPTREE", " 'G1' 'FIELD' /", " 'G2' 'G1' /", "/"]
        g = "G2" if has("GROUPS") else "G1"
        L += ["WELSPECS", " 'P1' '%s' 1 1 1* OIL /" % g, " 'I1' '%s' 3 3 1* WATER /" % g] + ([" 'I2' '%s' 2 3 1* GAS /" % g] if has("GINJ") else []) + ["/",
              "COMPDAT", " 'P1' 1 1 1 2 OPEN 1* 1* 0.2 /", " 'I1' 3 3 1 2 OPEN 1* 1* 0.2 /"] + ([" 'I2' 2 3 1 2 OPEN 1* 1* 0.2 /"] if has("GINJ") else []) + ["/"]
        if has("MSWBR"):
            L += ["COMPDAT", " 'P1' 2 1 2 2 OPEN 1* 1* 0.2 /", " 'P1' 3 1 2 2 OPEN 1* 1* 0.2 /", " 'P1' 1 2 1 2 OPEN 1* 1* 0.2 /", "/"]
        if has("MSWBR"):
            L += ["WELSEGS", " 'P1' 2000 2000 1.0e-5 ABS HFA HO /", " 2 2 1 1 2005 2005 0.3 0.0001 /", " 3 3 1 2 2010 2010 0.3 0.0001 /",
                  " 4 4 2 2 2110 2007 0.2 0.0001 /", " 5 5 2 4 2210 2008 0.2 0.0001 /", " 6 6 1 3 2015 2015 0.3 0.0001 /",
                  " 7 7 1 6 2020 2020 0.3 0.0001 /", "/",
                  "COMPSEGS", " 'P1' /", " 1 1 1 1 2000 2005 /", " 1 1 2 1 2005 2010 /", " 1 2 1 1 2010 2015 /", " 1 2 2 1 2015 2020 /",
                  " 2 1 2 2 2010 2110 /", " 3 1 2 2 2110 2210 /", "/"]
        elif has("MSW"):
            L += ["WELSEGS", " 'P1' 2000 0 1* INC HF- /", " 2 2 1 1 5 5 0.2 0.0001 /", " 3 3 1 2 5 5 0.2 0.0001 /", "/",
                  "COMPSEGS", " 'P1' /", " 1 1 1 1 0 5 /", " 1 1 2 1 5 10 /", "/"]
        L += ["WCONPROD", " 'P1' OPEN ORAT 100 4* 50 %s /" % ("1*" if not has("VFP") else "1* 1"), "/",
              "WCONINJE", " 'I1' WATER OPEN RATE 200 1* 400 /"] + ([" 'I2' GAS OPEN RATE 5000 1* 450 /"] if has("GINJ") else []) + ["/"]
        if has("GROUPS"):
            L += ["GCONPROD", " 'G1' ORAT 500 /", "/", "GEFAC", " 'G2' 0.9 /", "/"]
        if has("WTEST"):
            L += ["WTEST", " 'P1' 30 PE 5 1 /", "/"]
        if has("WECON"):
            # economic limits, every dimensioned item given (rates, ratios in both directions)
            L += ["WECON", " 'P1' 5 500 0.95 2000 0.02 CON NO 1* RATE 0.9 CON 3000 7 /", "/"]
        if has("UDQ"):
            L += ["UDQ", " ASSIGN FU1 1.5 /", " DEFINE WU2 WOPR * 2 /", " UNITS WU2 'SM3/DAY' /", "/"]
        if has("ACTIONX"):
            L += ["ACTIONX", " 'A1' 3 /", " WOPR 'P1' < 50 /", "/", "WELOPEN", " 'P1' SHUT /", "/", "ENDACTIO"]
    L += ["DATES", " 11 'JAN' 2020 /", " 31 'JAN' 2020 /", "/"]
    if has("WELLS"):
        L += ["WELTARG", " 'P1' ORAT 80 /", "/", "DATES", " 1 'MAR' 2020 /", "/"]
    L.append("END")
    return "\n".join(L) + "\n"
