"""C06 - connection factors obey the Peaceman relation; COMPDAT / WPIMULT / WELOPEN touch only their targets.

Specification: spec/Compdat.tla gives, for each of the 72 classes of COMPDAT
record (CF explicit/defaulted, Kh explicit/defaulted/zero, r0 and diameter
explicit/defaulted, direction X/Y/Z), the stored CF, Kh, r0, rw as terms over
the cell's extent, permeabilities, net-to-gross and the record's entries; TLC
emits the terms (Oracle_Compdat), harness/compdat builds the real Schedule for
random anisotropic cells in all four unit systems and compares the stored SI
values with the evaluated terms, evaluates CF (ln(r0/rw) + S) = 2 pi Kh on the
stored values and re-enters every defaulted quantity explicitly.
spec/Connections.tla is the connection list as a state machine (replace in
place, numbering, ordering, immediate and end-of-step WPIMULT, WELOPEN on
connections), model-checked by TLC (only targeted connections change); TLC
simulation generates operation histories that are rendered to decks, and the
lists the real Schedule presents at each report step are trace-validated
(Trace_Connections).
"""
import json
import math
import os
import random

import vf

PID = "C06"
UNITS = {  # approximate SI factors, used only to choose sensible inputs
    "METRIC": {"len": 1.0, "trans": 1.1574e-13},
    "FIELD": {"len": 0.3048, "trans": 2.669e-13},
    "LAB": {"len": 0.01, "trans": 2.741e-18},
    "PVT-M": {"len": 1.0, "trans": 1.1423e-13},
}
MD = 9.869233e-16
CLASSES = [{"cf": cf, "kh": kh, "r0": r0, "diam": dm, "dir": d}
           for cf in ("explicit", "default") for kh in ("explicit", "default", "zero")
           for r0 in ("explicit", "default") for dm in ("explicit", "default") for d in ("X", "Y", "Z")]
TOL_TERM = 1e-11
TOL_REL = 1e-11
TOL_VAR = 1e-10


def logu(rng, a, b):
    return math.exp(rng.uniform(math.log(a), math.log(b)))


def make_case(rng, cid, unit, rec):
    u = UNITS[unit]
    L = u["len"]
    cell = {"dx": logu(rng, 15, 600) / L, "dy": logu(rng, 15, 600) / L, "dz": logu(rng, 2, 60) / L,
            "permx": logu(rng, 0.1, 1e5), "permy": logu(rng, 0.1, 1e5), "permz": logu(rng, 0.1, 1e5),
            "ntg": rng.choice([1.0, rng.uniform(0.2, 1.0), rng.uniform(0.2, 1.0)])}
    kh = logu(rng, 10, 1e5)                       # mD.m
    d = rng.uniform(1.5, 9.0)                     # 2 pi Kh / CF
    if rec["kh"] == "zero":
        # Kh will come from the cell: choose a CF of the matching order of magnitude (input selection only)
        a, b, h = {"X": ("permy", "permz", "dx"), "Y": ("permz", "permx", "dy"), "Z": ("permx", "permy", "dz")}[rec["dir"]]
        kh = math.sqrt(cell[a] * cell[b]) * cell[h] * L * (cell["ntg"] if h == "dz" else 1.0)
    cf = 2 * math.pi * kh * MD / d                # m3
    vals = {"kh": kh / L, "cf": cf / u["trans"], "r0": logu(rng, 0.6, 40) / L, "diam": rng.uniform(0.05, 0.4) / L,
            "skin": rng.choice([0.0, rng.uniform(-1.2, 0.0), rng.uniform(0.0, 10.0), rng.uniform(-1.2, 10.0)])}
    return {"id": cid, "unit": unit, "cell": cell, "rec": rec, "vals": vals}


def peaceman(chk, exe, cases):
    # the 72 term sets, from TLC
    exp, skipped, states = vf.tlc_oracle("Oracle_Compdat", "Oracle_Compdat.cfg",
                                         [{"id": i, "rec": r} for i, r in enumerate(CLASSES)], chk.rundir)
    if len(exp) != len(CLASSES):
        raise vf.ToolingError("Oracle_Compdat returned %d of %d classes" % (len(exp), len(CLASSES)))
    chk.states += states[0]
    chk.transitions += states[1]
    terms = {json.dumps(CLASSES[i], sort_keys=True): e for i, e in exp.items()}
    for c in cases:
        t = terms[json.dumps(c["rec"], sort_keys=True)]
        c["terms"] = {"conn": t["conn"], "rel": t["rel"]}
    cpath = os.path.join(chk.rundir, "pcases.ndjson")
    opath = os.path.join(chk.rundir, "pout.ndjson")
    vf.write_ndjson(cpath, cases)
    rc, out, _ = vf.sh([exe, "peaceman", cpath, opath], timeout=6000)
    if rc != 0:
        raise vf.ToolingError("harness compdat failed rc=%d: %s" % (rc, out[-2000:]))
    byid = {c["id"]: c for c in cases}
    aside = 0
    for ev in vf.read_ndjson(opath):
        c = byid[ev["id"]]
        script = {k: c[k] for k in ("unit", "cell", "rec", "vals")}
        cls = "cf=%s kh=%s r0=%s" % (c["rec"]["cf"], c["rec"]["kh"], c["rec"]["r0"])
        if ev["res"] != "ok":
            chk.violation({"kind": "compdat-error", "class": cls, "script": script, "what": ev.get("what")},
                          "COMPDAT record rejected: %s" % ev.get("what", "")[:120])
            continue
        chk.evaluations += 1 + len(ev["variants"])
        if ev.get("nonfinite") and ev["exp"]["r0"] is None and ev["obs"]["r0"] is None:
            aside += 1          # 2 pi Kh / CF beyond the range of exp() for both
            continue
        if any(ev["exp"][q] is None or ev["obs"][q] is None for q in ("cf", "kh", "r0", "rw")):
            chk.violation({"kind": "peaceman-nan", "class": cls, "script": script, "obs": ev["obs"], "exp": ev["exp"]},
                          "a stored connection quantity is not a number (%s)" % cls)
            continue
        # the relation is stated for r0 > rw; a cell whose equivalent radius is inside the well bore is outside it
        if ev["exp"]["r0"] <= 1.05 * ev["exp"]["rw"] and not (c["rec"]["cf"] == "explicit" and c["rec"]["kh"] != "default"):
            aside += 1
            continue
        if ev["obs"]["cf"] <= 0 or ev["exp"]["cf"] <= 0:
            aside += 1
            continue
        bad = {q: v for q, v in ev["rd"].items() if not (v <= TOL_TERM)}
        if ev["dir"] != c["rec"]["dir"]:
            bad["dir"] = ev["dir"]
        if bad:
            chk.violation({"kind": "peaceman-value", "class": cls, "dir": c["rec"]["dir"], "quantities": sorted(bad), "script": script,
                           "obs": ev["obs"], "exp": ev["exp"]},
                          "stored %s differ from their Peaceman values (%s, direction %s, %s)" % (sorted(bad), cls, c["rec"]["dir"], c["unit"]))
            continue
        if not (ev["relation"] <= TOL_REL):
            chk.violation({"kind": "peaceman-relation", "class": cls, "script": script, "obs": ev["obs"], "residual": ev["relation"]},
                          "CF (ln(r0/rw)+S) differs from 2 pi Kh by %.3g relative (%s)" % (ev["relation"], cls))
            continue
        for v in ev["variants"]:
            if not (v["maxrd"] <= TOL_VAR):
                chk.violation({"kind": "peaceman-reentry", "class": cls, "entered": v["entered"], "script": script, "obs": ev["obs"], "obs2": v["obs"]},
                              "entering the computed %s explicitly changes the connection by %.3g relative (%s)" % (v["entered"], v["maxrd"], cls))
                break
    return aside


def run(opts):
    chk = vf.Check(PID)
    vf.build_repo()
    exe = vf.build_harness("compdat")
    rng = random.Random(chk.seed)
    rp = json.load(open(opts["replay"])) if opts.get("replay") else None
    aside = 0
    scripts = []
    if rp is None or "unit" in rp.get("script", {}):
        if rp:
            cases = [dict(rp["script"], id=0)]
        else:
            per = chk.pick(6, 120)
            cases = []
            for unit in UNITS:
                for rec in CLASSES:
                    for _ in range(per):
                        cases.append(make_case(rng, len(cases), unit, rec))
        aside = peaceman(chk, exe, cases)
        chk.distinct += len(cases)
        for c in cases[:2]:
            chk.sample({k: c[k] for k in ("unit", "cell", "rec", "vals")})
    if rp is None or "steps" in rp.get("script", {}):
        if rp:
            scripts = [rp["script"]]
        else:
            cfg = "MC_Connections_quick.cfg" if chk.quick else "MC_Connections.cfg"
            r = vf.tlc("MC_Connections", cfg, timeout=3000)
            if r.violated:
                chk.violation({"kind": "model", "invariant": r.violated, "trace": r.trace_text}, "Connections: design property violated")
            vf.require_clean(r, "MC_Connections")
            chk.add_tlc(r)
            g = vf.tlc("Gen_Connections", "Gen_Connections.cfg", simulate=chk.pick(100, 2500), depth=18, seed=chk.seed % 100000,
                       workers=4, timeout=1200)
            g2 = vf.tlc("Gen_Connections", "Gen_Connections_free.cfg", simulate=chk.pick(60, 1500), depth=18, seed=chk.seed % 100000 + 1,
                        workers=4, timeout=1200)
            seen = set()
            for x in g.gen + g2.gen:
                key = json.dumps(x["steps"])
                if key in seen:
                    continue
                seen.add(key)
                scripts.append({"nk": 5, "steps": x["steps"]})
        spath = os.path.join(chk.rundir, "hscripts.ndjson")
        tpath = os.path.join(chk.rundir, "htrace.ndjson")
        for lo in range(0, len(scripts), 500):
            part = scripts[lo:lo + 500]
            vf.write_ndjson(spath, part)
            rc, out, _ = vf.sh([exe, "history", spath, tpath], timeout=6000)
            if rc != 0:
                raise vf.ToolingError("harness compdat failed rc=%d: %s" % (rc, out[-2000:]))
            chk.evaluations += sum(1 for ln in open(tpath) if '"e":"Step"' in ln)
            by_id = dict(enumerate(part))
            chk.traces += vf.validate_trace_segments(chk, "Trace_Connections", "Trace_Connections.cfg", tpath,
                                                     script_of_segment=lambda seg: by_id.get(seg["id"]))
        chk.distinct += len(scripts)
        for s in scripts[:1]:
            chk.sample(s)
    chk.notes["outside_domain_set_aside"] = aside
    chk.rule = ("Peaceman part: 4 unit systems x 72 record classes (CF explicit/defaulted, Kh explicit/defaulted/zero, r0 and diameter "
                "explicit/defaulted, direction X/Y/Z) x %d random cells each (DX, DY 15-600 m, DZ 2-60 m, PERMX/Y/Z log-uniform over "
                "0.1-1e5 mD independently, NTG 0.2-1, skin -1.2..10), neighbouring cells with different properties; every defaulted "
                "quantity re-entered explicitly.  List part: TLC simulation of Connections (2 wells, input and track order, 5 layers, "
                "<= 9 operations over <= 4 report steps) rendered to decks; the connection lists at every report step validated." % chk.pick(6, 120))
    chk.assumptions = ["cell extents are taken from EclipseGrid::getCellDims of the parsed deck (grid geometry is C13's subject), deck-to-SI "
                       "conversion of the record entries from UnitSystem (C02's subject)",
                       "term values are computed in long double with <cmath>; agreement to 1e-11 relative",
                       "cells whose Peaceman radius does not exceed the well-bore radius are set aside (the relation is stated for r0 > rw)",
                       "histories use explicit CF and Kh entries that identify the record, vertical wells in their head column"]
    return chk.finish()
