"""Renderer for the lexeme texts of spec/DeckSyntax.tla: lexemes -> characters, with the
spelling of blanks, tabs and indentation drawn from a seeded generator."""
DOUBLES = {1: "2000.5", 2: "150.25", 3: "1900.125", 4: "0.25", 5: "0.3", 6: "1.0", 7: "1.5E-3", 8: "-7.25e+2", 9: "100.5", 10: "1.05", 11: "1.1"}
COMMENTS = {1: "-- plain comment", 2: "--", 3: "-- it's got an odd quote", 4: "-- with / slash and 'quoted / text'",
            5: "--'starts with a quote", 6: "-- ends with a slash /"}
TRAILS = {1: "trailing text", 2: "text with / another slash", 3: "WELSPECS looks like a keyword", 4: "100 2*3 more / and so on"}
TITLES = {1: "Layout test: a title with  two blanks"}
SEPS = [" ", " ", "  ", "\t", " \t ", "   "]


def tok(t):
    k = t["t"]
    if k == "int":
        return str(t["n"])
    if k == "dbl":
        return DOUBLES[t["id"]]
    if k == "str":
        return "'%s'" % t["s"] if t["q"] else t["s"]
    if k == "raw":
        return t["s"]
    if k == "star":
        return "%d*%s" % (t["n"], "" if t["of"]["t"] == "none" else tok(t["of"]))
    raise ValueError(k)


def kwname(x):
    n = x["name"]
    return {"upper": n, "lower": n.lower(), "mixed": "".join(c.lower() if i % 2 else c for i, c in enumerate(n))}[x["style"]]


def line(lexs, rng):
    if not lexs:
        return rng.choice(["", "", " ", "\t", "   "])
    if lexs[0]["k"] == "include":
        return "INCLUDE\n   'INC%d.INC' /" % (lexs[0]["f"] - 1)
    parts = []
    for x in lexs:
        k = x["k"]
        parts.append(kwname(x) if k == "kw" else tok(x["v"]) if k == "tok" else "/" if k == "slash" else COMMENTS[x["id"]] if k == "comment"
                     else TRAILS[x["id"]] if k == "trail" else TITLES[x["id"]])
    s = parts[0]
    for a in parts[1:]:
        s += rng.choice(SEPS) + a
    lead = "" if lexs[0]["k"] in ("kw", "title") else rng.choice(["", " ", "  ", "\t", "    "])
    return lead + s + rng.choice(["", "", " ", "\t"])


def render(text, rng):
    """text: list of files (list of lines of lexemes) -> {filename: characters}"""
    files = {}
    for i, f in enumerate(text):
        files["MAIN.DATA" if i == 0 else "INC%d.INC" % i] = "\n".join(line(l, rng) for l in f) + "\n"
    return files


def expected_entries(item, obs_type):
    """spec entries of one item -> list of (defaulted, value or None) in the observed item's type"""
    out = []
    for e in item:
        if e["st"] == "def":
            out.append((True, None))
        elif e["st"] == "title":
            out += [(False, w) for w in TITLES[e["id"]].split()]
        else:
            t = e["tok"]
            k = t["t"]
            if k == "int":
                v = t["n"] if obs_type == "int" else float(t["n"]).hex() if obs_type in ("double", "uda") else str(t["n"])
            elif k == "dbl":
                v = float(DOUBLES[t["id"]]).hex() if obs_type in ("double", "uda") else DOUBLES[t["id"]]
            else:
                v = t["s"]
            out.append((False, v))
    return out
