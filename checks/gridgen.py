"""Seeded generator of grid scripts (C13): deck text in three input forms and operation sequences."""


def deck_text(form, dims, dx, dy, dz, tops, shift, actnum, units, mapaxes, wp=None):
    nx, ny, nz = dims
    s = "RUNSPEC\nDIMENS\n %d %d %d /\n%s\nGRID\n" % (nx, ny, nz, units)
    if mapaxes:
        s += "MAPAXES\n %s /\n" % " ".join(str(v) for v in mapaxes)
    if form == "dxdydz":
        cells = [(i, j, k) for k in range(nz) for j in range(ny) for i in range(nx)]
        s += "DX\n %s /\nDY\n %s /\nDZ\n %s /\n" % (" ".join(str(dx[i]) for i, j, k in cells),
                                                  " ".join(str(dy[j]) for i, j, k in cells),
                                                  " ".join(str(dz[k]) for i, j, k in cells))
        s += "TOPS\n %s /\n" % " ".join(str(tops + shift[i + nx * j]) for j in range(ny) for i in range(nx))
    elif form == "dxv":
        s += "DXV\n %s /\nDYV\n %s /\nDZV\n %s /\n" % (" ".join(map(str, dx)), " ".join(map(str, dy)), " ".join(map(str, dz)))
        s += "TOPS\n %s /\n" % " ".join(str(tops + shift[i + nx * j]) for j in range(ny) for i in range(nx))
    else:
        # corner point: vertical pillars on the cell corners, ZCORN per cell with the column's fault shift
        # wp: thickness weights of the pillar rows in halves (2 = plain); a weight 0 pinches every layer out on that row
        wp = wp or [2] * (nx + 1)
        xs = [sum(dx[:i]) for i in range(nx + 1)]
        ys = [sum(dy[:j]) for j in range(ny + 1)]
        zs = [tops + sum(dz[:k]) for k in range(nz + 1)]
        zmin, zmax = zs[0] + min(shift), tops + sum(dz) * max(wp) / 2.0 + max(shift)
        coord = []
        for j in range(ny + 1):
            for i in range(nx + 1):
                coord += [xs[i], ys[j], zmin, xs[i], ys[j], zmax]
        zcorn = []
        for k in range(nz):
            for face in (0, 1):                 # top then bottom of layer k
                for j in range(ny):
                    for jj in (0, 1):
                        for i in range(nx):
                            for side in (0, 1):         # the west and the east pillar row of the cell
                                z = tops + sum(dz[:k + face]) * wp[i + side] / 2.0 + shift[i + nx * j]
                                zcorn.append(z)
        s += "COORD\n %s /\nZCORN\n %s /\n" % (" ".join(map(str, coord)), " ".join(map(str, zcorn)))
    s += "ACTNUM\n %s /\n" % " ".join(map(str, actnum))
    return s


def rand_mask(rng, nc, p=0.7):
    m = [1 if rng.random() < p else 0 for _ in range(nc)]
    if sum(m) == 0:
        m[rng.randrange(nc)] = 1
    return m


def same_count_mask(rng, mask):
    """another mask with the same number of active cells at different positions, if possible"""
    m = list(mask)
    ones = [i for i, v in enumerate(m) if v]
    zeros = [i for i, v in enumerate(m) if not v]
    if ones and zeros:
        a, b = rng.choice(ones), rng.choice(zeros)
        m[a], m[b] = 0, 1
    return m


def rand_script(rng, nops):
    dims = [rng.randint(1, 4), rng.randint(1, 4), rng.randint(1, 3)]
    nx, ny, nz = dims
    nc = nx * ny * nz
    dx = [rng.randint(1, 4) for _ in range(nx)]
    dy = [rng.randint(1, 4) for _ in range(ny)]
    dz = [rng.randint(1, 4) for _ in range(nz)]
    tops = rng.randint(5, 20)
    form = rng.choice(["dxdydz", "dxv", "corner"])
    shift = [rng.choice([0, 0, 1, 2, 3]) for _ in range(nx * ny)]
    units = rng.choice(["METRIC", "FIELD"])
    actnum = rand_mask(rng, nc)
    mapaxes = [0, 100, 0, 0, 100, 0] if rng.random() < 0.5 else None
    # corner-point wedges: the layers thin out (weight 0: pinch out) towards one or both ends of the pillar rows
    wp = [2] * (nx + 1)
    if form == "corner" and rng.random() < 0.5:
        wp = [rng.choice([2, 2, 4, 6]) for _ in range(nx + 1)]
        if rng.random() < 0.6:
            wp[0] = 0
        elif rng.random() < 0.5:
            wp[nx] = 0
        if nx == 1 and wp == [0, 0]:
            wp[1] = 2
    ops = [{"op": "create", "deck": deck_text(form, dims, dx, dy, dz, tops, shift, actnum, units, mapaxes, wp),
            "dims": dims, "dx": dx, "dy": dy, "dz": dz, "tops": tops, "shift": shift, "actnum": actnum,
            "form": form, "units": units, "wp": wp}]
    cur = list(actnum)
    for _ in range(nops):
        k = rng.random()
        if k < 0.15:
            ops.append({"op": "warm"})
        elif k < 0.40:
            cur = same_count_mask(rng, cur) if rng.random() < 0.5 else rand_mask(rng, nc)
            ops.append({"op": rng.choice(["reset", "reset", "copy"]), "actnum": list(cur)})
        elif k < 0.50:
            cur = [1] * nc
            ops.append({"op": "reset_all"})
        elif k < 0.75:
            nnc = []
            for _ in range(rng.randint(0, 3)):
                a, b = rng.randrange(nc), rng.randrange(nc)
                if a != b and cur[a] and cur[b]:
                    nnc.append([min(a, b), max(a, b), rng.randint(1, 9)])
            nnc = sorted({(a, b): [a, b, t] for a, b, t in nnc}.values())
            ops.append({"op": "saveload", "fmt": rng.random() < 0.5, "nnc": nnc})
        else:
            ops.append({"op": "threads", "n": rng.choice([1, 4, 16])})
            ops.append({"op": "warm"})
    return {"ops": ops}
