"""X06 (beyond the listed properties) - the production network.

Specification: spec/Network.tla - ExtNetwork under BRANPROP / NODEPROP
(extended network) and GRUPNET (standard network along the group tree):
branch replacement (a node never has two uptree branches), removal with VFP
table 0, node properties, order of first appearance, roots, the mutual
exclusion of the two kinds of network.  TLC model-checks the structural
invariants, and shows with a separate configuration that a cycle is reachable
(nothing in the design prevents it).  harness/network applies random keyword
sequences, one record per report step, through the real keyword handlers;
Trace_Network validates the network of every step.
"""
import json
import os
import random

import vf

PID = "X06"
NAMES = ["FIELD", "G1", "G2", "G3", "N1"]
GROUPS = ["FIELD", "G1", "G2", "G3"]
HEAD = """RUNSPEC
DIMENS
 2 2 1 /
OIL
WATER
%sSTART
 1 'JAN' 2020 /
GRID
DX
 4*100 /
DY
 4*100 /
DZ
 4*10 /
TOPS
 4*2000 /
PORO
 4*0.2 /
PERMX
 4*100 /
PROPS
SOLUTION
SCHEDULE
GRUPTREE
 'G1' 'FIELD' /
 'G2' 'G1' /
 'G3' 'G1' /
/
"""


def op_text(o):
    if o["kw"] == "BRANPROP":
        return "BRANPROP\n '%s' '%s' %d /\n/\n" % (o["down"], o["up"], o["vfp"])
    if o["kw"] == "NODEPROP":
        return "NODEPROP\n '%s' %s NO %s /\n/\n" % (o["name"], "1*" if o["p"] == -1 else str(o["p"]), "YES" if o["lift"] else "NO")
    return "GRUPNET\n '%s' %s %d 1* NO %s /\n/\n" % (o["name"], "1*" if o["p"] == -1 else str(o["p"]), o["vfp"], "FLO" if o["lift"] else "NO")


def deck(ops, netkw=True):
    t = HEAD % ("NETWORK\n 10 10 /\n" if netkw else "")
    for i, o in enumerate(ops):
        t += "DATES\n %d 'JAN' 2020 /\n/\n" % (i + 2) + op_text(o)
    return t + "DATES\n %d 'JAN' 2020 /\n/\nEND\n" % (len(ops) + 2)


def rand_ops(rng, n, mode):
    ops = []
    for _ in range(n):
        r = rng.random()
        ext = mode == "ext" or (mode == "mixed" and rng.random() < 0.5)
        if ext and (r < 0.7 or (not any(o["kw"] == "BRANPROP" for o in ops) and rng.random() < 0.85)):
            d, u = rng.sample(NAMES, 2)
            ops.append({"kw": "BRANPROP", "down": d, "up": u, "vfp": rng.choice([0, 1, 1, 2, 9999])})
        elif ext:
            ops.append({"kw": "NODEPROP", "name": rng.choice(NAMES), "p": rng.choice([-1, 0, 50, 80]), "lift": rng.random() < 0.3})
        else:
            ops.append({"kw": "GRUPNET", "name": rng.choice(GROUPS), "p": rng.choice([-1, -1, 0, 60]), "vfp": rng.choice([0, 3, 4, -1]), "lift": rng.random() < 0.3})
    return ops


def run(opts):
    chk = vf.Check(PID)
    vf.build_repo()
    exe = vf.build_harness("network")
    rng = random.Random(chk.seed)
    if opts.get("replay"):
        scripts = [json.load(open(opts["replay"]))["script"]]
    else:
        r = vf.tlc("Network", "MC_Network.cfg", timeout=2400)
        if r.violated:
            chk.violation({"kind": "model", "invariant": r.violated, "trace": r.trace_text}, "Network: design property violated")
        vf.require_clean(r, "Network")
        chk.add_tlc(r)
        cyc = vf.tlc("Network", "MC_Network_cycle.cfg", timeout=600)
        chk.notes["cycle_reachable_in_the_design"] = bool(cyc.violated)
        scripts = []
        for _ in range(chk.pick(400, 8000)):
            mode = rng.choice(["ext", "ext", "std", "std", "mixed"])
            ops = rand_ops(rng, rng.choice([3, 5, 8]), mode)
            netkw = mode != "std" if rng.random() < 0.9 else mode == "std"
            scripts.append({"names": NAMES, "netkw": netkw, "ops": ops, "decks": [deck(ops[:i + 1], netkw) for i in range(len(ops))]})
    for n, s in enumerate(scripts):
        s["id"] = n
    spath = os.path.join(chk.rundir, "scripts.ndjson")
    tpath = os.path.join(chk.rundir, "trace.ndjson")
    refused = 0
    for lo in range(0, len(scripts), 200):
        part = scripts[lo:lo + 200]
        vf.write_ndjson(spath, part)
        rc, out, _ = vf.sh([exe, spath, tpath], timeout=3000)
        if rc != 0:
            raise vf.ToolingError("harness network failed rc=%d: %s" % (rc, out[-2000:]))
        refused += sum(1 for ln in open(tpath) if '"res":"error"' in ln)
        chk.evaluations += sum(1 for ln in open(tpath) if '"e":"Op"' in ln)
        by_id = {s["id"]: s for s in part}
        chk.traces += vf.validate_trace_segments(chk, "Trace_Network", "Trace_Network.cfg", tpath,
                                                 script_of_segment=lambda seg: {k: v for k, v in by_id.get(seg["id"], {}).items() if k != "decks"})
    chk.distinct = len(scripts)
    chk.notes["keywords_refused_by_the_library"] = refused
    chk.rule = "%d random sequences of 3-8 BRANPROP / NODEPROP / GRUPNET records (extended only, standard only, mixed) over 5 node names and a 4-group tree" % len(scripts)
    chk.sample(scripts[0]["ops"][:4])
    chk.assumptions = ["not one of the listed properties: additional specification coverage (DESIGN.md 12.7)",
                       "the auto-choke option of NODEPROP and ALQ settings are not modelled"]
    return chk.finish()
