"""C10 - every summary value written can be read back at its vector and ministep.

Specification: spec/SummaryFile.tla over EclFileFormat - (1) the legacy
reader's offset arithmetic transcribed and checked by TLC against the layout
for every index 0..12000; (2) runs as sequences of ministeps, a run continuing
a base run, the time axis and the report-step positions a reader presents.
Binding: harness/smryio writes SMSPEC/UNSMRY (or separate files, formatted or
not) with the writer's components for 1..~4500 vectors, reads them with ESmry
(selective and whole-file load), make_esmry_file + ExtESmry, with and without
the base run; TLC validates the recorded time axes / positions and requires
the value, unit, start-date and key booleans.
"""
import json
import os
import random

import vf

PID = "C10"


def steps(rng, rs0, nrs, t0):
    out = []
    t = t0
    for rs in range(rs0, rs0 + nrs):
        for _ in range(rng.randint(1, 3)):
            t += rng.randint(1, 3)
            out.append({"rs": rs, "t": t})
    return out


def make_script(rng, n, fmt, unif, with_base):
    base = base0 = None
    if with_base:
        rs0, t0 = 1, 0
        if rng.random() < 0.4:
            # a chain of three: the base run continues an earlier run, which was itself run beyond that restart step
            b0 = steps(rng, 1, rng.randint(2, 4), 0)
            k0 = rng.randint(1, max(s["rs"] for s in b0))
            base0 = {"n": n, "steps": b0, "rstep": k0}
            rs0, t0 = k0 + 1, max(s["t"] for s in b0 if s["rs"] <= k0)
        bs = steps(rng, rs0, rng.randint(2, 5), t0)
        k = rng.randint(rs0, max(s["rs"] for s in bs))
        tk = max(s["t"] for s in bs if s["rs"] <= k)
        # the base run may have fewer / more vectors than the continuing run
        base = {"n": rng.choice([n, n, max(1, n - 1), n + 1]), "steps": bs, "rstep": k}
        own = steps(rng, k + 1, rng.randint(1, 3), tk)
    else:
        own = steps(rng, rng.choice([0, 1, 1]), rng.randint(1, 4), 0)
    return {"fmt": fmt, "unif": unif, "n": n, "steps": own, "base": base, "base0": base0}


def run(opts):
    chk = vf.Check(PID)
    vf.build_repo()
    exe = vf.build_harness("smryio")
    rng = random.Random(chk.seed)
    if opts.get("replay"):
        scripts = [json.load(open(opts["replay"]))["script"]]
    else:
        r = vf.tlc("MC_SummaryFile", "MC_SummaryFile.cfg", timeout=900)
        if r.violated:
            chk.violation({"kind": "model", "invariant": r.violated, "trace": r.trace_text},
                          "SummaryFile: the reader's offset arithmetic disagrees with the layout")
        vf.require_clean(r, "MC_SummaryFile")
        chk.add_tlc(r)
        if chk.quick:
            counts = list(range(1, 9)) + [998, 999, 1000, 1001, 1002, 1999, 2000, 2001, 2002, 3001, 4001, 4500]
        else:
            counts = list(range(1, 13)) + list(range(995, 1011)) + list(range(1995, 2011)) + list(range(2999, 3003)) + \
                list(range(3999, 4003)) + [4500] + [rng.randint(13, 4400) for _ in range(40)]
        scripts = []
        for n in counts:
            for fmt in (False, True):
                for unif in (True, False):
                    scripts.append(make_script(rng, n, fmt, unif, rng.random() < 0.5))
        # vector counts differing between base and run only make sense with n >= 2
    spath = os.path.join(chk.rundir, "scripts.ndjson")
    tpath = os.path.join(chk.rundir, "trace.ndjson")
    for lo in range(0, len(scripts), 400):
        part = scripts[lo:lo + 400]
        vf.write_ndjson(spath, part)
        rc, out, _ = vf.sh([exe, spath, tpath, os.path.join(chk.rundir, "w")], timeout=6000)
        if rc != 0:
            raise vf.ToolingError("harness smryio failed rc=%d: %s" % (rc, out[-2000:]))
        chk.evaluations += sum(1 for ln in open(tpath) if '"e":"Read"' in ln)
        by_id = dict(enumerate(part))
        chk.traces += vf.validate_trace_segments(chk, "Trace_SummaryFile", "Trace_SummaryFile.cfg", tpath,
                                                 script_of_segment=lambda seg: by_id.get(seg["id"]))
    chk.distinct = len({json.dumps(s) for s in scripts})
    chk.rule = ("vector counts %s x {formatted, unformatted} x {unified, separate} with random ministep / report-step "
                "sequences, half of them continuing a base run from a random restart step (base run with the same or a "
                "different number of vectors); three readers (ESmry selective load, ESmry whole-file load, ESMRY conversion + "
                "ExtESmry) each with and without the base run; all vectors and all ministeps compared (sampled beyond "
                "40000 values, dense around block boundaries)" % ("dense around 1000/2000/3000/4000 and 40 random" if not chk.quick
                                                                 else "1..8, around 1000, 2000, 3001, 4001, 4500"))
    for s in scripts[:2]:
        chk.sample(s)
    chk.assumptions = ["files are written with OutputStream::SummarySpecification / createSummaryFile and the SEQHDR/MINISTEP/"
                       "PARAMS sequence of out::Summary (the vector evaluation of out::Summary is the subject of C09)",
                       "values i + 5000 t are exact in single precision"]
    return chk.finish()
