"""Seeded random generator of type-correct UDQ expressions and contexts (C17).

Conventions shared with spec/Oracle_UDQ.tla: wells P1 P2 P3 I1, groups G1 G2,
number tokens 0..6 and 10, patterns 'P*' '*' 'I*', rationals as [n, d]
(d = 0: undefined).  The generator never chains ^, comparisons or set
operators (the property fixes no associativity for them), applies SORTA /
SORTD only to WGOR (whose values are distinct) and uses at most one ^.
"""
WELLS = ["P1", "P2", "P3", "I1"]
GROUPS = ["G1", "G2"]
NUMS = ["0", "1", "2", "3", "4", "5", "6", "10"]
ARITH = ["+", "-", "*", "/"]
CMPS = ["==", "!=", ">=", "<=", "<", ">"]
SETOPS = ["UADD", "UMUL", "UMIN", "UMAX"]
REDUCE = ["SUM", "AVEA", "MAX", "MIN", "NORM1", "NORMI", "PROD"]
ELEM = ["ABS", "DEF", "UNDEF", "IDV"]


class Gen:
    def __init__(self, rng):
        self.rng = rng
        self.used_pow = False

    def atom(self, kind):
        r = self.rng
        if kind == "s":
            k = r.random()
            if k < 0.35:
                return [r.choice(NUMS)]
            if k < 0.6:
                return [r.choice(["FOPR", "FWPR"])]
            if k < 0.8:
                return [r.choice(["WOPR", "WWPR", "WGOR"]), r.choice(WELLS)]
            return [r.choice(["GOPR", "GWPR"]), r.choice(GROUPS)]
        if kind == "w":
            q = r.choice(["WOPR", "WWPR", "WGOR"])
            return [q] if r.random() < 0.65 else [q, r.choice(["'P*'", "'*'", "'I*'"])]
        return [r.choice(["GOPR", "GWPR"])]

    def term(self, kind, setkind, depth):
        """a term of value kind `kind` ('s' or the expression's set kind)"""
        r = self.rng
        k = r.random()
        if depth <= 0 or k < 0.45:
            return self.atom(kind)
        if k < 0.65:
            return ["("] + self.expr(kind, setkind, depth - 1) + [")"]
        if kind == "s":
            if setkind and r.random() < 0.8:
                return [r.choice(REDUCE), "("] + self.expr(setkind, setkind, depth - 1) + [")"]
            return [r.choice(["ABS", "DEF"]), "("] + self.expr("s", setkind, depth - 1) + [")"]
        if kind == "w" and r.random() < 0.25:
            return [r.choice(["SORTA", "SORTD"]), "(", "WGOR", ")"]
        return [r.choice(ELEM), "("] + self.expr(kind, setkind, depth - 1) + [")"]

    def expr(self, kind, setkind, depth):
        """flat sequence  term (op term)*  of value kind `kind`"""
        r = self.rng
        n = r.choice([1, 2, 2, 3, 3, 4])
        # kinds of the terms: at least one set term if the result is a set
        kinds = [kind if kind == "s" else r.choice([kind, kind, "s"]) for _ in range(n)]
        if kind != "s" and all(k == "s" for k in kinds):
            kinds[r.randrange(n)] = kind
        used_cmp = used_set = False

        def with_pow(t):
            # optionally raise the term to a small literal power (at most one ^ per case)
            if not self.used_pow and r.random() < 0.12:
                self.used_pow = True
                return t + ["^", r.choice(["0", "2", "3"])], True
            return t, False
        toks, prev_pow = with_pow(self.term(kinds[0], setkind, depth))
        for i in range(1, n):
            choices = list(ARITH) * 3
            if not used_cmp:
                choices += CMPS
            # set-union operators only between operands that are sets: every term of the
            # flat expression must then be a set (the operands of a union are whole
            # sub-expressions of higher rank)
            if not used_set and kind != "s" and all(k == kind for k in kinds):
                choices += SETOPS
            op = r.choice(choices)
            if op in CMPS:
                used_cmp = True
            if op in SETOPS:
                used_set = True
            t, prev_pow = with_pow(self.term(kinds[i], setkind, depth))
            toks += [op] + t
        return toks


def rand_ctx(rng):
    """field and group inputs are always defined (an unknown summary vector is an
    error in the context, not an undefined value); every well quantity is
    defined for at least one well"""
    def val(pundef=0.15, lo=0, hi=6):
        return [0, 0] if rng.random() < pundef else [rng.randint(lo, hi), 1]

    def wellvals(gen):
        d = {w: gen(i) for i, w in enumerate(WELLS)}
        if all(v[1] == 0 for v in d.values()):
            d[rng.choice(WELLS)] = [rng.randint(0, 6), 1]
        return d
    perm = rng.sample([1, 2, 3, 4, 5, 6], 4)
    return {"f": {"FOPR": val(0), "FWPR": val(0)},
            "w": {"WOPR": wellvals(lambda i: val()), "WWPR": wellvals(lambda i: val()),
                  "WGOR": wellvals(lambda i: [0, 0] if rng.random() < 0.1 else [perm[i], 1])},
            "g": {"GOPR": {g: val(0) for g in GROUPS}, "GWPR": {g: val(0) for g in GROUPS}}}


def rand_case(rng, cid, depth=2):
    kind = rng.choice(["s", "w", "w", "g"])
    g = Gen(rng)
    if kind == "s":
        setkind = rng.choice(["w", "w", "g", None])
        toks = g.expr("s", setkind, depth)
    else:
        toks = g.expr(kind, kind, depth)
    return {"id": cid, "kind": kind, "toks": toks, "ctx": rand_ctx(rng)}


def oracle(vf, cases, workdir):
    """Expected values from TLC (spec/Oracle_UDQ.tla); cases whose exact value overflows TLC's integers are dropped."""
    exp, skipped, st = vf.tlc_oracle("Oracle_UDQ", "Oracle_UDQ.cfg", cases, workdir)
    return {k: v["exp"] for k, v in exp.items()}, skipped, st


# ---------------------------------------------------------------- histories
DECK_HEAD = """RUNSPEC
DIMENS
 3 3 1 /
OIL
WATER
GAS
METRIC
START
 1 'JAN' 2020 /
WELLDIMS
 8 4 4 8 /
UDQDIMS
 20 20 4 20 20 4 4 4 20 /
GRID
DX
 9*100 /
DY
 9*100 /
DZ
 9*10 /
TOPS
 9*2000 /
PORO
 9*0.2 /
PERMX
 9*100 /
PERMY
 9*100 /
PERMZ
 9*10 /
SCHEDULE
GRUPTREE
 G1 FIELD /
 G2 FIELD /
/
WELSPECS
 P1 G1 1 1 1* OIL /
 P2 G1 2 1 1* OIL /
 P3 G2 3 1 1* OIL /
 I1 G2 1 3 1* WATER /
/
COMPDAT
 P1 1 1 1 1 OPEN /
 P2 2 1 1 1 OPEN /
 P3 3 1 1 1 OPEN /
 I1 1 3 1 1 OPEN /
/
"""


def render_history_deck(steps):
    s = DECK_HEAD
    for st in steps:
        if st["recs"]:
            s += "UDQ\n"
            for r in st["recs"]:
                if r[0] == "ASSIGN":
                    s += " ASSIGN %s %s %d /\n" % (r[1], r[2], r[3])
                elif r[0] == "DEFINE":
                    s += " DEFINE %s %s /\n" % (r[1], " ".join(r[2]))
                else:
                    s += " UPDATE %s %s /\n" % (r[1], r[2])
            s += "/\n"
        s += "TSTEP\n 1 /\n"
    return s


def rand_history(rng, cid, nsteps=4):
    names = ["FU1", "FU2", "FU3", "WU1", "WU2", "GU1"]
    kind = {"FU1": "s", "FU2": "s", "FU3": "s", "WU1": "w", "WU2": "w", "GU1": "g"}
    defined, known = set(), []
    steps = []
    for k in range(nsteps):
        recs = []
        for _ in range(rng.choice([0, 1, 1, 2, 3] if k else [2, 3, 4])):
            n = rng.choice(names)
            a = rng.random()
            if n in defined and a < 0.3:
                recs.append(["UPDATE", n, rng.choice(["ON", "OFF", "NEXT"])])
                continue
            # (ASSIGN of a group-level UDQ is "not yet implemented" in opm-common and raises a clean error)
            if a < 0.55 and kind[n] != "g":
                sel = rng.choice(["", "", "P1", "P3"]) if kind[n] == "w" else ""
                recs.append(["ASSIGN", n, sel, rng.randint(0, 6)])
            else:
                g = Gen(rng)
                # expressions may refer to UDQs that appeared before (values from the state)
                toks = g.expr(kind[n], kind[n] if kind[n] != "s" else rng.choice(["w", "g", None]), 1)
                refs = [m for m in known if m != n]
                if refs and rng.random() < 0.7:
                    m = rng.choice(refs)
                    if kind[m] == "s" or kind[m] == kind[n]:
                        toks = [m, rng.choice(["+", "*", "-"])] + toks
                    elif kind[n] == "s":
                        toks = ["SUM", "(", m, ")", rng.choice(["+", "-"])] + toks
                recs.append(["DEFINE", n, toks])
                defined.add(n)
            if n not in known:
                known.append(n)
        ctx = rand_ctx(rng)
        if steps:
            # which well values are undefined is fixed per history (a persistent summary
            # state cannot forget a value); the numbers change from step to step
            first = steps[0]["ctx"]
            for q in ctx["w"]:
                for w in ctx["w"][q]:
                    if first["w"][q][w][1] == 0:
                        ctx["w"][q][w] = [0, 0]
                    elif ctx["w"][q][w][1] == 0:
                        ctx["w"][q][w] = [rng.randint(0, 6), 1]
            # WGOR (the argument of SORTA / SORTD) keeps distinct values: same at every step
            ctx["w"]["WGOR"] = dict(first["w"]["WGOR"])
        steps.append({"recs": recs, "ctx": ctx})
    return {"id": cid, "steps": steps, "deck": render_history_deck(steps)}


def oracle_hist(vf, cases, workdir):
    exp, skipped, st = vf.tlc_oracle("Oracle_UDQHist", "Oracle_UDQHist.cfg",
                                     [{"id": c["id"], "steps": c["steps"]} for c in cases], workdir)
    return {k: v["exp"] for k, v in exp.items()}, skipped, st
