"""X02 (beyond the listed properties) - well lists (WLIST NEW / ADD / DEL / MOV).

Specification: spec/WList.tla; harness/wlistops applies every operation through
the real keyword handler (one deck per prefix) and reports the lists and the
per-well index of list names; Trace_WList validates them.
"""
import json
import os
import random

import vf

PID = "X02"


def rand_script(rng, n):
    ops = []
    for _ in range(n):
        ws = rng.sample(["P1", "P2", "P3"], rng.choice([0, 1, 1, 2, 3]))
        ops.append({"op": rng.choice(["NEW", "ADD", "ADD", "DEL", "MOV"]), "name": rng.choice(["*L1", "*L2", "*L3"]), "wells": ws})
    return {"ops": ops}


def run(opts):
    chk = vf.Check(PID)
    vf.build_repo()
    exe = vf.build_harness("wlistops")
    rng = random.Random(chk.seed)
    if opts.get("replay"):
        scripts = [json.load(open(opts["replay"]))["script"]]
    else:
        r = vf.tlc("WList", "MC_WList.cfg", timeout=900)
        vf.require_clean(r, "WList")
        chk.add_tlc(r)
        scripts = [rand_script(rng, rng.choice([4, 6, 8])) for _ in range(chk.pick(250, 5000))]
    for n, s in enumerate(scripts):
        s["id"] = n
    spath = os.path.join(chk.rundir, "scripts.ndjson")
    tpath = os.path.join(chk.rundir, "trace.ndjson")
    vf.write_ndjson(spath, scripts)
    rc, out, _ = vf.sh([exe, spath, tpath], timeout=6000)
    if rc != 0:
        raise vf.ToolingError("harness wlistops failed rc=%d: %s" % (rc, out[-2000:]))
    chk.evaluations = sum(1 for ln in open(tpath) if '"e":"Op"' in ln)
    by_id = {s["id"]: s for s in scripts}
    chk.traces = vf.validate_trace_segments(chk, "Trace_WList", "Trace_WList.cfg", tpath, script_of_segment=lambda seg: by_id.get(seg["id"]))
    chk.distinct = len(scripts)
    chk.rule = "%d random sequences of 4-8 WLIST operations over 3 lists and 3 wells" % len(scripts)
    chk.sample(scripts[0]["ops"][:4])
    chk.assumptions = ["not one of the listed properties: additional specification coverage (DESIGN.md 12.7)"]
    return chk.finish()
