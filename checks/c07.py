"""C07 - Eclipse array files round-trip and conform to the published layout.

Model: spec/EclFileFormat.tla (published layout + transcription of the
implementation's seek arithmetic).  Binding: harness/eclarr writes array
sequences with the real EclOutput, scans the bytes with an independent
scanner, reads them with the real EclFile; TLC validates every recorded
file against the layout (offsets, frames/lines, header and data positions
in the reader's index, seek position) and requires the value booleans.
"""
import json
import os
import random

import vf

PID = "C07"
TYPES = ["INTE", "REAL", "DOUB", "LOGI", "CHAR", "C0NN", "MESS"]
VCS = {"INTE": ["seq", "extreme", "random"], "REAL": ["seq", "extreme", "random", "nonfinite"],
       "DOUB": ["seq", "extreme", "random", "nonfinite"], "LOGI": ["seq", "random"],
       "CHAR": ["seq", "extreme", "random"], "C0NN": ["seq", "extreme", "random"], "MESS": ["seq"]}


def arr(name, t, w, n, vc):
    if t == "MESS":
        n, w = 0, 0
    if t == "CHAR":
        w = 8
    if t not in ("CHAR", "C0NN"):
        w = 0
    return [name, t, w, n, vc]


def dense_lengths(quick):
    if not quick:
        return list(range(0, 2003))
    s = set(range(0, 13))
    for c in (105, 210, 1000, 2000):
        s.update(range(c - 3, c + 4))
    return sorted(s)


def run(opts):
    chk = vf.Check(PID)
    vf.build_repo()
    exe = vf.build_harness("eclarr")
    rng = random.Random(chk.seed)
    scripts = []
    if opts.get("replay"):
        scripts = [json.load(open(opts["replay"]))["script"]]
    else:
        # ---- design level
        for cfg in [chk.pick("MC_EclFileFormat_dense.cfg", "MC_EclFileFormat_single.cfg"), "MC_EclFileFormat_seq.cfg"]:
            r = vf.tlc("MC_EclFileFormat", cfg, timeout=1500)
            if r.violated:
                chk.violation({"kind": "model", "cfg": cfg, "invariant": r.violated, "trace": r.trace_text},
                              "model invariant %s violated (%s)" % (r.violated, cfg))
            vf.require_clean(r, cfg, ["WriteArray", "WriteMessage"])
            chk.add_tlc(r)
        r = vf.tlc("MC_EclFileFormat", "MC_EclFileFormat_asold.cfg", timeout=300)
        if r.violated != "SeekFindsHeader":
            raise vf.ToolingError("vacuity guard: SeekBackF=30 should violate SeekFindsHeader")
        # ---- TLC behaviours: all pairs of arrays over the edge lengths
        g = vf.tlc("Gen_EclFileFormat", "Gen_EclFileFormat.cfg", timeout=900, coverage=False)
        vf.require_clean(g, "Gen_EclFileFormat")
        chk.add_tlc(g)
        for i, b in enumerate(g.gen):
            arrs = [arr("%s%d" % (a["t"][:3], k), a["t"], a["w"], a["n"], VCS[a["t"]][(i + k) % len(VCS[a["t"]])])
                    for k, a in enumerate(b["arrays"])]
            scripts.append({"fmt": b["fmt"], "ix": bool(i % 2), "arrays": arrs, "seed": chk.seed + i, "src": "tlc"})
        chk.notes["tlc_behaviours"] = len(g.gen)
        # ---- every type x every length (dense sweep), all four flavours
        lens = dense_lengths(chk.quick)
        k = 0
        for t in TYPES:
            for n in (lens if t != "MESS" else [0]):
                for fmt in (False, True):
                    for ix in (False, True):
                        k += 1
                        w = rng.choice([9, 10, 16, 37, 77]) if t == "C0NN" else 0
                        scripts.append({"fmt": fmt, "ix": ix, "seed": chk.seed + k, "src": "sweep",
                                        "arrays": [arr("X", t, w, n, VCS[t][k % len(VCS[t])])]})
        chk.notes["sweep_lengths"] = len(lens)
        # ---- random sequences, random larger lengths
        for i in range(chk.pick(150, 3000)):
            na = rng.randint(1, 20)
            arrs = []
            for j in range(na):
                t = rng.choice(TYPES)
                n = rng.choice([rng.randint(0, 30), rng.randint(0, 2500), rng.randint(2500, chk.pick(12000, 100000)) if i % 10 == 0 else 7])
                w = rng.choice([3, 8, 9, 12, 24, 40, 77]) if t == "C0NN" else 0
                arrs.append(arr("R%d" % j, t, w, n, rng.choice(VCS[t])))
            scripts.append({"fmt": rng.random() < 0.5, "ix": rng.random() < 0.5, "arrays": arrs,
                            "seed": rng.randrange(1 << 30), "src": "random"})

    spath = os.path.join(chk.rundir, "scripts.ndjson")
    tpath = os.path.join(chk.rundir, "trace.ndjson")
    chunk = 4000
    events = 0
    distinct = set()
    for lo in range(0, len(scripts), chunk):
        part = scripts[lo:lo + chunk]
        vf.write_ndjson(spath, part)
        rc, out, _ = vf.sh([exe, spath, tpath, os.path.join(chk.rundir, "w")], timeout=3000)
        if rc != 0:
            raise vf.ToolingError("harness eclarr failed rc=%d: %s" % (rc, out[-2000:]))
        events += sum(1 for _ in open(tpath))
        by_id = dict(enumerate(part))
        chk.traces += vf.validate_trace_segments(chk, "Trace_EclFileFormat", "Trace_EclFileFormat.cfg", tpath,
                                                 script_of_segment=lambda seg: by_id.get(seg["id"]))
        for s in part:
            distinct.add(json.dumps([s["fmt"], s["ix"], [a[1:4] for a in s["arrays"]]]))
    chk.evaluations = len(scripts)
    chk.distinct = len(distinct)
    chk.notes["trace_events"] = events
    chk.exhaustive = not chk.quick
    chk.rule = ("files = (i) every pair of arrays over 7 types x edge lengths {0,1,105,106,1000,1001} enumerated by TLC, "
                "(ii) every type x every length in %s x {formatted,unformatted} x {ECL,IX} as single-array files, "
                "(iii) seeded random sequences of up to 20 arrays with lengths up to 10^5; value classes seq/extreme/"
                "random/nonfinite; distinct = distinct (flavour, type/width/length sequence)"
                % ("0..2002" if not chk.quick else "0..12 and +-3 around 105, 210, 1000, 2000"))
    for s in scripts[:1] + scripts[len(scripts) // 2:len(scripts) // 2 + 1] + scripts[-1:]:
        chk.sample({"fmt": s["fmt"], "ix": s["ix"], "arrays": s["arrays"][:6], "src": s.get("src")})
    chk.assumptions = ["independent scanner/decoder harness/eclscan.hpp is correct",
                       "formatted reals compare to printed precision: REAL 6e-8 on the bytes (1.2e-7 after the reader rounds the decimal to float), DOUB 6e-14 relative",
                       "strings compare modulo trailing blanks (fixed-width fields)",
                       "X231 headers (more than 2^31 elements) are not exercised"]
    return chk.finish()
