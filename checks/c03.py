"""C03 - the schedule is causal: state at step k depends only on input up to step k.

Specification: spec/Schedule.tla generates SCHEDULE inputs (blocks of abstract
keywords whose prerequisites exist; TLC checks well-formedness exhaustively in
small bounds and produces the inputs by simulation); spec/Trace_Schedule.tla
states causality over observations.  Binding: harness/schedobs builds the
real Schedule from the whole input, from every prefix cut at a report-step
boundary and from prefixes continued with a different tail, and records a
member-wise digest (through the library's own serialisation, wells and groups
one by one) of every snapshot; TLC validates the trace.  Shipped decks are
cut at every DATES/TSTEP boundary in the same way.
"""
import glob
import json
import os
import random
import re

import schedgen
import vf

PID = "C03"


def split_shipped(path):
    """head (everything up to and including SCHEDULE) and blocks of a shipped deck, cut after TSTEP/DATES keywords"""
    txt = open(path, errors="replace").read()
    m = re.search(r"^SCHEDULE\s*$", txt, re.M)
    if not m or re.search(r"^\s*(INCLUDE|PYACTION|ACTIONX)\b", txt, re.M | re.I):
        return None
    head, body = txt[:m.end()] + "\n", txt[m.end():]
    body = re.sub(r"^END\s*$.*", "", body, flags=re.M | re.S)
    blocks, cur, i = [], [], 0
    lines = body.splitlines()
    while i < len(lines):
        ln = lines[i]
        if re.match(r"^\s*(TSTEP|DATES)\b", ln):
            # skip the keyword: TSTEP ends with the first '/', DATES with a line holding only '/'
            if ln.strip().startswith("TSTEP"):
                n_items = 0
                while i < len(lines):
                    code = lines[i].split("--")[0]
                    i += 1
                    if "/" in code:
                        break
            else:
                i += 1
                while i < len(lines) and lines[i].split("--")[0].strip() != "/":
                    i += 1
                i += 1
            blocks.append("\n".join(cur) + "\n")
            cur = []
            continue
        cur.append(ln)
        i += 1
    if len(blocks) < 2 or len(blocks) > 30:
        return None
    return head, blocks


def run(opts):
    chk = vf.Check(PID)
    vf.build_repo()
    exe = vf.build_harness("schedobs")
    rng = random.Random(chk.seed)
    if opts.get("replay"):
        scripts = [json.load(open(opts["replay"]))["script"]]
    else:
        r = vf.tlc("MC_Schedule", "MC_Schedule.cfg", timeout=900)
        if r.violated:
            chk.violation({"kind": "model", "invariant": r.violated, "trace": r.trace_text}, "Schedule generator not well-formed")
        vf.require_clean(r, "MC_Schedule", ["Tstep", "SNext"])
        chk.add_tlc(r)
        g = vf.tlc("MC_Schedule", "Gen_Schedule.cfg", simulate=chk.pick(60, 1500), depth=24, seed=chk.seed % 100000,
                   workers=4, coverage=False, timeout=1500)
        vf.require_clean(g, "Gen_Schedule")
        seen, beh = set(), []
        for x in g.gen:
            k = json.dumps(x)
            if k not in seen:
                seen.add(k)
                beh.append(x)
        rng.shuffle(beh)
        beh = beh[:chk.pick(500, 12000)]
        chk.notes["tlc_inputs"] = len(beh)
        scripts = []
        for x in beh:
            blocks = [schedgen.block_text(b) for b in x["blocks"]]
            alts = []
            for _ in range(2):
                if len(blocks) > 1:
                    k = rng.randint(1, len(blocks) - 1)
                    other = rng.choice(beh)["blocks"]
                    # the different tail re-uses another input's blocks; wells it needs may be missing: only tails
                    # whose first keyword is self-contained are used (WELSPECS / GRUPTREE first, or empty)
                    tail = [b for b in other[:3]]
                    alts.append({"k": k, "blocks": [schedgen.block_text(b) for b in tail]})
            scripts.append({"head": schedgen.HEAD, "blocks": blocks, "alts": alts, "src": "tlc"})
        # multi-segment wells are rare in the simulated behaviours (their prerequisites are narrow): histories in which a well
        # becomes multi-segment and its segment keywords are entered again at later report steps, with other keywords around
        def kw(kwname, **f):
            return dict(kw=kwname, **f)
        msw_hist = 0
        for _ in range(chk.pick(40, 400)):
            w, i = rng.choice(["W1", "W2"]), rng.choice([1, 3])
            blocks = [[kw("WELSPECS", well=w, group="G1", i=i, j=i), kw("COMPDAT", well=w, i=i, j=i, k1=1, k2=2, state="OPEN"),
                       kw("WCONPROD", well=w, status="OPEN", cmode="ORAT", orat=100, bhp=50)]]
            have = False
            for _b in range(rng.randint(3, 5)):
                b = []
                for _k in range(rng.randint(0, 2)):
                    r = rng.random()
                    if r < 0.5:
                        b.append(kw("MSW", well=w, i=i, v=rng.choice([1, 2])))
                        have = True
                    elif r < 0.7:
                        b.append(kw("WELTARG", well=w, which="ORAT", v=rng.choice([60, 150])))
                    elif r < 0.85:
                        b.append(kw("WEFAC", well=w, f=rng.choice([1, 2, 4])))
                    else:
                        b.append(kw("MISC", name=rng.choice(["WVFPDP", "WDFAC", "COMPORD"]), well=w, v=rng.choice([1, 2])))
                blocks.append(b)
            if have:
                scripts.append({"head": schedgen.HEAD, "blocks": [schedgen.block_text(b) for b in blocks], "alts": [], "src": "msw"})
                msw_hist += 1
        chk.notes["msw_histories"] = msw_hist
        # shipped decks
        shipped = 0
        for path in sorted(glob.glob(os.path.join(vf.REPO, "tests", "*.DATA")) + glob.glob(os.path.join(vf.REPO, "tests", "parser", "data", "integration_tests", "SCHEDULE", "*"))):
            if shipped >= chk.pick(6, 60):
                break
            try:
                sp = split_shipped(path)
            except Exception:
                sp = None
            if sp:
                scripts.append({"head": sp[0], "blocks": sp[1], "alts": [], "src": os.path.basename(path)})
                shipped += 1
        chk.notes["shipped_decks"] = shipped
    spath = os.path.join(chk.rundir, "scripts.ndjson")
    tpath = os.path.join(chk.rundir, "trace.ndjson")
    for lo in range(0, len(scripts), 400):
        part = scripts[lo:lo + 400]
        vf.write_ndjson(spath, part)
        rc, out, _ = vf.sh([exe, spath, tpath], timeout=6000, cwd=os.path.join(vf.REPO, "tests"))
        if rc != 0:
            raise vf.ToolingError("harness schedobs failed rc=%d: %s" % (rc, out[-2000:]))
        nsnap = 0
        built = 0
        for ln in open(tpath):
            if '"e":"Snap"' in ln[:40] or '"e": "Snap"' in ln[:40]:
                nsnap += 1
            if '"run":"full"' in ln and '"res":"ok"' in ln:
                built += 1
        chk.evaluations += nsnap
        chk.notes["full_inputs_built"] = chk.notes.get("full_inputs_built", 0) + built
        by_id = dict(enumerate(part))
        chk.traces += vf.validate_trace_segments(chk, "Trace_Schedule", "Trace_Schedule.cfg", tpath,
                                                 script_of_segment=lambda seg: by_id.get(seg["id"]))
    chk.distinct = len({json.dumps(s["blocks"]) for s in scripts})
    chk.rule = ("SCHEDULE inputs of up to 5 report steps / 14 keywords from a 19-keyword alphabet (WELSPECS, COMPDAT, WCONPROD, "
                "WCONINJE, WCONHIST, WELOPEN on wells and connections, WELTARG, WEFAC, GEFAC, GRUPTREE, GCONPROD, WPIMULT, "
                "WLIST, UDQ, TUNING, NEXTSTEP, RPTRST, WELPI, WTEST, WECON, WGRUPCON, COMPLUMP, GCONINJE) generated by TLC simulation, plus shipped decks; every cut point, "
                "truncation and two different tails per input; evaluations = snapshots observed")
    for s in scripts[:2]:
        chk.sample({"blocks": s["blocks"][:4], "alts": [a["k"] for a in s["alts"]], "src": s.get("src")})
    chk.assumptions = ["a snapshot is observed through the library's own serialisation of every ScheduleState member (wells "
                       "and groups individually); state that is not serialised is not observed",
                       "for shipped decks and keywords outside the alphabet the oracle is agreement between runs of the "
                       "same code on inputs sharing a prefix"]
    return chk.finish()
