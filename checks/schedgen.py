"""Rendering of abstract SCHEDULE keywords (spec/Schedule.tla) to deck text, shared by C03, C04."""
HEAD = """RUNSPEC
DIMENS
 3 3 2 /
OIL
WATER
GAS
METRIC
START
 1 'JAN' 2020 /
NETWORK
 5 5 /
WELLDIMS
 8 8 4 8 /
WSEGDIMS
 4 10 4 /
UDQDIMS
 10 10 4 10 10 4 4 4 10 /
ACTDIMS
 10 40 80 10 /
TABDIMS
/
GRID
DX
 18*100 /
DY
 18*100 /
DZ
 18*10 /
TOPS
 9*2000 /
PORO
 18*0.2 /
PERMX
 18*100 /
PERMY
 18*100 /
PERMZ
 18*10 /
SCHEDULE
"""


# further keywords with a handler in the library, each in two variants (spec/Schedule.tla: Misc)
MISC = {
 "COMPORD":  ("well",  ["COMPORD\n %s INPUT /\n/\n", "COMPORD\n %s DEPTH /\n/\n"]),
 "CSKIN":    ("well",  ["CSKIN\n %s 1* 1* 1 2 0.5 /\n/\n", "CSKIN\n %s 1* 1* 1 1 1.5 /\n/\n"]),
 "WDFAC":    ("well",  ["WDFAC\n %s 1e-5 /\n/\n", "WDFAC\n %s 3e-5 /\n/\n"]),
 "WLIFTOPT": ("well",  ["LIFTOPT\n 100 0.1 10 /\nWLIFTOPT\n %s YES 1000 /\n/\n", "LIFTOPT\n 100 0.1 10 /\nWLIFTOPT\n %s NO 500 /\n/\n"]),
 "WRFT":     ("well",  ["WRFT\n %s /\n/\n", "WRFT\n/\n"]),
 "WRFTPLT":  ("well",  ["WRFTPLT\n %s YES NO NO /\n/\n", "WRFTPLT\n %s REPT YES NO /\n/\n"]),
 "WVFPDP":   ("well",  ["WVFPDP\n %s 1.5 1.0 /\n/\n", "WVFPDP\n %s 0.5 0.9 /\n/\n"]),
 "WVFPEXP":  ("well",  ["WVFPEXP\n %s EXP NO /\n/\n", "WVFPEXP\n %s IMP YES /\n/\n"]),
 "WWPAVE":   ("well",  ["WWPAVE\n %s 0.3 1.0 WELL OPEN /\n/\n", "WWPAVE\n %s 0.7 0.5 RES ALL /\n/\n"]),
 "WPAVEDEP": ("well",  ["WPAVEDEP\n %s 2005 /\n/\n", "WPAVEDEP\n %s 2010 /\n/\n"]),
 "WINJCLN":  ("well",  ["WINJCLN\n %s 0.5 /\n/\n", "WINJCLN\n %s 0.25 /\n/\n"]),
 "GCONSALE": ("group", ["GCONSALE\n %s 50000 55000 45000 WELL /\n/\n", "GCONSALE\n %s 30000 35000 25000 RATE /\n/\n"]),
 "GCONSUMP": ("group", ["GCONSUMP\n %s 20 50 /\n/\n", "GCONSUMP\n %s 10 30 /\n/\n"]),
 "GECON":    ("group", ["GECON\n %s 10 /\n/\n", "GECON\n %s 5 1000 /\n/\n"]),
 "GLIFTOPT": ("group", ["LIFTOPT\n 100 0.1 10 /\nGLIFTOPT\n %s 200 300 /\n/\n", "LIFTOPT\n 100 0.1 10 /\nGLIFTOPT\n %s 100 150 /\n/\n"]),
 "GPMAINT":  ("group", ["GPMAINT\n %s WINJ 1 1* 250 1 0.5 /\n/\n", "GPMAINT\n %s NONE /\n/\n"]),
 "GCONINJG": ("group", ["GCONINJE\n %s GAS RATE 30000 /\n/\n", "GCONINJE\n %s GAS REIN 1* 1* 0.8 /\n/\n"]),
 "DRSDT":    ("global", ["DRSDT\n 0.01 /\n", "DRSDT\n 0.05 /\n"]),
 "DRVDT":    ("global", ["DRVDT\n 0.01 /\n", "DRVDT\n 0.03 /\n"]),
 "VAPPARS":  ("global", ["VAPPARS\n 0.5 0.1 /\n", "VAPPARS\n 1.5 0.2 /\n"]),
 "GUIDERAT": ("global", ["GUIDERAT\n 0 OIL 1 0.5 1 1 0 0 YES 0.5 /\n", "GUIDERAT\n 10 LIQ 1 1.5 1 1 0 0 NO 0.7 /\n"]),
 "NETBALAN": ("global", ["NETBALAN\n 1 0.1 /\n", "NETBALAN\n 0 0.5 5 /\n"]),
 "NUPCOL":   ("global", ["NUPCOL\n 5 /\n", "NUPCOL\n 8 /\n"]),
 "RPTSCHED": ("global", ["RPTSCHED\n FIP=2 /\n", "RPTSCHED\n RESTART=2 WELLS=1 /\n"]),
 "RPTONLY":  ("global", ["RPTONLY\n", "RPTONLYO\n"]),
 "SAVE":     ("global", ["SAVE\n", "SAVE\n"]),
 "SUMTHIN":  ("global", ["SUMTHIN\n 10 /\n", "SUMTHIN\n 30 /\n"]),
 "WHISTCTL": ("global", ["WHISTCTL\n ORAT NO /\n", "WHISTCTL\n LRAT NO /\n"]),
 "WPAVE":    ("global", ["WPAVE\n 0.5 1.0 WELL OPEN /\n", "WPAVE\n 0.2 0.3 RES ALL /\n"]),
 "WSEGITER": ("global", ["WSEGITER\n 30 40 0.3 2.0 /\n", "WSEGITER\n 10 20 0.5 3.0 /\n"]),
 "MULTZ":    ("global", ["MULTZ\n 18*0.5 /\n", "MULTX\n 18*0.25 /\n"]),
 "FBHPDEF":  ("global", ["FBHPDEF\n 2 500 /\n", "FBHPDEF\n 5 300 /\n"]),
 "MESSAGES": ("global", ["MESSAGES\n 100 /\n", "MESSAGES\n 2* 50 /\n"]),
 "DRSDTR":   ("global", ["DRSDTR\n 0.01 /\n", "DRSDTR\n 0.02 /\n"]),
 "MULTPV":   ("global", ["MULTPV\n 18*1.5 /\n", "MULTPV\n 18*0.75 /\n"]),
 "BRANPROP": ("group", ["BRANPROP\n %s FIELD 9999 /\n/\nNODEPROP\n FIELD 50 /\n/\n", "BRANPROP\n %s FIELD 1 /\n/\nNODEPROP\n FIELD 60 NO YES /\n/\n"]),
 "GCONPRDG": ("group", ["GCONPROD\n %s ORAT 500 3* RATE /\n/\n", "GCONPROD\n %s LRAT 1* 1* 1* 800 RATE /\n/\n"]),
 "WDFACCOR": ("well",  ["WDFACCOR\n %s 1e-5 0 0 /\n/\n", "WDFACCOR\n %s 2e-5 0.1 0 /\n/\n"]),
 "UDQDEF":   ("global", ["UDQ\n DEFINE FU2 FOPR * 2 /\n/\n", "UDQ\n DEFINE FU2 FWPR + 1 /\n UPDATE FU2 OFF /\n/\n"]),
 "UDQDEFW":  ("global", ["UDQ\n DEFINE WU2 WOPR + 1 /\n UNITS WU2 SM3/DAY /\n/\n", "UDQ\n DEFINE WU2 WWPR * 3 /\n/\n"]),
 "VFPPROD":  ("global", ["VFPPROD\n 1 2000 OIL WCT GOR THP ' ' 1* BHP /\n 100 500 /\n 10 50 /\n 0.1 0.5 /\n 100 200 /\n 0 /\n 1 1 1 1 100 120 /\n 1 2 1 1 110 130 /\n 2 1 1 1 105 125 /\n 2 2 1 1 115 135 /\n 1 1 2 1 100 120 /\n 1 2 2 1 110 130 /\n 2 1 2 1 105 125 /\n 2 2 2 1 115 135 /\n", "VFPPROD\n 2 2010 OIL WCT GOR THP ' ' 1* BHP /\n 100 500 /\n 10 50 /\n 0.1 0.5 /\n 100 200 /\n 0 /\n 1 1 1 1 90 140 /\n 1 2 1 1 110 130 /\n 2 1 1 1 105 125 /\n 2 2 1 1 115 135 /\n 1 1 2 1 90 140 /\n 1 2 2 1 110 130 /\n 2 1 2 1 105 125 /\n 2 2 2 1 115 135 /\n"]),
 "SOURCE":   ("global", ["SOURCE\n 1 1 1 WATER 0.01 /\n/\n", "SOURCE\n 2 2 1 OIL 0.02 /\n/\n"]),
}


def kw_text(k):
    n = k["kw"]
    if n == "MSW":
        w, i = k["well"], k["i"]
        t = ("WELSEGS\n %s 2000 0 1* INC HF- /\n 2 2 1 1 5 5 0.2 0.0001 /\n 3 3 1 2 5 5 0.2 0.0001 /\n/\n"
             "COMPSEGS\n %s /\n %d %d 1 1 0 5 /\n %d %d 2 1 5 10 /\n/\n") % (w, w, i, i, i, i)
        if k["v"] == 2:
            t += "WSEGVALV\n %s 3 0.8 0.01 /\n/\n" % w
        return t
    if n == "MISC":
        kind, vs = MISC[k["name"]]
        t = vs[k["v"] - 1]
        return t.replace("%s", k["well"] if kind == "well" else k["group"]) if kind != "global" else t
    if n == "WELPI":
        return "WELPI\n %s %d /\n/\n" % (k["well"], k["v"])
    if n == "WTEST":
        return "WTEST\n %s %d P %d /\n/\n" % (k["well"], k["days"], k["n"])
    if n == "WECON":
        return "WECON\n %s %d /\n/\n" % (k["well"], k["orat"])
    if n == "WGRUPCON":
        return "WGRUPCON\n %s %s 1.0 OIL /\n/\n" % (k["well"], k["avail"])
    if n == "COMPLUMP":
        return "COMPLUMP\n %s 1* 1* %d %d %d /\n/\n" % (k["well"], k["k1"], k["k2"], k["n"])
    if n == "GCONINJE":
        return "GCONINJE\n %s WATER RATE %d /\n/\n" % (k["group"], k["rate"])
    if n == "GRUPTREE":
        return "GRUPTREE\n %s %s /\n/\n" % (k["child"], k["parent"])
    if n == "WELSPECS":
        return "WELSPECS\n %s %s %d %d 1* OIL /\n/\n" % (k["well"], k["group"], k["i"], k["j"])
    if n == "COMPDAT":
        return "COMPDAT\n %s %d %d %d %d %s /\n/\n" % (k["well"], k["i"], k["j"], k["k1"], k["k2"], k["state"])
    if n == "WCONPROD":
        return "WCONPROD\n %s %s %s %d 4* %d /\n/\n" % (k["well"], k["status"], k["cmode"], k["orat"], k["bhp"])
    if n == "WCONINJE":
        return "WCONINJE\n %s WATER %s RATE %d 1* %d /\n/\n" % (k["well"], k["status"], k["rate"], k["bhp"])
    if n == "WCONHIST":
        return "WCONHIST\n %s %s ORAT %d 10 20 /\n/\n" % (k["well"], k["status"], k["orat"])
    if n == "WELOPEN":
        if k["conn"]:
            return "WELOPEN\n %s %s %d %d %d /\n/\n" % (k["well"], k["status"], k["conn"][0], k["conn"][1], k["conn"][2])
        return "WELOPEN\n %s %s /\n/\n" % (k["well"], k["status"])
    if n == "WELTARG":
        return "WELTARG\n %s %s %d /\n/\n" % (k["well"], k["which"], k["v"])
    if n == "WEFAC":
        return "WEFAC\n %s %s /\n/\n" % (k["well"], {1: "1.0", 2: "0.5", 4: "0.25"}[k["f"]])
    if n == "GEFAC":
        return "GEFAC\n %s %s /\n/\n" % (k["group"], {1: "1.0", 2: "0.5", 4: "0.25"}[k["f"]])
    if n == "WPIMULT":
        return "WPIMULT\n %s %d /\n/\n" % (k["well"], k["f"])
    if n == "GCONPROD":
        return "GCONPROD\n %s ORAT %d /\n/\n" % (k["group"], k["orat"])
    if n == "WLIST":
        return "WLIST\n '%s' %s %s /\n/\n" % (k["name"], k["op"], k["well"])
    if n == "UDQ":
        return "UDQ\n ASSIGN %s %d /\n/\n" % (k["q"], k["v"])
    if n == "TUNING":
        return "TUNING\n %d 30 /\n/\n/\n" % k["v"]
    if n == "NEXTSTEP":
        return "NEXTSTEP\n %d /\n" % k["v"]
    if n == "RPTRST":
        return "RPTRST\n BASIC=%d /\n" % k["v"]
    if n == "ACTIONX":
        return "ACTIONX\n %s 10 /\n FOPR > 0 /\n/\n%sENDACTIO\n" % (k["name"], "".join(kw_text(b) for b in k["body"]))
    raise ValueError(n)


def block_text(block):
    return "".join(kw_text(k) for k in block)


def deck(blocks, close_last=True):
    """blocks -> deck; every block is closed by a one-day time step"""
    s = HEAD
    for i, b in enumerate(blocks):
        s += block_text(b)
        if i < len(blocks) - 1 or close_last:
            s += "TSTEP\n 1 /\n"
    return s
