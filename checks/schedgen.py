"""Rendering of abstract SCHEDULE keywords (spec/Schedule.tla) to deck text, shared by C03, C04."""
HEAD = """RUNSPEC
DIMENS
 3 3 2 /
OIL
WATER
GAS
METRIC
START
 1 'JAN' 2020 /
WELLDIMS
 8 8 4 8 /
UDQDIMS
 10 10 4 10 10 4 4 4 10 /
ACTDIMS
 10 40 80 10 /
TABDIMS
/
GRID
DX
 18*100 /
DY
 18*100 /
DZ
 18*10 /
TOPS
 9*2000 /
PORO
 18*0.2 /
PERMX
 18*100 /
PERMY
 18*100 /
PERMZ
 18*10 /
SCHEDULE
"""


def kw_text(k):
    n = k["kw"]
    if n == "WELPI":
        return "WELPI\n %s %d /\n/\n" % (k["well"], k["v"])
    if n == "WTEST":
        return "WTEST\n %s %d P %d /\n/\n" % (k["well"], k["days"], k["n"])
    if n == "WECON":
        return "WECON\n %s %d /\n/\n" % (k["well"], k["orat"])
    if n == "WGRUPCON":
        return "WGRUPCON\n %s %s 1.0 OIL /\n/\n" % (k["well"], k["avail"])
    if n == "COMPLUMP":
        return "COMPLUMP\n %s 1* 1* %d %d %d /\n/\n" % (k["well"], k["k1"], k["k2"], k["n"])
    if n == "GCONINJE":
        return "GCONINJE\n %s WATER RATE %d /\n/\n" % (k["group"], k["rate"])
    if n == "GRUPTREE":
        return "GRUPTREE\n %s %s /\n/\n" % (k["child"], k["parent"])
    if n == "WELSPECS":
        return "WELSPECS\n %s %s %d %d 1* OIL /\n/\n" % (k["well"], k["group"], k["i"], k["j"])
    if n == "COMPDAT":
        return "COMPDAT\n %s %d %d %d %d %s /\n/\n" % (k["well"], k["i"], k["j"], k["k1"], k["k2"], k["state"])
    if n == "WCONPROD":
        return "WCONPROD\n %s %s %s %d 4* %d /\n/\n" % (k["well"], k["status"], k["cmode"], k["orat"], k["bhp"])
    if n == "WCONINJE":
        return "WCONINJE\n %s WATER %s RATE %d 1* %d /\n/\n" % (k["well"], k["status"], k["rate"], k["bhp"])
    if n == "WCONHIST":
        return "WCONHIST\n %s %s ORAT %d 10 20 /\n/\n" % (k["well"], k["status"], k["orat"])
    if n == "WELOPEN":
        if k["conn"]:
            return "WELOPEN\n %s %s %d %d %d /\n/\n" % (k["well"], k["status"], k["conn"][0], k["conn"][1], k["conn"][2])
        return "WELOPEN\n %s %s /\n/\n" % (k["well"], k["status"])
    if n == "WELTARG":
        return "WELTARG\n %s %s %d /\n/\n" % (k["well"], k["which"], k["v"])
    if n == "WEFAC":
        return "WEFAC\n %s %s /\n/\n" % (k["well"], {1: "1.0", 2: "0.5", 4: "0.25"}[k["f"]])
    if n == "GEFAC":
        return "GEFAC\n %s %s /\n/\n" % (k["group"], {1: "1.0", 2: "0.5", 4: "0.25"}[k["f"]])
    if n == "WPIMULT":
        return "WPIMULT\n %s %d /\n/\n" % (k["well"], k["f"])
    if n == "GCONPROD":
        return "GCONPROD\n %s ORAT %d /\n/\n" % (k["group"], k["orat"])
    if n == "WLIST":
        return "WLIST\n '%s' %s %s /\n/\n" % (k["name"], k["op"], k["well"])
    if n == "UDQ":
        return "UDQ\n ASSIGN %s %d /\n/\n" % (k["q"], k["v"])
    if n == "TUNING":
        return "TUNING\n %d 30 /\n/\n/\n" % k["v"]
    if n == "NEXTSTEP":
        return "NEXTSTEP\n %d /\n" % k["v"]
    if n == "RPTRST":
        return "RPTRST\n BASIC=%d /\n" % k["v"]
    if n == "ACTIONX":
        return "ACTIONX\n %s 10 /\n FOPR > 0 /\n/\n%sENDACTIO\n" % (k["name"], "".join(kw_text(b) for b in k["body"]))
    raise ValueError(n)


def block_text(block):
    return "".join(kw_text(k) for k in block)


def deck(blocks, close_last=True):
    """blocks -> deck; every block is closed by a one-day time step"""
    s = HEAD
    for i, b in enumerate(blocks):
        s += block_text(b)
        if i < len(blocks) - 1 or close_last:
            s += "TSTEP\n 1 /\n"
    return s
