#!/bin/sh
# Build everything the checks need, offline, from files on disk:
# the library from /repo's working tree and all conformance harnesses.
set -e
cd "$(dirname "$0")"
python3 - <<'PY'
import sys, os
sys.path.insert(0, "lib")
import vf
vf.build_repo()
import glob
for src in sorted(glob.glob(os.path.join(vf.HARNESS, "*.cpp"))):
    name = os.path.basename(src)[:-4]
    if name == "crashprobe":
        continue        # built by check C20 against the sanitizer build of the library (build/asan)
    try:
        import importlib
        vf.build_harness(name, **vf.HARNESS_OPTS.get(name, {}))
    except vf.ToolingError as ex:
        print("setup: harness", name, "failed:", str(ex)[:2000])
        sys.exit(1)
PY
echo "setup done"
