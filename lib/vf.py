"""Shared machinery for the /verif checks.

Everything a check needs: rebuild of /repo's library from the working tree,
harness compilation, TLC invocation (model checking, behaviour generation,
trace validation), known-findings handling, evidence writing.

Exit code convention (see DESIGN.md section 7):
  0  property held on everything explored
  1  violation (a line `VIOLATION property=<id> replay=<path>` is printed)
  2  tooling failure (never reported as a violation)
"""
import fcntl
import hashlib
import json
import os
import re
import shutil
import subprocess
import sys
import time

VERIF = os.path.dirname(os.path.dirname(os.path.abspath(__file__)))
REPO = os.environ.get("VERIF_REPO", "/repo")
RBUILD = os.path.join(REPO, "_build")
BUILD = os.path.join(VERIF, "build")
SPEC = os.path.join(VERIF, "spec")
HARNESS = os.path.join(VERIF, "harness")
EVID = os.path.join(VERIF, "evidence")
REPLAYS = os.path.join(EVID, "replays")
TLA_JAR = "/opt/veriftools/tla/tla2tools.jar"
TLA_CP = TLA_JAR + ":/opt/veriftools/tla/CommunityModules-deps.jar"
CONDA = "/root/miniconda"
NCPU = os.cpu_count() or 4


class ToolingError(Exception):
    pass


def log(*a):
    print("[verif]", *a, flush=True)


def sh(cmd, timeout=1200, cwd=None, env=None, check=False, capture=True, stdin=None):
    e = dict(os.environ)
    if env:
        e.update(env)
    t0 = time.time()
    try:
        p = subprocess.run(cmd, shell=isinstance(cmd, str), cwd=cwd, env=e,
                           stdout=subprocess.PIPE if capture else None,
                           stderr=subprocess.STDOUT if capture else None,
                           timeout=timeout, text=True, errors="replace", input=stdin)
    except subprocess.TimeoutExpired as ex:
        out = ex.stdout if isinstance(ex.stdout, str) else (ex.stdout or b"").decode(errors="replace")
        if check:
            raise ToolingError("timeout after %ss: %s\n%s" % (timeout, cmd, out[-2000:]))
        return 124, out, time.time() - t0
    if check and p.returncode != 0:
        raise ToolingError("command failed (%d): %s\n%s" % (p.returncode, cmd, (p.stdout or "")[-4000:]))
    return p.returncode, p.stdout or "", time.time() - t0


# ---------------------------------------------------------------- build

def _lock(name):
    os.makedirs(BUILD, exist_ok=True)
    f = open(os.path.join(BUILD, name), "w")
    fcntl.flock(f, fcntl.LOCK_EX)
    return f


def build_repo():
    """Bring /repo/_build/lib/libopmcommon.a up to date with the working tree."""
    lk = _lock(".repo.lock")
    try:
        if not os.path.exists(os.path.join(RBUILD, "build.ninja")):
            log("configuring", RBUILD)
            sh(["cmake", "-G", "Ninja", "-S", REPO, "-B", RBUILD,
                "-DCMAKE_BUILD_TYPE=RelWithDebInfo", "-DBUILD_TESTING=ON",
                "-DCMAKE_PREFIX_PATH=" + CONDA], timeout=1800, check=True)
        t0 = time.time()
        rc, out, _ = sh(["cmake", "--build", RBUILD, "--target", "opmcommon", "--", "-j%d" % NCPU],
                        timeout=7200)
        if rc != 0:
            raise ToolingError("library build failed:\n" + out[-6000:])
        dt = time.time() - t0
        if dt > 5:
            log("library rebuilt in %.0fs" % dt)
    finally:
        lk.close()
    return os.path.join(RBUILD, "lib", "libopmcommon.a")


CXXFLAGS = ["-std=c++17", "-O1", "-g0", "-fopenmp", "-pthread", "-Wno-deprecated-declarations",
            "-DHAVE_CONFIG_H=1", "-DNDEBUG", "-UNDEBUG",
            "-I" + REPO, "-I" + RBUILD + "/include", "-I" + RBUILD, "-I" + CONDA + "/include",
            "-I" + HARNESS]
LDFLAGS = ["-L" + CONDA + "/lib", "-lfmt", "-lcjson", "-lboost_system", "-fopenmp",
           "-Wl,-rpath," + CONDA + "/lib"]


# per-harness build options (name -> kwargs of build_harness)
# per-harness build options (setup.sh builds every harness with these)
HARNESS_OPTS = {"adprog": dict(link_lib=False, header_only_deps=["opm/material/densead", "opm/material/common"])}


def _mtime(p):
    try:
        return os.path.getmtime(p)
    except OSError:
        return 0


def _tree_newest(root, exts):
    m = 0
    for d, _, fs in os.walk(root):
        for f in fs:
            if f.endswith(exts):
                m = max(m, _mtime(os.path.join(d, f)))
    return m


def build_harness(name, link_lib=True, extra=(), header_only_deps=()):
    """Compile harness/<name>.cpp into build/bin/<name>; rebuilt when stale.

    header_only_deps: directories under /repo whose headers are compiled into
    the harness (e.g. opm/material) - newest header mtime is a dependency.
    """
    lib = os.path.join(RBUILD, "lib", "libopmcommon.a")
    src = os.path.join(HARNESS, name + ".cpp")
    out = os.path.join(BUILD, "bin", name)
    os.makedirs(os.path.dirname(out), exist_ok=True)
    lk = _lock(".h_%s.lock" % name)
    try:
        # a harness is current when it was linked from exactly these inputs (compared by identity of the inputs,
        # not by ordering of time stamps: the library is rebuilt back and forth when changes are tried on /repo)
        parts = [(src, os.stat(src).st_mtime_ns, os.path.getsize(src))]
        for f in sorted(os.listdir(HARNESS)):
            if f.endswith(".hpp"):
                q = os.path.join(HARNESS, f)
                parts.append((f, os.stat(q).st_mtime_ns, os.path.getsize(q)))
        if link_lib:
            parts.append(("lib", os.stat(lib).st_mtime_ns, os.path.getsize(lib)))
        for d in header_only_deps:
            parts.append((d, _tree_newest(os.path.join(REPO, d), (".hpp", ".h", ".inc"))))
        parts.append(("flags", " ".join(CXXFLAGS + list(extra))))
        stamp = hashlib.md5(repr(parts).encode()).hexdigest()
        sfile = out + ".stamp"
        if os.path.exists(out) and os.path.exists(sfile) and open(sfile).read().strip() == stamp:
            return out
        cmd = ["g++"] + CXXFLAGS + list(extra) + [src, "-o", out + ".tmp"]
        if link_lib:
            cmd += [lib]
        cmd += LDFLAGS
        t0 = time.time()
        rc, o, _ = sh(cmd, timeout=1800)
        if rc != 0:
            raise ToolingError("harness build failed (%s):\n%s" % (name, o[-6000:]))
        os.replace(out + ".tmp", out)
        with open(sfile, "w") as fh:
            fh.write(stamp)
        log("harness %s built in %.0fs" % (name, time.time() - t0))
        return out
    finally:
        lk.close()


def tree_id():
    rc, head, _ = sh(["git", "-C", REPO, "rev-parse", "HEAD"])
    rc, diff, _ = sh("git -C %s diff HEAD -- . ':(exclude)_build' 2>/dev/null | sha1sum" % REPO)
    return {"head": head.strip(), "diff_sha1": diff.split()[0] if diff else ""}


# ---------------------------------------------------------------- TLC

class TlcResult:
    def __init__(self):
        self.rc = 0
        self.out = ""
        self.generated = 0
        self.distinct = 0
        self.depth = 0
        self.violated = None          # name of invariant / property violated
        self.error = None             # other error text
        self.coverage = {}            # action name -> taken count
        self.gen = []                 # GEN payloads (parsed JSON)
        self.wall = 0.0
        self.trace_text = ""          # counterexample text if any
        self.diag = []                # DIAG lines printed by trace specs

    def ok(self):
        return self.rc == 0 and not self.violated and not self.error


_RE_STATES = re.compile(r"(\d+) states generated, (\d+) distinct states found")
_RE_DEPTH = re.compile(r"The depth of the complete state graph search is (\d+)")
_RE_COV = re.compile(r"^<(\w+) line \d+, col \d+ to line \d+, col \d+ of module (\w+)(?: \([\d ]+\))?>: (\d+):(\d+)", re.M)
_RE_INV = re.compile(r"Error: Invariant (\w+) is violated")
_RE_PROP = re.compile(r"Error: (Action property|Temporal properties?) (\w+)? ?(?:was|were|is) violated")
_RE_GEN = re.compile(r'^<<"GEN", "(.*)">>$', re.M)


def _unescape_tla(s):
    # TLC prints strings with \" and \\ escaped
    return s.replace('\\"', '"').replace("\\\\", "\\")


def tlc(module, cfg=None, workers=None, simulate=None, depth=None, seed=None, coverage=True,
        timeout=1500, env=None, xmx="8g", deadlock=False, dfs=False, metaname=None, extra=(), dedupe_gen=False, max_gen=None):
    """Run TLC on spec/<module>.tla with spec/<cfg>; returns TlcResult.

    dedupe_gen: keep one of identical GEN lines; max_gen: keep at most that many (memory bound for large generations).
    """
    res = TlcResult()
    cfg = cfg or (module + ".cfg")
    meta = os.path.join(BUILD, "tlc", "%s-%d-%s" % (metaname or module, os.getpid(), hashlib.md5(
        (cfg + str(time.time())).encode()).hexdigest()[:6]))
    os.makedirs(meta, exist_ok=True)
    jopts = ["-XX:+UseParallelGC", "-Xmx" + xmx]
    if dfs:
        jopts.append("-Dtlc2.tool.queue.IStateQueue=StateDeque")
    cmd = ["java"] + jopts + ["-cp", TLA_CP, "tlc2.TLC", "-metadir", meta,
                              "-workers", str(workers or NCPU), "-config", cfg]
    if not deadlock:
        cmd.append("-deadlock")          # -deadlock = do NOT check for deadlock
    if coverage:
        cmd += ["-coverage", "1"]
    if simulate:
        cmd += ["-simulate", "num=%d" % simulate]
    if depth:
        cmd += ["-depth", str(depth)]
    if seed is not None:
        cmd += ["-seed", str(seed)]
    cmd += ["-noGenerateSpecTE"] + list(extra) + [module + ".tla"]
    rc, out, wall = sh(cmd, timeout=timeout, cwd=SPEC, env=env)
    shutil.rmtree(meta, ignore_errors=True)
    if os.environ.get("VERIF_VERBOSE"):
        log("tlc %s %s: %.1fs rc=%d" % (module, cfg, wall, rc))
    res.rc, res.out, res.wall = rc, out, wall
    for m in _RE_STATES.finditer(out):
        res.generated, res.distinct = int(m.group(1)), int(m.group(2))
    m = _RE_DEPTH.search(out)
    if m:
        res.depth = int(m.group(1))
    for m in _RE_COV.finditer(out):
        res.coverage[m.group(1)] = max(res.coverage.get(m.group(1), 0), int(m.group(3)))
    m = _RE_INV.search(out)
    if m:
        res.violated = m.group(1)
    m = _RE_PROP.search(out)
    if m and not res.violated:
        res.violated = m.group(2) or "property"
    if "is violated" in out and not res.violated:
        res.violated = "unknown"
    if res.violated:
        i = out.find("Error:")
        res.trace_text = out[i:i + 6000]
    seen_gen = set()
    for m in _RE_GEN.finditer(out):
        if max_gen is not None and len(res.gen) >= max_gen:
            break
        if dedupe_gen:
            hk = hashlib.md5(m.group(1).encode()).digest()
            if hk in seen_gen:
                continue
            seen_gen.add(hk)
        try:
            res.gen.append(json.loads(_unescape_tla(m.group(1))))
        except Exception as ex:   # malformed line = tooling error
            res.error = "unparseable GEN line: %s (%s)" % (m.group(1)[:200], ex)
    res.diag = re.findall(r'^<<"DIAG", .*$', out, re.M)[:5]
    if rc == 124:
        res.error = "TLC timeout after %ss" % timeout
    elif rc != 0 and not res.violated:
        # 12 = safety violation, 13 = liveness; others are tooling trouble
        i = out.find("Error")
        res.error = "TLC exit %d: %s" % (rc, out[i:i + 3000] if i >= 0 else out[-3000:])
    return res


def require_clean(res, what, needed_actions=()):
    """A model-level run must be clean and non-vacuous; otherwise tooling error
    (the model is part of the machinery: its failure is not a code violation
    unless the caller says so)."""
    if res.error:
        raise ToolingError("%s: %s" % (what, res.error))
    missing = [a for a in needed_actions if res.coverage.get(a, 0) == 0]
    if missing:
        raise ToolingError("%s: vacuous - actions never taken: %s" % (what, missing))


def tlc_trace(module, cfg, tracefile, timeout=1500, xmx="8g", dfs=False, extra_env=None):
    """Validate an ndjson trace against spec/<module>.tla (a trace spec whose
    cfg has POSTCONDITION TraceAccepted, diameter - 1 = Len(TraceLog)).
    Returns (accepted, reached, TlcResult); `reached` = number of trace lines
    consumed (the line after it is the one the specification refused).
    An invariant violated on the way is reported through res.violated."""
    env = {"TRACE": tracefile}
    if extra_env:
        env.update(extra_env)
    res = tlc(module, cfg, workers=1, coverage=False, timeout=timeout, env=env, xmx=xmx, dfs=dfs,
              metaname="trace")
    reached = max(res.depth - 1, 0)
    if "Postcondition TraceAccepted" in res.out and "is false" in res.out:
        res.error = None
        return False, reached, res
    if res.violated:
        # invariant violated in some state: the trace prefix is a behaviour, but a bad one
        m = re.findall(r"^State (\d+):", res.out, re.M)
        reached = (int(m[-1]) - 1) if m else reached
        return False, reached, res
    if res.error:
        raise ToolingError("trace validation (%s): %s" % (module, res.error[:1500]))
    return True, reached, res


def validate_trace_segments(chk, module, cfg, tracefile, script_of_segment=None, reset_event="Reset",
                            max_rejections=8, timeout=1500):
    """Validate a trace made of many executions (each starting with a Reset
    event).  After a rejection the offending execution is reported and the
    remaining executions are validated separately, so one rejection does not
    leave the rest unexamined.  Returns the number of executions accepted."""
    lines = open(tracefile).read().splitlines()
    starts = [i for i, ln in enumerate(lines) if '"e":"%s"' % reset_event in ln[:200]]
    if not starts or starts[0] != 0:
        raise ToolingError("trace %s does not start with a %s event" % (tracefile, reset_event))
    accepted_segments = 0
    begin = 0            # index into starts
    rejections = 0
    known = 0
    part = 0
    while begin < len(starts):
        lo = starts[begin]
        sub = tracefile + ".part%d" % part
        part += 1
        with open(sub, "w") as fh:
            fh.write("\n".join(lines[lo:]) + "\n")
        acc, reached, res = tlc_trace(module, cfg, sub, timeout=timeout)
        chk.add_tlc(res)
        if acc:
            accepted_segments += len(starts) - begin
            os.unlink(sub)
            break
        # confirm by re-running once (DESIGN 8.v): a rejection must be reproducible
        acc2, reached2, res2 = tlc_trace(module, cfg, sub, timeout=timeout)
        if acc2 or reached2 != reached:
            raise ToolingError("trace rejection not reproducible (%s line %d vs %d)" % (sub, reached, reached2))
        os.unlink(sub)
        bad_line = lo + reached            # 0-based index of the refused event (or of the bad state)
        seg = max(k for k in range(len(starts)) if starts[k] <= min(bad_line, len(lines) - 1))
        accepted_segments += seg - begin
        ev = json.loads(lines[min(bad_line, len(lines) - 1)])
        prev = json.loads(lines[bad_line - 1]) if bad_line > 0 else None
        seg_lines = lines[starts[seg]:(starts[seg + 1] if seg + 1 < len(starts) else len(lines))]
        rec = {"kind": "trace-rejected", "module": module, "diag": res.diag, "event": ev, "previous_event": prev,
               "invariant": res.violated, "segment": json.loads(seg_lines[0]),
               "segment_trace": [json.loads(x) for x in seg_lines[:400]]}
        if isinstance(ev, dict):
            rec["event_kind"] = ev.get("e")
            rec["event_fn"] = ev.get("fn")
        if script_of_segment:
            rec["script"] = script_of_segment(json.loads(seg_lines[0]))
        what = "%s refuses event %s %s" % (module, json.dumps(ev)[:300], " ".join(res.diag)[:400])
        if res.violated:
            what = "invariant %s violated after event %s" % (res.violated, json.dumps(prev)[:300])
        if chk.violation(rec, what):
            rejections += 1            # occurrences of a listed known finding do not use up the budget
        known += 0 if rejections else 0
        if rejections >= max_rejections:
            log("too many rejections, remaining executions not examined")
            break
        begin = seg + 1
    return accepted_segments


# ---------------------------------------------------------------- findings

def load_findings(pid):
    p = os.path.join(VERIF, "KNOWN_FINDINGS.json")
    if not os.path.exists(p):
        return []
    return [f for f in json.load(open(p))["findings"] if f["property"] == pid]


# ---------------------------------------------------------------- check context

class Check:
    """Book-keeping of one check run: counts, samples, violations, evidence."""

    def __init__(self, pid, level="model_checking"):
        self.pid = pid
        self.level = level
        self.tier = os.environ.get("VERIF_TIER", "quick")
        self.seed = int(os.environ.get("VERIF_SEED", "20261002") or 0) & 0x7fffffff
        self.t0 = time.time()
        self.states = 0
        self.transitions = 0
        self.traces = 0
        self.evaluations = 0
        self.distinct = 0
        self.samples = []
        self.violations = []      # (what, replay path)
        self.known_hits = {}      # finding key -> count
        self.notes = {}
        self.assumptions = []
        self.rule = ""
        self.exhaustive = False
        self.findings = load_findings(pid)
        self.rundir = os.path.join(BUILD, "run", "%s-%d" % (pid, os.getpid()))
        shutil.rmtree(self.rundir, ignore_errors=True)
        os.makedirs(self.rundir, exist_ok=True)
        os.makedirs(REPLAYS, exist_ok=True)

    @property
    def quick(self):
        return self.tier != "thorough"

    def pick(self, quick, thorough):
        return quick if self.quick else thorough

    def add_tlc(self, res):
        self.states += res.distinct
        self.transitions += res.generated

    def sample(self, s, cap=6):
        if len(self.samples) < cap:
            self.samples.append(s)

    def match_finding(self, record):
        """record: dict describing a violation; a finding matches when every
        key/value of its `key` dict equals the record's."""
        for f in self.findings:
            if f.get("status") != "finding":
                continue
            if all(record.get(k) == v for k, v in f["key"].items()):
                return f
        return None

    def violation(self, record, what):
        """Report a violation unless it is a listed known finding."""
        f = self.match_finding(record)
        if f is not None:
            k = json.dumps(f["key"], sort_keys=True)
            self.known_hits[k] = self.known_hits.get(k, 0) + 1
            if self.known_hits[k] == 1:
                print("KNOWN-FINDING: property=%s %s" % (self.pid, f["what"]), flush=True)
            return False
        n = len(self.violations)
        path = os.path.join(REPLAYS, "%s-%d-%d.json" % (self.pid, self.seed, n))
        if n < 20:
            rec = dict(record)
            rec.update({"property": self.pid, "what": what, "seed": self.seed, "tier": self.tier})
            with open(path, "w") as fh:
                json.dump(rec, fh, indent=1, default=str)
            print("VIOLATION property=%s replay=%s" % (self.pid, path), flush=True)
            print("  " + what[:600], flush=True)
        self.violations.append((what, path))
        return True

    def finish(self, extra_cov=None):
        cov = {
            "states": self.states,
            "transitions": self.transitions,
            "traces_validated_against_impl": self.traces,
            "evaluations": max(self.evaluations, 1),
            "distinct_nontrivial": self.distinct,
            "rule": self.rule,
            "samples": self.samples or ["(none)"],
            "exhaustive": self.exhaustive,
            "known_findings_hit": self.known_hits,
            "tree": tree_id(),
        }
        cov.update(self.notes)
        if extra_cov:
            cov.update(extra_cov)
        ev = {
            "property_id": self.pid,
            "tier": "thorough" if not self.quick else "quick",
            "seed": self.seed,
            "level": self.level,
            "coverage": cov,
            "assumptions": self.assumptions,
            "wall_s": round(time.time() - self.t0, 1),
            "violations": len(self.violations),
        }
        os.makedirs(EVID, exist_ok=True)
        tmp = os.path.join(EVID, self.pid + ".json.tmp")
        with open(tmp, "w") as fh:
            json.dump(ev, fh, indent=1, default=str)
        os.replace(tmp, os.path.join(EVID, self.pid + ".json"))
        shutil.rmtree(self.rundir, ignore_errors=True)
        log("%s %s: states=%d transitions=%d traces=%d evaluations=%d violations=%d wall=%.0fs" % (
            self.pid, self.tier, self.states, self.transitions, self.traces, self.evaluations,
            len(self.violations), time.time() - self.t0))
        return 1 if self.violations else 0


def read_ndjson(path):
    out = []
    with open(path) as fh:
        for line in fh:
            line = line.strip()
            if line:
                out.append(json.loads(line))
    return out


def write_ndjson(path, recs):
    with open(path, "w") as fh:
        for r in recs:
            fh.write(json.dumps(r, separators=(",", ":")) + "\n")


def tlc_oracle(module, cfg, cases, workdir, max_skips=300, timeout=3000):
    """TLC as oracle: `module` reads the ndjson file IOEnv.CASES and prints one
    GEN record (with the case's id) per case.  A case whose exact arithmetic
    overflows TLC's 32-bit integers is dropped (counted).  Returns
    ({id: record}, skipped, (distinct states, states generated))."""
    expected, skipped, states, trans = {}, 0, 0, 0
    remaining = list(cases)
    path = os.path.join(workdir, "oracle_%s.ndjson" % module)
    while remaining:
        write_ndjson(path, remaining)
        r = tlc(module, cfg, workers=1, coverage=False, env={"CASES": path}, timeout=timeout)
        states += r.distinct
        trans += r.generated
        ids = []
        for g in r.gen:
            if g["id"] not in expected:
                ids.append(g["id"])
            expected[g["id"]] = g
        done = len(set(ids))
        if r.rc == 0 and not r.error:
            break
        if r.error and "Overflow" in r.out and done < len(remaining):
            skipped += 1
            if skipped > max_skips:
                raise ToolingError("oracle %s: too many overflowing cases" % module)
            remaining = remaining[done + 1:]
            continue
        raise ToolingError("oracle %s failed: %s" % (module, (r.error or "")[:800]))
    return expected, skipped, (states, trans)
